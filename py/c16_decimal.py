#!/usr/bin/env python3
"""C16 offline checker: re-decides the records streamed by checks/c16_floattext.c with exact integer arithmetic only.

usage: c16_decimal.py <records-file> <result-out> <tier>

record line:  <phase> <idx> <sub> <value bits, 16 hex digits> <mode>:<site> <precision> <text>
  mode p = printf build helper/result text: must be EXACTLY the value correctly rounded to <precision> significant digits
           (round-half-even on the exact binary value, the other neighbour accepted only at an exact tie) in %g layout
  mode d = SCPI_dtostre text: must parse to a decimal within ONE unit of the <precision>-th significant digit of the
           correctly rounded decimal, must not denote zero for a non-zero value; 2..6 units at precision 15 = known accuracy class

No float(), no float formatting, no decimal module: the value is rebuilt from the bit pattern as mant * 2^exp2 and all
comparisons are integer comparisons.  The %g layout rule below is written from C11 7.21.6.1 (style e iff X < -4 or
X >= P, trailing zeros and a bare point removed, exponent sign and at least two exponent digits).
"""
import sys
import re

ACC_MAX_UNITS = 6   # known accuracy class: precision 15 only, 2..6 units of the 15th digit (see checks/c16_floattext.c)
ACC_PRECISION = 15

_p10 = {}


def p10(n):
    v = _p10.get(n)
    if v is None:
        v = 10 ** n
        _p10[n] = v
    return v


def unescape(t):
    return re.sub(r"\\x([0-9A-Fa-f]{2})", lambda m: chr(int(m.group(1), 16)), t)


def decode(bits):
    """-> (kind, neg, mant, exp2) with value = mant * 2**exp2; kind in 'nan','inf','fin'"""
    neg = bits >> 63
    e = (bits >> 52) & 0x7FF
    m = bits & ((1 << 52) - 1)
    if e == 0x7FF:
        return ("nan" if m else "inf"), neg, 0, 0
    if e == 0:
        return "fin", neg, m, -1074
    return "fin", neg, m | (1 << 52), e - 1075


def round_sig(mant, exp2, p):
    """correct rounding of mant*2^exp2 (> 0) to p significant digits.
    -> (lo, Xlo, hi, Xhi, where) : lo/hi p-digit integers, X decimal exponent of the first digit,
       where = -1 nearest is lo, +1 nearest is hi, 0 exact tie (or exactly lo when rem == 0: reported as -1)"""
    if exp2 >= 0:
        N, D = mant << exp2, 1
    else:
        N, D = mant, 1 << (-exp2)
    # X = floor(log10(N/D))
    X = ((N.bit_length() - D.bit_length()) * 30103) // 100000
    while True:
        # is 10^X <= N/D ?
        ok = (N >= p10(X) * D) if X >= 0 else (N * p10(-X) >= D)
        if not ok:
            X -= 1
            continue
        ok2 = (N >= p10(X + 1) * D) if X + 1 >= 0 else (N * p10(-(X + 1)) >= D)
        if ok2:
            X += 1
            continue
        break
    s = p - 1 - X
    if s >= 0:
        num, den = N * p10(s), D
    else:
        num, den = N, D * p10(-s)
    q, r = divmod(num, den)
    lo, Xlo = q, X
    hi, Xhi = q + 1, X
    if hi == p10(p):
        hi, Xhi = p10(p - 1), X + 1
    if r == 0:
        where = -1
    else:
        t = 2 * r
        where = -1 if t < den else (1 if t > den else 0)
    return lo, Xlo, hi, Xhi, where


def strip_zeros(d):
    d = d.rstrip("0")
    return d if d else "0"


def gfmt(neg, q, P, X):
    dig = str(q)
    assert len(dig) == P
    d = dig.rstrip("0") or dig[:1]
    n = len(d)
    out = "-" if neg else ""
    if X < -4 or X >= P:
        out += d[0]
        if n > 1:
            out += "." + d[1:]
        ax = -X if X < 0 else X
        es = str(ax)
        if len(es) < 2:
            es = "0" + es
        out += "e" + ("-" if X < 0 else "+") + es
    elif X >= 0:
        ip = d[:X + 1]
        ip += "0" * (X + 1 - len(ip))
        out += ip
        if n > X + 1:
            out += "." + d[X + 1:]
    else:
        out += "0." + "0" * (-X - 1) + d
    return out


def reftxt(rd, X):
    return "%s%s%se%d" % (rd[0], "." if len(rd) > 1 else "", rd[1:], X)


NUM_RE = re.compile(r"^(-?)([0-9]+)(?:\.([0-9]+))?(?:[eE]([+-]?)([0-9]{1,6}))?$")


def parse_num(t):
    """-> None (syntax) or dict(neg, m, e, nd, nsig, X, sig, has_exp, frac_trailing_zero)"""
    m = NUM_RE.match(t)
    if not m:
        return None
    neg = 1 if m.group(1) else 0
    ip, fp = m.group(2), m.group(3) or ""
    ex = int(m.group(5)) if m.group(5) else 0
    if m.group(4) == "-":
        ex = -ex
    alld = (ip + fp).lstrip("0")
    nd = len(alld)
    mm = int(alld) if alld else 0
    e = ex - len(fp)
    sig = alld.rstrip("0")
    return dict(neg=neg, m=mm, e=e, nd=nd, nsig=len(sig), X=e + nd - 1, sig=sig, has_exp=m.group(5) is not None,
                frac_trailing_zero=bool(fp) and fp.endswith("0"))


def dist_units(T, q, X, p):
    """ceil(|T - q*10^(X-p+1)| / 10^(X-p+1)), 0 if equal, capped"""
    Re = X - p + 1
    de = T["e"] - Re
    if de > 5000 or de < -5000:
        return 1000
    if de >= 0:
        a, b, unit = T["m"] * p10(de), q, 1
    else:
        a, b, unit = T["m"], q * p10(-de), p10(-de)
    diff = a - b if a > b else b - a
    d = (diff + unit - 1) // unit
    return 999 if d > 999 else d


class Out:
    def __init__(self):
        self.counters = {}
        self.viol = {}
        self.order = []
        self.nviol = 0
        self.samples = []

    def cnt(self, name, n=1):
        self.counters[name] = self.counters.get(name, 0) + n

    def violation(self, rec, key, text):
        self.nviol += 1
        self.cnt("post.viol:" + key)
        if key not in self.viol:
            self.viol[key] = "violation phase=%s idx=%s sub=%s key=%s :: [exact re-check] %s" % (rec[0], rec[1], rec[2], key, text.replace("\n", " "))
            self.order.append(key)


SITE_NAMES = {"double": "SCPI_DoubleToStr", "float": "SCPI_FloatToStr", "dtostre": "SCPI_dtostre",
              "result-double": "SCPI_ResultDouble", "result-float": "SCPI_ResultFloat"}


def check_record(o, rec):
    phase, idx, sub, bits_hex, kind, p_s, text = rec
    bits = int(bits_hex, 16)
    p = int(p_s)
    mode, site = kind.split(":", 1)
    fn = SITE_NAMES.get(site, site)
    cls, neg, mant, exp2 = decode(bits)
    what = "%s(bits 0x%s, precision %d) -> \"%s\"" % (fn, bits_hex, p, text)
    o.cnt("post.records")
    if cls == "nan":
        o.cnt("post.nonfinite")
        if "nan" not in text.lower():
            o.violation(rec, "C16:nan-spelling", what + ": does not spell NaN")
        return
    if cls == "inf":
        o.cnt("post.nonfinite")
        t = text[1:] if text.startswith("-") else text
        if "inf" not in t.lower():
            o.violation(rec, "C16:inf-spelling", what + ": does not spell infinity")
        if text.startswith("-") != bool(neg):
            o.violation(rec, "C16:inf-sign", what + ": sign wrong")
        return
    if mode == "p":
        o.cnt("post.printf.records")
        if mant == 0:
            if text != ("-0" if neg else "0"):
                o.violation(rec, "C16:printf-%s-zero" % site, what)
            else:
                o.cnt("post.printf.exact_string_match")
            return
        lo, Xlo, hi, Xhi, where = round_sig(mant, exp2, p)
        if where == 0:
            o.cnt("post.printf.exact_tie")
            wants = [gfmt(neg, lo, p, Xlo), gfmt(neg, hi, p, Xhi)]
            even = wants[0] if lo % 2 == 0 else wants[1]
            if text in wants:
                o.cnt("post.printf.exact_string_match")
                if text != even:
                    o.cnt("post.printf.tie_other_neighbour")
                return
            q, X = (lo, Xlo) if lo % 2 == 0 else (hi, Xhi)
        else:
            q, X = (lo, Xlo) if where < 0 else (hi, Xhi)
            wants = [gfmt(neg, q, p, X)]
            if text == wants[0]:
                o.cnt("post.printf.exact_string_match")
                o.cnt("post.printf.exponent_notation" if "e" in text else "post.printf.fixed_notation")
                return
        T = parse_num(text)
        if T is None:
            o.violation(rec, "C16:printf-%s-syntax" % site, what + ": not a decimal number; expected \"%s\"" % wants[0])
        elif T["neg"] == neg and T["m"] != 0 and dist_units(T, q, X, p) == 0:
            o.violation(rec, "C16:printf-%s-layout" % site, what + ": right value but not the %%g shape \"%s\"" % wants[0])
        else:
            o.violation(rec, "C16:printf-%s-digits" % site, what + ": is not the value rounded to %d significant digits, expected %s" % (p, " or ".join('"%s"' % w for w in wants)))
        return
    # ---- dtostre
    o.cnt("post.dtostre.records")
    T = parse_num(text)
    if T is None:
        o.violation(rec, "C16:dtostre-syntax", what + ": not a 488.2 decimal numeric (digits[.digits][e[+-]digits])")
        return
    if mant == 0:
        if T["m"] != 0:
            o.violation(rec, "C16:dtostre-zero", what + ": does not denote zero")
        else:
            o.cnt("post.dtostre.dist.0")
        return
    lo, Xlo, hi, Xhi, where = round_sig(mant, exp2, p)
    if where == 0:
        cands = [(lo, Xlo), (hi, Xhi)] if lo % 2 == 0 else [(hi, Xhi), (lo, Xlo)]
    else:
        cands = [(lo, Xlo) if where < 0 else (hi, Xhi)]
    q, X = cands[0]
    rd = str(q)
    rtxt = reftxt(rd, X)
    if T["m"] == 0:
        o.violation(rec, "C16:dtostre-trim-drops-digits", what + ": no significant digit left (correctly rounded: %s)" % rtxt)
        return
    if T["neg"] != neg:
        o.violation(rec, "C16:dtostre-sign", what + ": sign differs from the value")
        return
    d = dist_units(T, q, X, p)
    if d >= 2 and len(cands) > 1:  # exact tie: the other neighbour is an equally correct rounding
        d2 = dist_units(T, cands[1][0], cands[1][1], p)
        if d2 < d:
            d = d2
            q, X = cands[1]
            rd = str(q)
            rtxt = reftxt(rd, X)
    o.cnt("post.dtostre.dist.%s" % (d if d < 10 else "10plus"))
    if d <= 1:
        if d == 1 and T["nsig"] < len(strip_zeros(rd)):
            o.cnt("post.dtostre.one_unit_off_and_shorter")
        return
    rs = strip_zeros(rd)
    prefix = T["X"] == X and T["nsig"] < len(rs) and rs.startswith(T["sig"])
    # 2..3 units and cut short: same shape as a low digit generator whose digits end in zeros; the input shape decides the label
    body = text[1:] if text.startswith("-") else text
    leadzero = (not T["has_exp"]) and body.startswith("0.")
    if p == ACC_PRECISION and d <= ACC_MAX_UNITS and not (prefix and leadzero):
        o.cnt("post.acc.p%02d" % p)
        o.violation(rec, "C16:dtostre-ecvt-accuracy", what + ": well formed but %d units of digit %d away from the correctly rounded %s" % (d, p, rtxt))
    elif prefix:
        o.violation(rec, "C16:dtostre-trim-drops-digits", what + ": the significant digits stop after %d of the %d digits of the correctly rounded %s although the dropped ones are not zeros" % (T["nsig"], len(rs), rtxt))
    else:
        o.violation(rec, "C16:dtostre-value-far", what + ": %s%d units of digit %d away from the correctly rounded %s" % ("more than " if d >= 999 else "", d, p, rtxt))


def main():
    if len(sys.argv) < 3:
        print(__doc__)
        return 2
    rec_path, out_path = sys.argv[1], sys.argv[2]
    o = Out()
    n = 0
    with open(rec_path, "r", errors="replace") as f:
        for line in f:
            if not line.endswith("\n"):
                o.cnt("post.truncated_last_line")  # shard died while writing: ignore the fragment
                break
            parts = line[:-1].split(" ", 6)
            if len(parts) == 6:
                parts.append("")
            if len(parts) != 7 or len(parts[3]) != 16 or ":" not in parts[4]:
                o.cnt("post.unreadable_lines")
                continue
            parts[6] = unescape(parts[6])
            check_record(o, parts)
            n += 1
            if n % 997 == 1 and len(o.samples) < 4:
                o.samples.append("record re-decided exactly: bits 0x%s %s precision %s -> \"%s\"" % (parts[3], parts[4], parts[5], parts[6]))
    tmp = out_path + ".tmp"
    with open(tmp, "w") as g:
        g.write("evals %d\n" % n)
        for k in sorted(o.counters):
            g.write("counter %s %d\n" % (k, o.counters[k]))
        for s in o.samples:
            g.write("sample %s\n" % s)
        for k in o.order:
            g.write(o.viol[k] + "\n")
        g.write("violations %d\n" % o.nviol)
        bad = o.counters.get("post.unreadable_lines", 0)
        if bad:
            print("c16_decimal: %d unreadable record lines in %s" % (bad, rec_path))  # no 'done': the driver reports the run inconclusive
        else:
            g.write("done\n")
    import os
    os.replace(tmp, out_path)
    return 0


if __name__ == "__main__":
    sys.exit(main())
