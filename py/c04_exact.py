#!/usr/bin/env python3
"""Offline re-decision of C04 records with exact rational arithmetic (no float parsing is trusted).
usage: c04_exact.py <records> <result-out> <tier>
record lines:  D <literal hex> - <bits64>   F <literal hex> - <bits32>   U <literal hex> <multiplier text> <bits64>
"""
import sys, re
from fractions import Fraction

NUM = re.compile(r'^([+-]?)(\d*)(?:\.(\d*))?(?:[eE]([+-]?\d+))?(.*)$', re.S)


def exact_value(text):
    t = re.sub(r'[ \t]', '', text)
    m = NUM.match(t)
    if not m:
        return None, None
    sign, ip, fp, ex, rest = m.groups()
    ip = ip or ''
    fp = fp or ''
    if not ip and not fp:
        return None, None
    v = Fraction(int((ip + fp) or '0'), 10 ** len(fp))
    if ex:
        v *= Fraction(10) ** int(ex)
    if sign == '-':
        v = -v
    return v, rest


def round_binary(v, p, emin, emax):
    """correctly rounded (half to even) binary floating-point value of Fraction v as (sign, biased exponent field value as Fraction)
    returns the rounded value as a Fraction, or 'inf'"""
    if v == 0:
        return Fraction(0)
    s = -1 if v < 0 else 1
    a = abs(v)
    # exponent e with 2^e <= a < 2^(e+1)
    e = a.numerator.bit_length() - a.denominator.bit_length()
    if Fraction(2) ** e > a:
        e -= 1
    if Fraction(2) ** (e + 1) <= a:
        e += 1
    q = max(e - (p - 1), emin)          # exponent of the unit in the last place
    scaled = a / (Fraction(2) ** q)
    n = scaled.numerator // scaled.denominator
    rem = scaled - n
    if rem > Fraction(1, 2) or (rem == Fraction(1, 2) and (n & 1)):
        n += 1
    r = n * Fraction(2) ** q
    if r >= Fraction(2) ** (emax + 1):
        return 'inf'
    return s * r


def bits_to_fraction64(b):
    s = -1 if b >> 63 else 1
    e = (b >> 52) & 0x7ff
    m = b & ((1 << 52) - 1)
    if e == 0x7ff:
        return 'inf' if m == 0 else 'nan'
    if e == 0:
        return s * m * Fraction(2) ** (-1074)
    return s * ((1 << 52) | m) * Fraction(2) ** (e - 1075)


def bits_to_fraction32(b):
    s = -1 if b >> 31 else 1
    e = (b >> 23) & 0xff
    m = b & ((1 << 23) - 1)
    if e == 0xff:
        return 'inf' if m == 0 else 'nan'
    if e == 0:
        return s * m * Fraction(2) ** (-149)
    return s * ((1 << 23) | m) * Fraction(2) ** (e - 150)


def ulp64(b):
    e = (b >> 52) & 0x7ff
    return Fraction(2) ** ((e - 1075) if e else -1074)


def mult_fraction(t):
    if '/' in t:
        a, b = t.split('/')
        return Fraction(int(a), int(b))
    m = re.match(r'^(\d+)(?:e([+-]?\d+))?$', t)
    v = Fraction(int(m.group(1)))
    if m.group(2):
        v *= Fraction(10) ** int(m.group(2))
    return v


def main():
    recs, outp = sys.argv[1], sys.argv[2]
    evals = 0
    counters = {}
    viol = []
    samples = []

    def cnt(k):
        counters[k] = counters.get(k, 0) + 1

    for line in open(recs):
        p = line.split()
        if len(p) != 4:
            continue
        kind, hx, extra, bits = p
        text = bytes.fromhex(hx).decode('latin-1')
        b = int(bits, 16)
        evals += 1
        v, rest = exact_value(text)
        if v is None:
            cnt('offline.unparsable_literal')
            continue
        # recorded finding: literal with blanks around the exponent mark and 64+ other characters decodes as its mantissa alone
        stripped = text.replace(' ', '').replace('\t', '')
        long_ws = stripped != text and len(stripped) >= 64
        mant = exact_value(text.split(' ')[0].split('\t')[0])[0] if long_ws else None
        if kind == 'D':
            want = round_binary(v, 53, -1074, 1023)
            got = bits_to_fraction64(b)
            ok = (want == got) if want != 'inf' else got == 'inf'
            cnt('offline.double_rechecked')
            if not ok and long_ws and mant is not None and round_binary(mant, 53, -1074, 1023) == got:
                viol.append(('C04:long-literal-with-exponent-white-space-decoded-as-mantissa', 'ParamDouble("%s") = %s (offline, exact arithmetic)' % (text, got)))
            elif not ok:
                viol.append(('C04:double-value:offline-exact-arithmetic', 'ParamDouble("%s") bits %016x = %s, exact rounding gives %s' % (text, b, got, want)))
        elif kind == 'F':
            want = round_binary(v, 24, -149, 127)
            got = bits_to_fraction32(b)
            ok = (want == got) if want != 'inf' else got == 'inf'
            cnt('offline.float_rechecked')
            if not ok and long_ws and mant is not None and round_binary(mant, 24, -149, 127) == got:
                viol.append(('C04:long-literal-with-exponent-white-space-decoded-as-mantissa', 'ParamFloat("%s") = %s (offline, exact arithmetic)' % (text, got)))
            elif not ok:
                viol.append(('C04:float-value:offline-exact-arithmetic', 'ParamFloat("%s") bits %08x = %s, exact rounding gives %s' % (text, b, got, want)))
        elif kind == 'U':
            exact = v * mult_fraction(extra)
            got = bits_to_fraction64(b)
            cnt('offline.suffix_rechecked')
            if got in ('inf', 'nan') or abs(got - exact) > ulp64(b):
                viol.append(('C04:suffix-multiplier:offline-exact-arithmetic', 'ParamNumber("%s") = %s, exact value x %s = %s' % (text, got, extra, exact)))
        if len(samples) < 3 and evals % 97 == 1:
            samples.append('offline: "%s" kind %s bits %s re-decided with exact rational arithmetic' % (text, kind, bits))
    with open(outp, 'w') as f:
        f.write('evals %d\n' % evals)
        for k, v in sorted(counters.items()):
            f.write('counter %s %d\n' % (k, v))
        for s in samples:
            f.write('sample %s\n' % s.replace('\n', ' '))
        seen = set()
        for k, t in viol:
            if k in seen:
                continue
            seen.add(k)
            f.write('violation phase=-1 idx=0 sub=0 key=%s :: %s\n' % (k, t.replace('\n', ' ')))
        f.write('violations %d\n' % len(viol))
        f.write('done\n')


if __name__ == '__main__':
    main()
