/* libFuzzer entry point for C01 (thorough tier): coverage-guided streams through the same executor as the sharded check.
 * input layout: 6 configuration bytes, then the byte stream. */
#include "../checks/c01_core.h"
#include <stdint.h>

int LLVMFuzzerTestOneInput(const uint8_t * data, size_t size);
int LLVMFuzzerTestOneInput(const uint8_t * data, size_t size) {
    c01_cfg_t c; const char * bad;
    if (size < 6 || size > 700) return 0;
    c.bufsize = data[0] < 200 ? 2 + (size_t) data[0] * 2 : (size - 6) + 1 + (size_t) (data[0] & 3); /* small buffers, or the stream ending at the physical end */
    c.queue_len = 1 + (data[1] & 3);
    c.heap_len = 2 + (data[2] & 63);
    c.seg_seed = data[3];
    c.sig_seed = data[4];
    c.mode = data[5] & 3;
    bad = c01_execute(data + 6, size - 6, &c);
    if (bad) { fprintf(stderr, "C01-TERMINATION-RULE: %s\n", bad); abort(); }
    return 0;
}
