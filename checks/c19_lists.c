/* C19 - numeric and channel lists decode entry by entry exactly as written.
 *
 * Function-level differential monitor of SCPI_ExprNumericListEntry / ...Int / ...Double and
 * SCPI_ExprChannelListEntry.  The expression "(" body ")" lives in an exact-size heap cell, the channel
 * value arrays are exact-size heap cells of the announced capacity (ASan build) or sit between guard
 * words (gcc -O2 build).
 *
 * Oracle: reference list parser written from SCPI-99 vol.1 8.3.2 (numeric list) / 8.3.3 (channel list)
 * and the IEEE 488.2 7.7.2 decimal numeric grammar.  It works the other way round than the library
 * (which lexes prefixes incrementally): the body is SPLIT at ',' then each piece at ':' then (channel
 * lists) at '!' and every leaf has to be, as a whole, a decimal numeric.
 *
 *   numeric list  = entry ("," entry)*          entry = n (":" n)?
 *   channel list  = "@" entry ("," entry)*      entry = spec (":" spec)?   spec = d ("!" d)*
 *                   both specs of a range have the same number of dimensions; no white space.
 *
 * Classes of a piece: STRICT (well formed beyond doubt), LENIENT (the grammar with the optional white
 * space 488.2 allows around the exponent letter, or a channel number that is not a plain integer:
 * nothing is demanded, OK is tolerated), BAD.
 *
 *   all pieces STRICT (a well-formed list, >= 1 entry):
 *        i <  n -> OK, isRange, value(s) exactly as written, dimension count
 *        i >= n -> NO_MORE and nothing queued
 *   otherwise: OK at index i only if pieces 0..i are all non-BAD (each well formed and delimited by
 *        ',' or the end); channel list with a BAD piece / without '@': every other answer has to be
 *        ERROR with -170 in the queue (NO_MORE is not acceptable).  For numeric lists the statement is
 *        silent about ERROR versus NO_MORE: counted.
 *   always: no store outside the announced capacity (guards / exact-size cells).
 */
#include "vh_scpi.h"
#include "scpi/expression.h"
#include <stdio.h>
#include <stdlib.h>
#include <string.h>

#define NIDX 10   /* indices 0..9 */
#define NCAP 5    /* capacities 0..4 */
#define MAXD 8    /* dimensions whose values the reference keeps */
#define MAXE NIDX /* entries the reference keeps in detail */

/* ---- local counters (flushed once per case; vh_count does a name lookup) --------------------------- */
#define COUNTERS(X) \
    X(lists_numeric_wellformed, "lists.numeric.wellformed") X(lists_numeric_lenient, "lists.numeric.lenient_ws_in_exponent") X(lists_numeric_malformed, "lists.numeric.malformed") \
    X(lists_channel_wellformed, "lists.channel.wellformed") X(lists_channel_lenient, "lists.channel.lenient_non_integer") X(lists_channel_malformed, "lists.channel.malformed") \
    X(num_ok, "numeric.wellformed.ok") X(num_ok_range, "numeric.wellformed.ok_range") X(num_no_more, "numeric.wellformed.no_more_nothing_queued") \
    X(num_tok, "numeric.token_extent_compared") X(num_int_cmp, "numeric.int_value_compared") X(num_int_skip, "numeric.int_not_integer_literal_or_out_of_range") X(num_dbl_cmp, "numeric.double_value_compared") \
    X(num_to_untouched, "numeric.single_value_to_untouched") X(num_to_touched, "numeric.single_value_to_modified.counted_only") \
    X(num_bad_ok_prefix, "numeric.malformed.ok_for_wellformed_prefix") X(num_bad_error_170, "numeric.malformed.error_with_170") X(num_bad_error_other, "numeric.malformed.error_without_170.counted_only") \
    X(num_bad_no_more, "numeric.malformed.no_more.counted_only") X(num_bad_no_more_before_bad, "numeric.malformed.no_more_before_first_bad_entry.counted_only") X(num_lenient_calls, "numeric.lenient.calls") \
    X(ch_ok, "channel.wellformed.ok") X(ch_ok_range, "channel.wellformed.ok_range") X(ch_ok_multidim, "channel.wellformed.ok_multidim") X(ch_no_more, "channel.wellformed.no_more_nothing_queued") \
    X(ch_cap_lt, "channel.wellformed.ok_capacity_lt_dimensions") X(ch_cap_gt, "channel.wellformed.ok_capacity_gt_dimensions") X(gen_long_entry, "generated.entries_spelled_with_40_to_320_characters") X(ch_cap0_null, "channel.capacity0_null_arrays") X(ch_cap0_cell, "channel.capacity0_zero_size_cells") \
    X(ch_val_cmp, "channel.values_compared") X(ch_val_skip, "channel.values_out_of_int32.not_compared") X(ch_to_touched, "channel.single_value_to_modified.counted_only") X(ch_spare_touched, "channel.cells_within_capacity_behind_the_dimensions_modified.counted_only") \
    X(ch_bad_ok_prefix, "channel.malformed.ok_for_wellformed_prefix") X(ch_bad_error_prefix, "channel.malformed.error_170_for_wellformed_prefix") X(ch_bad_error_170, "channel.malformed.error_with_170") \
    X(ch_noat_error_170, "channel.no_at.error_with_170") X(ch_lenient_calls, "channel.lenient.calls") X(ch_nonok_touched, "channel.arrays_modified_on_non_ok.within_capacity.counted_only") \
    X(ok_with_error, "any.ok_with_error_queued.counted_only") X(err_cb_other, "any.error_callback_other_code") \
    X(mut_still_wellformed, "mutate.still_wellformed") X(mut_malformed, "mutate.malformed")
enum {
#define X(id, name) CN_##id,
    COUNTERS(X)
#undef X
    CN__N
};
static const char * const cn_names[CN__N] = {
#define X(id, name) name,
    COUNTERS(X)
#undef X
};
static uint64_t cn[CN__N];
#define CNT(id) (cn[CN_##id]++)

/* ---- violation keys --------------------------------------------------------------------------------- */
#define KEYS(X) \
    X(num_garbage, "C19:numeric-entry-ok-with-trailing-garbage") X(num_second_colon, "C19:numeric-range-ok-with-second-colon") \
    X(num_bad_range, "C19:numeric-malformed-range-ok") X(num_bad_entry, "C19:numeric-malformed-entry-ok") X(num_after_bad, "C19:numeric-entry-ok-after-malformed-entry") \
    X(num_beyond, "C19:numeric-entry-ok-beyond-end") X(num_not_ok, "C19:numeric-wellformed-entry-not-ok") X(num_isrange, "C19:numeric-isrange") X(num_extent, "C19:numeric-token-extent") \
    X(num_int, "C19:numeric-int-value") X(num_dbl, "C19:numeric-double-value") X(num_nomore, "C19:numeric-no-more-expected") X(num_nomore_err, "C19:numeric-no-more-with-error-queued") \
    X(ch_garbage, "C19:channel-entry-ok-with-trailing-garbage") X(ch_bad_range, "C19:channel-malformed-range-ok") X(ch_bad_spec, "C19:channel-malformed-spec-ok") X(ch_bad_entry, "C19:channel-malformed-entry-ok") \
    X(ch_after_bad, "C19:channel-entry-ok-after-malformed-entry") X(ch_beyond, "C19:channel-entry-ok-beyond-end") X(ch_no_at, "C19:channel-entry-ok-without-at") \
    X(ch_not_ok, "C19:channel-wellformed-entry-not-ok") X(ch_isrange, "C19:channel-isrange") X(ch_dims, "C19:channel-dimensions") X(ch_values, "C19:channel-values") \
    X(ch_beyond_cap, "C19:channel-store-beyond-capacity") X(ch_nomore, "C19:channel-no-more-expected") X(ch_nomore_err, "C19:channel-no-more-with-error-queued") \
    X(ch_bad_nomore, "C19:malformed-channel-list-no-more") X(ch_bad_no170, "C19:malformed-channel-list-error-without-170") X(bad_result, "C19:result-code-out-of-range")
enum {
#define X(id, name) K_##id,
    KEYS(X)
#undef X
    K__N
};
static const char * const key_names[K__N] = {
#define X(id, name) name,
    KEYS(X)
#undef X
};
static uint64_t key_pending[K__N]; /* repeats of an already reported key, flushed per case */
static uint8_t key_seen[K__N];
/* first witness of a key in this process goes through vh_violation (formats the text), repeats are only counted */
#define VIOL(k, ...) do { if (!key_seen[k]) { key_seen[k] = 1; vh_violation(key_names[k], __VA_ARGS__); } else key_pending[k]++; } while (0)

static void flush_counters(void) {
    int i; char nm[96];
    for (i = 0; i < CN__N; i++) if (cn[i]) { vh_count(cn_names[i], cn[i]); cn[i] = 0; }
    for (i = 0; i < K__N; i++) if (key_pending[i]) { snprintf(nm, sizeof nm, "viol:%s", key_names[i]); vh_count(nm, key_pending[i]); key_pending[i] = 0; }
}

/* ---- reference list parser --------------------------------------------------------------------------- */
enum { R_BAD = 0, R_LENIENT = 1, R_STRICT = 2 };
typedef struct { int off, len; uint8_t is_int, int_ok; int32_t ival; } rnum_t;
typedef struct { uint8_t cls, is_range; int ndim; int off, len; rnum_t from[MAXD], to[MAXD]; } rent_t;
typedef struct { int present; int npieces; int cls; int first_bad; rent_t e[MAXE]; } rlist_t;

static int r_isdigit(int c) { return c >= '0' && c <= '9'; }
static int r_isws(int c) { return (c >= 0 && c <= 9) || (c >= 11 && c <= 32); } /* 488.2 7.4.1.2 white space */

/* whole text s[0..len) as a 488.2 <DECIMAL NUMERIC PROGRAM DATA> (7.7.2.2): mantissa, optional exponent */
static int ref_num(const char * s, int len, int chan, rnum_t * o) {
    int p = 0, nd = 0, neg = 0, point = 0, ws = 0, ne = 0;
    int64_t acc = 0;
    o->len = len; o->is_int = 0; o->int_ok = 0; o->ival = 0;
    if (p < len && (s[p] == '+' || s[p] == '-')) { neg = s[p] == '-'; p++; }
    while (p < len && r_isdigit((unsigned char) s[p])) { if (acc < ((int64_t) 1 << 40)) acc = acc * 10 + (s[p] - '0'); p++; nd++; }
    if (p < len && s[p] == '.') { point = 1; p++; while (p < len && r_isdigit((unsigned char) s[p])) { p++; nd++; } }
    if (nd == 0) return R_BAD;
    if (p == len) {
        if (!point) {
            o->is_int = 1;
            if (neg) acc = -acc;
            if (acc >= -(int64_t) 2147483648LL && acc <= (int64_t) 2147483647LL) { o->int_ok = 1; o->ival = (int32_t) acc; }
            return R_STRICT;
        }
        return chan ? R_LENIENT : R_STRICT;
    }
    while (p < len && r_isws((unsigned char) s[p])) { p++; ws++; }
    if (p < len && (s[p] == 'e' || s[p] == 'E')) p++; else return R_BAD;
    while (p < len && r_isws((unsigned char) s[p])) { p++; ws++; }
    if (p < len && (s[p] == '+' || s[p] == '-')) p++;
    while (p < len && r_isdigit((unsigned char) s[p])) { p++; ne++; }
    if (ne == 0 || p != len) return R_BAD;
    return (ws || chan) ? R_LENIENT : R_STRICT;
}

/* one side of an entry: a number (numeric list) or d(!d)* (channel list) */
static int ref_side(const char * b, int off, int len, int chan, rnum_t * nums, int * ndim) {
    int cls = R_STRICT, k = 0, pos = off, end = off + len;
    if (!chan) {
        nums[0].off = off; *ndim = 1;
        return ref_num(b + off, len, 0, &nums[0]);
    }
    for (;;) {
        int e = pos, c;
        rnum_t tmp, * o = k < MAXD ? &nums[k] : &tmp;
        while (e < end && b[e] != '!') e++;
        o->off = pos;
        c = ref_num(b + pos, e - pos, 1, o);
        if (c < cls) cls = c;
        k++;
        if (e >= end) break;
        pos = e + 1;
    }
    *ndim = k;
    return cls;
}

static int ref_entry(const char * b, int off, int len, int chan, rent_t * e) {
    int i, c1 = -1, nc = 0, cls;
    e->off = off; e->len = len; e->is_range = 0; e->ndim = 0;
    for (i = 0; i < len; i++) if (b[off + i] == ':') { if (!nc) c1 = i; nc++; }
    if (nc > 1) return e->cls = R_BAD;
    if (nc == 0) cls = ref_side(b, off, len, chan, e->from, &e->ndim);
    else {
        int a, c, d2 = 0;
        e->is_range = 1;
        a = ref_side(b, off, c1, chan, e->from, &e->ndim);
        c = ref_side(b, off + c1 + 1, len - c1 - 1, chan, e->to, &d2);
        cls = a < c ? a : c;
        if (cls != R_BAD && d2 != e->ndim) cls = R_BAD;
    }
    return e->cls = (uint8_t) cls;
}

static void ref_list(const char * b, int len, int chan, rlist_t * rl) {
    int pos = 0, k = 0;
    rl->present = 1; rl->npieces = 0; rl->cls = R_STRICT; rl->first_bad = -1;
    if (chan) {
        if (len < 1 || b[0] != '@') { rl->present = 0; rl->cls = R_BAD; rl->first_bad = 0; return; }
        pos = 1;
    }
    for (;;) {
        int end = pos, cls;
        rent_t tmp, * e = k < MAXE ? &rl->e[k] : &tmp;
        while (end < len && b[end] != ',') end++;
        cls = ref_entry(b, pos, end - pos, chan, e);
        if (cls < rl->cls) rl->cls = cls;
        if (cls == R_BAD && rl->first_bad < 0) rl->first_bad = k;
        k++;
        if (end >= len) break;
        pos = end + 1;
    }
    rl->npieces = k;
    if (rl->first_bad < 0) rl->first_bad = k;
}

static double ref_dbl(const char * s, int len) {
    /* the value the literal denotes: IEEE 488.2 allows white space around the exponent mark, so it is removed first
     * (the library decodes "1 E3" as 1000 since its fix for C04; before that it stopped at the blank) */
    char * h = (char *) malloc((size_t) len + 1); double d; int i, k = 0;
    for (i = 0; i < len; i++) if (s[i] != ' ' && s[i] != '\t') h[k++] = s[i];
    h[k] = 0; d = strtod(h, NULL); free(h);
    return d;
}

/* number decoding itself is C04's subject; its recorded finding (64+ characters and white space around the exponent mark ->
 * mantissa only, key C04:long-literal-with-exponent-white-space-decoded-as-mantissa) is not reported a second time here */
static int dbl_matches_literal(double lib, const char * s, int len) {
    int i, k = 0, ws = 0; double ref = ref_dbl(s, len);
    if (memcmp(&lib, &ref, sizeof lib) == 0) return 1;
    for (i = 0; i < len; i++) if (s[i] == ' ' || s[i] == '\t') ws = 1; else k++;
    if (ws && k >= 64) { char * h = (char *) malloc((size_t) len + 1); double m; memcpy(h, s, (size_t) len); h[len] = 0; m = strtod(h, NULL); free(h); if (m == lib) { vh_count("values.c04_long_literal_finding_seen_not_reported_here", 1); return 1; } }
    return 0;
}

/* ---- the case context ---------------------------------------------------------------------------------- */
typedef struct {
    vh_ctx_t * v;
    const char * body; int len;
    char * expr; /* exact-size "(" body ")" */
    scpi_parameter_t param;
    rlist_t num, chan;
} cx_t;

static const scpi_command_t no_commands[] = { SCPI_CMD_LIST_END };
static vh_ctx_t * the_ctx; /* one library context per process: only its error queue is used, emptied after every call */

static vh_ctx_t * get_ctx(void) {
    if (!the_ctx) { the_ctx = vh_ctx_new(no_commands, 16, 8, 64); the_ctx->log_enabled = 0; }
    return the_ctx;
}

typedef struct { int ncb, cb170, cbother, q, q170; } errs_t;
static void take_errs(vh_ctx_t * v, errs_t * e) {
    int i;
    e->ncb = (int) v->nerrs_total; e->cb170 = 0; e->cbother = 0; e->q170 = 0;
    for (i = 0; i < v->nerrs; i++) { if (v->errs[i] == SCPI_ERROR_EXPRESSION_PARSING_ERROR) e->cb170++; else e->cbother++; }
    e->q = SCPI_ErrorCount(v->ctx);
    if (e->q > 0) {
        int guard = 0;
        while (SCPI_ErrorCount(v->ctx) > 0 && guard++ < 64) {
            scpi_error_t er;
            SCPI_ErrorPop(v->ctx, &er);
            if (er.error_code == SCPI_ERROR_EXPRESSION_PARSING_ERROR) e->q170++;
        }
    }
    if (e->ncb || e->q) { SCPI_ErrorClear(v->ctx); v->nerrs = 0; v->nerrs_total = 0; }
    if (e->cbother) CNT(err_cb_other);
}

static const char * res_name(int r) { return r == SCPI_EXPR_OK ? "OK" : r == SCPI_EXPR_ERROR ? "ERROR" : r == SCPI_EXPR_NO_MORE ? "NO_MORE" : "?"; }
enum { M_TOKEN, M_INT, M_DOUBLE, M_CHANNEL };
static const char * const fn_names[4] = { "SCPI_ExprNumericListEntry", "SCPI_ExprNumericListEntryInt", "SCPI_ExprNumericListEntryDouble", "SCPI_ExprChannelListEntry" };

/* what the library reported for an OK entry */
typedef struct {
    int mode, is_range; size_t dims; int cap;
    long f_off, f_len, t_off, t_len; int f_type, t_type;
    int32_t i_f[NCAP], i_t[NCAP];
    double d_f, d_t;
} report_t;

static int dbl_same(double a, double b) { return memcmp(&a, &b, sizeof a) == 0; }

/* does the report agree with reference entry e (as far as values are comparable)? */
static int report_matches(const cx_t * c, const rent_t * e, const report_t * r) {
    int k, m;
    if (r->is_range != e->is_range) return 0;
    switch (r->mode) {
        case M_TOKEN:
            if (r->f_off != e->from[0].off || r->f_len != e->from[0].len) return 0;
            if (e->is_range && (r->t_off != e->to[0].off || r->t_len != e->to[0].len)) return 0;
            return 1;
        case M_INT:
            if (e->from[0].int_ok && r->i_f[0] != e->from[0].ival) return 0;
            if (e->is_range && e->to[0].int_ok && r->i_t[0] != e->to[0].ival) return 0;
            return 1;
        case M_DOUBLE:
            if (!dbl_matches_literal(r->d_f, c->body + e->from[0].off, e->from[0].len)) return 0;
            if (e->is_range && !dbl_matches_literal(r->d_t, c->body + e->to[0].off, e->to[0].len)) return 0;
            return 1;
        default:
            if (r->dims != (size_t) e->ndim) return 0;
            m = e->ndim < r->cap ? e->ndim : r->cap; if (m > MAXD) m = MAXD;
            for (k = 0; k < m; k++) {
                if (e->from[k].int_ok && r->i_f[k] != e->from[k].ival) return 0;
                if (e->is_range && e->to[k].int_ok && r->i_t[k] != e->to[k].ival) return 0;
            }
            return 1;
    }
}

/* OK was reported at an index where the reference does not permit it: choose the witness class */
static int classify_bad_ok(const cx_t * c, int chan, int idx, const report_t * r) {
    const rlist_t * rl = chan ? &c->chan : &c->num;
    const rent_t * pe;
    rent_t pre;
    int L;
    if (chan && !rl->present) return K_ch_no_at;
    if (idx >= rl->npieces) return chan ? K_ch_beyond : K_num_beyond;
    if (rl->first_bad < idx) return chan ? K_ch_after_bad : K_num_after_bad;
    /* pieces before idx are fine, piece idx itself is BAD: is it a well-formed entry followed by something? */
    pe = &rl->e[idx];
    for (L = pe->len - 1; L >= 1; L--) {
        if (ref_entry(c->body, pe->off, L, chan, &pre) != R_BAD) {
            int tail = (unsigned char) c->body[pe->off + L];
            if (tail == ':') return pre.is_range ? (chan ? (report_matches(c, &pre, r) ? K_ch_garbage : K_ch_bad_entry) : (report_matches(c, &pre, r) ? K_num_second_colon : K_num_bad_entry))
                                                 : (chan ? K_ch_bad_range : K_num_bad_range); /* "n:" + something that is no number / other dimension count */
            if (chan && tail == '!') return K_ch_bad_spec;                                      /* "d!" + something that is no number */
            if (!report_matches(c, &pre, r)) return chan ? K_ch_bad_entry : K_num_bad_entry;
            return chan ? K_ch_garbage : K_num_garbage; /* the ONLY problem is what follows the entry */
        }
    }
    return chan ? K_ch_bad_entry : K_num_bad_entry;
}

/* ---- numeric list functions ------------------------------------------------------------------------------ */
static void check_numeric(cx_t * c, int mode, int idx) {
    const rlist_t * rl = &c->num;
    const rent_t * e = (idx < rl->npieces && idx < MAXE) ? &rl->e[idx] : NULL;
    scpi_t * ctx = c->v->ctx;
    scpi_bool_t is_range = e ? !e->is_range : (idx & 1) != 0; /* start from the wrong answer */
    scpi_parameter_t pf, pt;
    int32_t i_f, i_t; double d_f, d_t;
    int res; errs_t er; report_t r;

    memset(&pf, 0xA5, sizeof pf); memset(&pt, 0xA5, sizeof pt);
    memset(&i_f, 0xA5, sizeof i_f); memset(&i_t, 0xA5, sizeof i_t); memset(&d_f, 0xA5, sizeof d_f); memset(&d_t, 0xA5, sizeof d_t);
    switch (mode) {
        case M_TOKEN: res = (int) SCPI_ExprNumericListEntry(ctx, &c->param, idx, &is_range, &pf, &pt); break;
        case M_INT: res = (int) SCPI_ExprNumericListEntryInt(ctx, &c->param, idx, &is_range, &i_f, &i_t); break;
        default: res = (int) SCPI_ExprNumericListEntryDouble(ctx, &c->param, idx, &is_range, &d_f, &d_t); break;
    }
    vh_eval(1);
    take_errs(c->v, &er);
    if (res != SCPI_EXPR_OK && res != SCPI_EXPR_ERROR && res != SCPI_EXPR_NO_MORE) { VIOL(K_bad_result, "%s(\"(%s)\", index %d) returned %d", fn_names[mode], vh_esc(c->body, (size_t) c->len), idx, res); return; }
    memset(&r, 0, sizeof r);
    r.mode = mode; r.is_range = is_range ? 1 : 0;
    if (res == SCPI_EXPR_OK) {
        if (mode == M_TOKEN) {
            r.f_off = (long) (pf.ptr - (c->expr + 1)); r.f_len = (long) pf.len; r.f_type = (int) pf.type;
            r.t_off = (long) (pt.ptr - (c->expr + 1)); r.t_len = (long) pt.len; r.t_type = (int) pt.type;
        }
        r.i_f[0] = i_f; r.i_t[0] = i_t; r.d_f = d_f; r.d_t = d_t;
        if (er.ncb || er.q) CNT(ok_with_error);
    }

    if (rl->cls == R_STRICT) { /* ---- well-formed list ---- */
        if (e) {
            if (res != SCPI_EXPR_OK) { VIOL(K_num_not_ok, "%s(\"(%s)\", index %d) = %s, the list is well formed and has %d entries", fn_names[mode], vh_esc(c->body, (size_t) c->len), idx, res_name(res), rl->npieces); return; }
            CNT(num_ok); if (e->is_range) CNT(num_ok_range);
            if (r.is_range != e->is_range) { VIOL(K_num_isrange, "%s(\"(%s)\", index %d): isRange=%d, entry \"%s\"", fn_names[mode], vh_esc(c->body, (size_t) c->len), idx, r.is_range, vh_esc(c->body + e->off, (size_t) e->len)); return; }
            if (mode == M_TOKEN) {
                CNT(num_tok);
                if (r.f_off != e->from[0].off || r.f_len != e->from[0].len || r.f_type != SCPI_TOKEN_DECIMAL_NUMERIC_PROGRAM_DATA ||
                    (e->is_range && (r.t_off != e->to[0].off || r.t_len != e->to[0].len || r.t_type != SCPI_TOKEN_DECIMAL_NUMERIC_PROGRAM_DATA)))
                    VIOL(K_num_extent, "%s(\"(%s)\", index %d): from token offset %ld len %ld type %d, to token offset %ld len %ld; entry \"%s\"", fn_names[mode], vh_esc(c->body, (size_t) c->len), idx, r.f_off, r.f_len, r.f_type, r.t_off, r.t_len, vh_esc(c->body + e->off, (size_t) e->len));
            } else if (mode == M_INT) {
                if (e->from[0].int_ok) { CNT(num_int_cmp); if (i_f != e->from[0].ival) VIOL(K_num_int, "%s(\"(%s)\", index %d): from=%d, entry \"%s\"", fn_names[mode], vh_esc(c->body, (size_t) c->len), idx, (int) i_f, vh_esc(c->body + e->off, (size_t) e->len)); }
                else CNT(num_int_skip);
                if (e->is_range) {
                    if (e->to[0].int_ok) { CNT(num_int_cmp); if (i_t != e->to[0].ival) VIOL(K_num_int, "%s(\"(%s)\", index %d): to=%d, entry \"%s\"", fn_names[mode], vh_esc(c->body, (size_t) c->len), idx, (int) i_t, vh_esc(c->body + e->off, (size_t) e->len)); }
                    else CNT(num_int_skip);
                } else { if ((uint32_t) i_t == 0xA5A5A5A5u) CNT(num_to_untouched); else CNT(num_to_touched); }
            } else {
                double xf = ref_dbl(c->body + e->from[0].off, e->from[0].len);
                CNT(num_dbl_cmp);
                if (!dbl_matches_literal(d_f, c->body + e->from[0].off, e->from[0].len)) VIOL(K_num_dbl, "%s(\"(%s)\", index %d): from=%.17g expected %.17g, entry \"%s\"", fn_names[mode], vh_esc(c->body, (size_t) c->len), idx, d_f, xf, vh_esc(c->body + e->off, (size_t) e->len));
                if (e->is_range) {
                    double xt = ref_dbl(c->body + e->to[0].off, e->to[0].len);
                    CNT(num_dbl_cmp);
                    if (!dbl_matches_literal(d_t, c->body + e->to[0].off, e->to[0].len)) VIOL(K_num_dbl, "%s(\"(%s)\", index %d): to=%.17g expected %.17g, entry \"%s\"", fn_names[mode], vh_esc(c->body, (size_t) c->len), idx, d_t, xt, vh_esc(c->body + e->off, (size_t) e->len));
                } else { double a5; memset(&a5, 0xA5, sizeof a5); if (dbl_same(d_t, a5)) CNT(num_to_untouched); else CNT(num_to_touched); }
            }
        } else {
            if (res != SCPI_EXPR_NO_MORE) { VIOL(K_num_nomore, "%s(\"(%s)\", index %d) = %s, the list is well formed and has only %d entries", fn_names[mode], vh_esc(c->body, (size_t) c->len), idx, res_name(res), rl->npieces); return; }
            if (er.ncb || er.q) { VIOL(K_num_nomore_err, "%s(\"(%s)\", index %d) = NO_MORE but %d error(s) queued", fn_names[mode], vh_esc(c->body, (size_t) c->len), idx, er.q); return; }
            CNT(num_no_more);
        }
        return;
    }
    /* ---- anything else ---- */
    if (rl->cls == R_LENIENT) CNT(num_lenient_calls);
    if (res == SCPI_EXPR_OK) {
        if (idx < rl->first_bad) { if (rl->cls == R_BAD) CNT(num_bad_ok_prefix); }
        else {
            int k = classify_bad_ok(c, 0, idx, &r);
            VIOL(k, "%s(\"(%s)\", index %d) = OK (isRange=%d) although entries 0..%d are not all well formed and delimited by ',' or the end (first malformed piece: %d)", fn_names[mode], vh_esc(c->body, (size_t) c->len), idx, r.is_range, idx, rl->first_bad);
        }
    } else if (rl->cls == R_BAD) {
        if (res == SCPI_EXPR_ERROR) { if (er.q170) CNT(num_bad_error_170); else CNT(num_bad_error_other); }
        else if (idx < rl->first_bad) CNT(num_bad_no_more_before_bad); else CNT(num_bad_no_more);
    }
}

/* ---- channel list function ---------------------------------------------------------------------------------- */
#define GUARDW 8
static void check_channel(cx_t * c, int idx, int cap, int null_arrays) {
    const rlist_t * rl = &c->chan;
    const rent_t * e = (rl->present && idx < rl->npieces && idx < MAXE) ? &rl->e[idx] : NULL;
    scpi_t * ctx = c->v->ctx;
    scpi_bool_t is_range = e ? !e->is_range : (idx & 1) != 0;
    size_t dims; int res, k, touched = 0; errs_t er; report_t r;
    int32_t * vf, * vt;
#if VH_ASAN
    int32_t * hf = NULL, * ht = NULL;
    if (cap == 0 && null_arrays) { vf = vt = NULL; }
    else {
        hf = (int32_t *) malloc((size_t) cap * sizeof(int32_t)); ht = (int32_t *) malloc((size_t) cap * sizeof(int32_t)); /* exact size: one cell too far traps */
        if (cap) { memset(hf, 0xA5, (size_t) cap * sizeof(int32_t)); memset(ht, 0xA5, (size_t) cap * sizeof(int32_t)); }
        vf = hf; vt = ht;
    }
#else
    int32_t af[GUARDW + NCAP + GUARDW], at[GUARDW + NCAP + GUARDW];
    memset(af, 0xA5, sizeof af); memset(at, 0xA5, sizeof at);
    if (cap == 0 && null_arrays) { vf = vt = NULL; } else { vf = af + GUARDW; vt = at + GUARDW; }
#endif
    if (cap == 0) { if (null_arrays) CNT(ch_cap0_null); else CNT(ch_cap0_cell); }
    memset(&dims, 0xA5, sizeof dims);
    res = (int) SCPI_ExprChannelListEntry(ctx, &c->param, idx, &is_range, vf, vt, (size_t) cap, &dims);
    vh_eval(1);
    take_errs(c->v, &er);
    memset(&r, 0, sizeof r);
    r.mode = M_CHANNEL; r.is_range = is_range ? 1 : 0; r.dims = dims; r.cap = cap;
    for (k = 0; k < cap; k++) { r.i_f[k] = vf[k]; r.i_t[k] = vt[k]; if ((uint32_t) vf[k] != 0xA5A5A5A5u || (uint32_t) vt[k] != 0xA5A5A5A5u) touched = 1; }
#if !VH_ASAN
    for (k = 0; k < GUARDW + NCAP + GUARDW; k++) {
        if (k >= GUARDW && k < GUARDW + cap) continue;
        if ((uint32_t) af[k] != 0xA5A5A5A5u || (uint32_t) at[k] != 0xA5A5A5A5u) {
            VIOL(K_ch_beyond_cap, "SCPI_ExprChannelListEntry(\"(%s)\", index %d, capacity %d) = %s stored into cell %d of the %s array", vh_esc(c->body, (size_t) c->len), idx, cap, res_name(res), k - GUARDW, (uint32_t) af[k] != 0xA5A5A5A5u ? "from" : "to");
            break;
        }
    }
#endif
    if (res != SCPI_EXPR_OK && res != SCPI_EXPR_ERROR && res != SCPI_EXPR_NO_MORE) { VIOL(K_bad_result, "SCPI_ExprChannelListEntry(\"(%s)\", index %d) returned %d", vh_esc(c->body, (size_t) c->len), idx, res); goto out; }
    if (res == SCPI_EXPR_OK && (er.ncb || er.q)) CNT(ok_with_error);
    if (res != SCPI_EXPR_OK && touched) CNT(ch_nonok_touched);

    if (rl->cls == R_STRICT) { /* ---- well-formed channel list ---- */
        if (e) {
            int m = e->ndim < cap ? e->ndim : cap;
            if (res != SCPI_EXPR_OK) { VIOL(K_ch_not_ok, "SCPI_ExprChannelListEntry(\"(%s)\", index %d, capacity %d) = %s, the list is well formed and has %d entries", vh_esc(c->body, (size_t) c->len), idx, cap, res_name(res), rl->npieces); goto out; }
            CNT(ch_ok); if (e->is_range) CNT(ch_ok_range); if (e->ndim > 1) CNT(ch_ok_multidim);
            if (cap < e->ndim) CNT(ch_cap_lt); else if (cap > e->ndim) CNT(ch_cap_gt);
            if (r.is_range != e->is_range) { VIOL(K_ch_isrange, "SCPI_ExprChannelListEntry(\"(%s)\", index %d, capacity %d): isRange=%d, entry \"%s\"", vh_esc(c->body, (size_t) c->len), idx, cap, r.is_range, vh_esc(c->body + e->off, (size_t) e->len)); goto out; }
            if (dims != (size_t) e->ndim) { VIOL(K_ch_dims, "SCPI_ExprChannelListEntry(\"(%s)\", index %d, capacity %d): dimensions=%zu, entry \"%s\" has %d", vh_esc(c->body, (size_t) c->len), idx, cap, dims, vh_esc(c->body + e->off, (size_t) e->len), e->ndim); goto out; }
            for (k = 0; k < m && k < MAXD; k++) {
                if (e->from[k].int_ok) { CNT(ch_val_cmp); if (vf[k] != e->from[k].ival) { VIOL(K_ch_values, "SCPI_ExprChannelListEntry(\"(%s)\", index %d, capacity %d): from[%d]=%d, entry \"%s\"", vh_esc(c->body, (size_t) c->len), idx, cap, k, (int) vf[k], vh_esc(c->body + e->off, (size_t) e->len)); goto out; } }
                else CNT(ch_val_skip);
                if (e->is_range) {
                    if (e->to[k].int_ok) { CNT(ch_val_cmp); if (vt[k] != e->to[k].ival) { VIOL(K_ch_values, "SCPI_ExprChannelListEntry(\"(%s)\", index %d, capacity %d): to[%d]=%d, entry \"%s\"", vh_esc(c->body, (size_t) c->len), idx, cap, k, (int) vt[k], vh_esc(c->body + e->off, (size_t) e->len)); goto out; } }
                    else CNT(ch_val_skip);
                }
            }
            for (k = m; k < cap; k++) /* cells within the announced capacity but behind the entry's dimensions are the caller's scratch space as far as the statement goes ("never stored beyond the dimension capacity"): counted, not judged */
                if ((uint32_t) vf[k] != 0xA5A5A5A5u || (e->is_range && (uint32_t) vt[k] != 0xA5A5A5A5u)) { CNT(ch_spare_touched); break; }
            if (!e->is_range) for (k = 0; k < cap; k++) if ((uint32_t) vt[k] != 0xA5A5A5A5u) { CNT(ch_to_touched); break; }
        } else {
            if (res != SCPI_EXPR_NO_MORE) { VIOL(K_ch_nomore, "SCPI_ExprChannelListEntry(\"(%s)\", index %d, capacity %d) = %s, the list is well formed and has only %d entries", vh_esc(c->body, (size_t) c->len), idx, cap, res_name(res), rl->npieces); goto out; }
            if (er.ncb || er.q) { VIOL(K_ch_nomore_err, "SCPI_ExprChannelListEntry(\"(%s)\", index %d, capacity %d) = NO_MORE but %d error(s) queued", vh_esc(c->body, (size_t) c->len), idx, cap, er.q); goto out; }
            CNT(ch_no_more);
        }
        goto out;
    }
    if (rl->cls == R_LENIENT) { /* numbers that are no plain integers: nothing demanded, OK only inside the list */
        CNT(ch_lenient_calls);
        if (res == SCPI_EXPR_OK && idx >= rl->npieces) VIOL(K_ch_beyond, "SCPI_ExprChannelListEntry(\"(%s)\", index %d) = OK, the list has only %d entries", vh_esc(c->body, (size_t) c->len), idx, rl->npieces);
        goto out;
    }
    /* ---- malformed channel list ---- */
    if (res == SCPI_EXPR_OK) {
        if (rl->present && idx < rl->first_bad) CNT(ch_bad_ok_prefix);
        else {
            k = classify_bad_ok(c, 1, idx, &r);
            VIOL(k, "SCPI_ExprChannelListEntry(\"(%s)\", index %d, capacity %d) = OK (isRange=%d dimensions=%zu) although entries 0..%d are not all well formed and delimited by ',' or the end (first malformed piece: %d)", vh_esc(c->body, (size_t) c->len), idx, cap, r.is_range, dims, idx, rl->first_bad);
        }
    } else if (res == SCPI_EXPR_NO_MORE) {
        VIOL(K_ch_bad_nomore, "SCPI_ExprChannelListEntry(\"(%s)\", index %d, capacity %d) = NO_MORE for a malformed channel list (ERROR with -170 expected)", vh_esc(c->body, (size_t) c->len), idx, cap);
    } else {
        if (!er.q170) VIOL(K_ch_bad_no170, "SCPI_ExprChannelListEntry(\"(%s)\", index %d, capacity %d) = ERROR for a malformed channel list but -170 is not in the queue (%d queued, %d callbacks)", vh_esc(c->body, (size_t) c->len), idx, cap, er.q, er.ncb);
        else if (!rl->present) CNT(ch_noat_error_170);
        else if (idx < rl->first_bad) CNT(ch_bad_error_prefix);
        else CNT(ch_bad_error_170);
    }
out:
#if VH_ASAN
    free(hf); free(ht);
#endif
    return;
}

/* every function x index 0..9 (x capacity 0..4) on one body */
static int check_body(const char * body, int len) {
    cx_t c; int idx, cap, mode;
    c.v = get_ctx(); c.body = body; c.len = len;
    c.expr = (char *) malloc((size_t) len + 2); /* exact size */
    c.expr[0] = '('; memcpy(c.expr + 1, body, (size_t) len); c.expr[len + 1] = ')';
    c.param.type = SCPI_TOKEN_PROGRAM_EXPRESSION; c.param.ptr = c.expr; c.param.len = len + 2;
    ref_list(body, len, 0, &c.num);
    ref_list(body, len, 1, &c.chan);
    if (c.num.cls == R_STRICT) CNT(lists_numeric_wellformed); else if (c.num.cls == R_LENIENT) CNT(lists_numeric_lenient); else CNT(lists_numeric_malformed);
    if (c.chan.cls == R_STRICT) CNT(lists_channel_wellformed); else if (c.chan.cls == R_LENIENT) CNT(lists_channel_lenient); else CNT(lists_channel_malformed);
    for (idx = 0; idx < NIDX; idx++) {
        for (mode = M_TOKEN; mode <= M_DOUBLE; mode++) check_numeric(&c, mode, idx);
        for (cap = 0; cap < NCAP; cap++) check_channel(&c, idx, cap, (idx + len) & 1);
    }
    free(c.expr);
    return (c.num.cls == R_STRICT) | ((c.chan.cls == R_STRICT) << 1) | ((c.num.cls != R_STRICT && c.num.first_bad > 0) << 2) | ((c.chan.cls != R_STRICT && c.chan.first_bad > 0) << 3);
}

/* ---- phase 0: every body over the 9-letter alphabet ---------------------------------------------------------- */
static const char alphabet[9] = { '1', '-', '.', ':', ',', '!', '@', ' ', 'a' };
#define BLOCK 243
static int enum_maxlen(int thorough) {
#if VH_ASAN
    return thorough ? 6 : 5; /* the sanitizer flavour runs the share that fits (5.3 M / 48 M calls) */
#else
    return thorough ? 7 : 6;
#endif
}
static uint64_t enum_total(int maxlen) { uint64_t t = 0, p = 1; int l; for (l = 0; l <= maxlen; l++) { t += p; p *= 9; } return t; }
static uint64_t p0_count(int thorough) { return (enum_total(enum_maxlen(thorough)) + BLOCK - 1) / BLOCK; }
static void p0_run(uint64_t idx, vh_rng_t * rng) {
    uint64_t total = enum_total(enum_maxlen(vh_args.thorough)), g = idx * BLOCK, end = g + BLOCK;
    (void) rng;
    if (end > total) end = total;
    vh_case_desc("bodies #%llu..#%llu of the enumeration over {1 - . : , ! @ space a}", (unsigned long long) g, (unsigned long long) end - 1);
    for (; g < end; g++) {
        char body[8]; int len = 0, i, fl; uint64_t r = g, p = 1;
        while (r >= p) { r -= p; p *= 9; len++; }
        for (i = len - 1; i >= 0; i--) { body[i] = alphabet[r % 9]; r /= 9; }
        vh_sub = g;
        fl = check_body(body, len);
        if (fl) vh_distinct(vh_hash(body, (size_t) len, VH_HASH_INIT));
    }
    vh_count("enum.bodies", end - idx * BLOCK);
    flush_counters();
}

/* ---- grammar ------------------------------------------------------------------------------------------------------ */
static void gen_int(vh_rng_t * r, vh_buf_t * b) {
    static const char * const edge[] = { "2147483647", "-2147483648", "2147483646", "-2147483647", "1000000000", "99999999", "65535", "-32768", "0", "-0", "4294967296", "-2147483649", "99999999999" };
    switch (vh_below(r, 10)) {
        case 0: case 1: case 2: vh_buf_printf(b, "%u", vh_below(r, 10)); break;
        case 3: case 4: vh_buf_printf(b, "%u", 10 + vh_below(r, 9990)); break;
        case 5: case 6: vh_buf_printf(b, "-%u", 1 + vh_below(r, 99999)); break;
        case 7: vh_buf_adds(b, edge[vh_below(r, sizeof edge / sizeof edge[0])]); break;
        case 8:
            if (vh_chance(r, 1, 2)) vh_buf_printf(b, "%s%u", vh_chance(r, 1, 2) ? "+" : "00", vh_below(r, 1000));
            else { /* padding zeros are legal and unlimited: tokens longer than any "longest int32 spelling" */
                static const int zs[] = { 40, 54, 55, 56, 60, 62, 63, 64, 65, 66, 70, 120, 127, 128, 250, 255, 256, 300 };
                int z = vh_chance(r, 1, 3) ? zs[vh_below(r, sizeof zs / sizeof zs[0])] : 3 + (int) vh_below(r, 24); if (z >= 40) CNT(gen_long_entry); if (vh_chance(r, 1, 3)) vh_buf_addc(b, vh_chance(r, 1, 2) ? '-' : '+');
                while (z--) vh_buf_addc(b, '0');
                vh_buf_printf(b, "%u", vh_chance(r, 1, 4) ? 2147483647u : vh_below(r, 100000));
            }
            break;
        default: vh_buf_printf(b, "%u", vh_below(r, 1000000000u)); break;
    }
}
static void gen_number(vh_rng_t * r, vh_buf_t * b) { /* 488.2 NRf without white space */
    const char * sg = vh_chance(r, 1, 3) ? "-" : (vh_chance(r, 1, 8) ? "+" : "");
    if (vh_chance(r, 1, 24)) {
        /* one number spelled with more characters than any fixed conversion buffer: long integer, long zero fraction before an exponent */
        static const int ls[] = { 40, 60, 63, 64, 65, 66, 70, 127, 128, 130, 255, 256, 260, 320 };
        int n = ls[vh_below(r, sizeof ls / sizeof ls[0])], i;
        vh_buf_adds(b, sg);
        switch (vh_below(r, 3)) {
            case 0: vh_buf_printf(b, "%u", 1 + vh_below(r, 9)); for (i = 0; i < n; i++) vh_buf_addc(b, '0'); break;                                   /* d * 10^n */
            case 1: vh_buf_printf(b, "%u.", 1 + vh_below(r, 9)); for (i = 0; i < n; i++) vh_buf_addc(b, '0'); vh_buf_printf(b, "e%u", 1 + vh_below(r, 9)); break; /* exponent behind a long fraction */
            default: for (i = 0; i < n; i++) vh_buf_addc(b, '0'); vh_buf_printf(b, "%u.5", vh_below(r, 1000)); break;                               /* padded */
        }
        CNT(gen_long_entry);
        return;
    }
    switch (vh_below(r, 12)) {
        case 0: case 1: case 2: case 3: case 4: gen_int(r, b); break;
        case 5: vh_buf_printf(b, "%s%u.%u", sg, vh_below(r, 1000), vh_below(r, 10000)); break;
        case 6: vh_buf_printf(b, "%s.%u", sg, vh_below(r, 1000)); break;
        case 7: vh_buf_printf(b, "%s%u.", sg, vh_below(r, 1000)); break;
        case 8: vh_buf_printf(b, "%s%u%c%d", sg, vh_below(r, 100), vh_chance(r, 1, 2) ? 'e' : 'E', (int) vh_below(r, 41) - 20); break;
        case 9: vh_buf_printf(b, "%s%u.%u%c%+d", sg, vh_below(r, 100), vh_below(r, 1000), vh_chance(r, 1, 2) ? 'e' : 'E', (int) vh_below(r, 41) - 20); break;
        case 10: vh_buf_printf(b, "%s.%03ue%u", sg, vh_below(r, 1000), vh_below(r, 10)); break;
        default: vh_buf_printf(b, "%s%u.%06u", sg, vh_below(r, 100000), vh_below(r, 1000000)); break;
    }
}
static void gen_numeric_list(vh_rng_t * r, vh_buf_t * b) {
    int n = 1 + (int) vh_below(r, 8), i;
    for (i = 0; i < n; i++) {
        if (i) vh_buf_addc(b, ',');
        gen_number(r, b);
        if (vh_chance(r, 2, 5)) { vh_buf_addc(b, ':'); gen_number(r, b); }
    }
}
static void gen_spec(vh_rng_t * r, vh_buf_t * b, int dims) { int k; for (k = 0; k < dims; k++) { if (k) vh_buf_addc(b, '!'); gen_int(r, b); } }
static void gen_channel_list(vh_rng_t * r, vh_buf_t * b) {
    int n = 1 + (int) vh_below(r, 8), i;
    vh_buf_addc(b, '@');
    for (i = 0; i < n; i++) {
        int dims = vh_chance(r, 1, 3) ? 1 : 1 + (int) vh_below(r, 5);
        if (i) vh_buf_addc(b, ',');
        gen_spec(r, b, dims);
        if (vh_chance(r, 2, 5)) { vh_buf_addc(b, ':'); gen_spec(r, b, dims); }
    }
}

/* ---- phase 1: grammar-generated well-formed lists -------------------------------------------------------------------- */
static uint64_t p1_count(int thorough) {
#if VH_ASAN
    return vh_scaled(thorough ? 200000 : 30000);
#else
    return vh_scaled(thorough ? 1500000 : 150000);
#endif
}
static void p1_run(uint64_t idx, vh_rng_t * rng) {
    vh_buf_t b = { 0 }; int chan = (int) (idx & 1), fl;
    if (chan) gen_channel_list(rng, &b); else gen_numeric_list(rng, &b);
    vh_case_desc("generated %s list (%s)", chan ? "channel" : "numeric", vh_esc(b.p, b.len > 200 ? 200 : b.len));
    fl = check_body(b.p, (int) b.len);
    if (!(fl & (chan ? 2 : 1))) vh_violation("C19:harness-generator-not-wellformed", "generated list (%s) is not well formed for the reference parser", vh_esc(b.p, b.len));
    vh_distinct(vh_hash(b.p, b.len, VH_HASH_INIT));
    if (vh_want_sample()) vh_sample("(%s): %s list, every function at index 0..9%s agreed with the reference", vh_esc(b.p, b.len), chan ? "channel" : "numeric", chan ? " x capacity 0..4" : "");
    vh_count(chan ? "grammar.channel_lists" : "grammar.numeric_lists", 1);
    flush_counters();
    vh_buf_free(&b);
}

/* ---- phase 2: near-miss mutations of generated lists ------------------------------------------------------------------ */
static const char mut_chars[] = "1-.:,!@ aE+09()\t;#\"";
static void mutate(vh_rng_t * r, vh_buf_t * b) {
    size_t pos, i; char ch = mut_chars[vh_below(r, sizeof mut_chars - 1)];
    if (b->len == 0) { vh_buf_addc(b, ch); return; }
    pos = vh_below(r, (uint32_t) b->len);
    switch (vh_below(r, 11)) {
        case 0: case 1: /* insert */
            vh_buf_addc(b, 0); memmove(b->p + pos + 1, b->p + pos, b->len - 1 - pos); b->p[pos] = ch; break;
        case 2: /* delete */
            memmove(b->p + pos, b->p + pos + 1, b->len - pos - 1); b->len--; break;
        case 3: /* replace */
            b->p[pos] = ch; break;
        case 4: /* double a character (",,", "::", "!!", "@@") */
            vh_buf_addc(b, 0); memmove(b->p + pos + 1, b->p + pos, b->len - 1 - pos); break;
        case 5: /* cut the tail */
            b->len = pos; break;
        case 6: /* garbage right after an entry: before a ',' or at the end */
            for (i = pos; i < b->len && b->p[i] != ','; i++) { }
            vh_buf_addc(b, 0); memmove(b->p + i + 1, b->p + i, b->len - 1 - i); b->p[i] = vh_chance(r, 1, 2) ? 'a' : ch; break;
        case 7: /* one more dimension on one side of an entry: before the next ':' or ',' or the end */
            for (i = pos; i < b->len && b->p[i] != ',' && b->p[i] != ':'; i++) { }
            vh_buf_adds(b, "!7"); memmove(b->p + i + 2, b->p + i, b->len - 2 - i); b->p[i] = '!'; b->p[i + 1] = '7'; break;
        case 8: /* drop the end of a range: remove what follows the next ':' up to ',' or the end */
            for (i = pos; i < b->len && b->p[i] != ':'; i++) { }
            if (i < b->len) { size_t j = i + 1; while (j < b->len && b->p[j] != ',') j++; memmove(b->p + i + 1, b->p + j, b->len - j); b->len -= j - (i + 1); }
            else b->len = pos;
            break;
        case 9: /* remove or move the '@' */
            if (b->p[0] == '@') { memmove(b->p, b->p + 1, b->len - 1); b->len--; if (vh_chance(r, 1, 2) && b->len) { pos = vh_below(r, (uint32_t) b->len); vh_buf_addc(b, 0); memmove(b->p + pos + 1, b->p + pos, b->len - 1 - pos); b->p[pos] = '@'; } }
            else { vh_buf_addc(b, 0); memmove(b->p + 1, b->p, b->len - 1); b->p[0] = '@'; }
            break;
        default: /* white space next to a delimiter */
            for (i = pos; i < b->len && b->p[i] != ',' && b->p[i] != ':' && b->p[i] != '!'; i++) { }
            if (i >= b->len) i = b->len - 1;
            if (vh_chance(r, 1, 2) && i + 1 <= b->len) i++;
            vh_buf_addc(b, 0); memmove(b->p + i + 1, b->p + i, b->len - 1 - i); b->p[i] = ' '; break;
    }
}
static uint64_t p2_count(int thorough) {
#if VH_ASAN
    return vh_scaled(thorough ? 200000 : 30000);
#else
    return vh_scaled(thorough ? 2500000 : 250000);
#endif
}
static void p2_run(uint64_t idx, vh_rng_t * rng) {
    vh_buf_t b = { 0 }; int chan = (int) (idx & 1), fl, n;
    if (chan) gen_channel_list(rng, &b); else gen_numeric_list(rng, &b);
    if (vh_chance(rng, 1, 3)) { /* short lists: the mutation hits the queried entries more often */
        vh_buf_reset(&b);
        if (chan) { int d = 1 + (int) vh_below(rng, 3); vh_buf_addc(&b, '@'); gen_spec(rng, &b, d); if (vh_chance(rng, 1, 2)) { vh_buf_addc(&b, ':'); gen_spec(rng, &b, d); } if (vh_chance(rng, 1, 2)) { vh_buf_addc(&b, ','); gen_spec(rng, &b, 1); } }
        else { gen_number(rng, &b); if (vh_chance(rng, 1, 2)) { vh_buf_addc(&b, ':'); gen_number(rng, &b); } if (vh_chance(rng, 1, 2)) { vh_buf_addc(&b, ','); gen_number(rng, &b); } }
    }
    for (n = 1 + (int) vh_below(rng, 2); n > 0; n--) mutate(rng, &b);
    vh_case_desc("mutated %s list (%s)", chan ? "channel" : "numeric", vh_esc(b.p ? b.p : "", b.len > 200 ? 200 : b.len));
    if (!b.p) vh_buf_cstr(&b);
    fl = check_body(b.p, (int) b.len);
    if (fl & (chan ? 2 : 1)) CNT(mut_still_wellformed); else CNT(mut_malformed);
    vh_distinct(vh_hash(b.p, b.len, 77));
    if (vh_want_sample() && !(fl & 3)) vh_sample("(%s): mutated %s list, malformed for the reference; OK only for the well-formed prefix, channel function ERROR/-170 elsewhere", vh_esc(b.p, b.len), chan ? "channel" : "numeric");
    vh_count("mutate.cases", 1);
    flush_counters();
    vh_buf_free(&b);
}

/* ---- phase 3: a command with TWO list parameters: the handler fetches both, then decodes them entry by entry in lockstep (a routing
 * command "connect (@sources),(@destinations)"). Each list must decode exactly as it does alone. --------------------------------------- */
#define P3E 6
typedef struct { int res; int is_range; int32_t f[4], t[4]; size_t dims; double df, dt; } p3obs_t;
static struct { int chan, mode_double; p3obs_t o[2][P3E]; int called; } P3;
static scpi_result_t p3_handler(scpi_t * c) {
    scpi_parameter_t pa[2]; int i, k;
    P3.called++;
    if (!SCPI_Parameter(c, &pa[0], TRUE) || !SCPI_Parameter(c, &pa[1], TRUE)) return SCPI_RES_ERR;
    for (i = 0; i < P3E; i++) for (k = 0; k < 2; k++) {
        p3obs_t * o = &P3.o[k][i]; scpi_bool_t rg = FALSE;
        memset(o, 0, sizeof *o);
        if (P3.chan) o->res = (int) SCPI_ExprChannelListEntry(c, &pa[k], i, &rg, o->f, o->t, 4, &o->dims);
        else if (P3.mode_double) o->res = (int) SCPI_ExprNumericListEntryDouble(c, &pa[k], i, &rg, &o->df, &o->dt);
        else o->res = (int) SCPI_ExprNumericListEntryInt(c, &pa[k], i, &rg, &o->f[0], &o->t[0]);
        o->is_range = rg ? 1 : 0;
    }
    return SCPI_RES_OK;
}
static const scpi_command_t p3_cmds[] = { { "ROUTe:PATH", p3_handler, 0 }, SCPI_CMD_LIST_END };
static uint64_t p3_count(int thorough) { return vh_scaled(thorough ? 200000 : 20000); }
static void p3_run(uint64_t idx, vh_rng_t * rng) {
    vh_buf_t a = { 0 }, b = { 0 }, m = { 0 }; rlist_t rl[2]; vh_ctx_t * v; int k, i;
    P3.chan = (int) (idx & 1); P3.mode_double = (int) ((idx >> 1) & 1); P3.called = 0;
    if (P3.chan) { gen_channel_list(rng, &a); gen_channel_list(rng, &b); } else { gen_numeric_list(rng, &a); gen_numeric_list(rng, &b); }
    ref_list(a.p, (int) a.len, P3.chan, &rl[0]); ref_list(b.p, (int) b.len, P3.chan, &rl[1]);
    vh_buf_adds(&m, "ROUT:PATH ("); vh_buf_add(&m, a.p, a.len); vh_buf_adds(&m, "),("); vh_buf_add(&m, b.p, b.len); vh_buf_adds(&m, ")\n");
    vh_case_desc("two %s lists in one command, decoded in lockstep: %s", P3.chan ? "channel" : "numeric", vh_esc(m.p, m.len > 200 ? 200 : m.len));
    v = vh_ctx_new(p3_cmds, m.len + 8, 8, 256); v->log_enabled = 0;
    vh_deliver(v, m.p, m.len, 1, (int) ((idx >> 2) % 3));
    vh_eval(2 * P3E);
    if (P3.called != 1) vh_violation("C19:two-lists-harness", "handler called %d times for %s", P3.called, vh_esc(m.p, m.len));
    else for (k = 0; k < 2; k++) for (i = 0; i < P3E; i++) {
        const p3obs_t * o = &P3.o[k][i]; const rent_t * e = i < rl[k].npieces && i < MAXE ? &rl[k].e[i] : NULL; const char * body = k ? b.p : a.p; int bad = 0, d;
        if (rl[k].cls != R_STRICT) continue; /* generated lists are well formed; lenient ones (white space) are not asserted here */
        if (e) {
            if (o->res != SCPI_EXPR_OK || o->is_range != e->is_range) bad = 1;
            else if (P3.chan) { if (o->dims != (size_t) e->ndim) bad = 1; for (d = 0; !bad && d < e->ndim && d < 4; d++) { if (e->from[d].int_ok && o->f[d] != e->from[d].ival) bad = 1; if (e->is_range && e->to[d].int_ok && o->t[d] != e->to[d].ival) bad = 1; } }
            else if (P3.mode_double) { if (!dbl_matches_literal(o->df, body + e->from[0].off, e->from[0].len) || (e->is_range && !dbl_matches_literal(o->dt, body + e->to[0].off, e->to[0].len))) bad = 1; }
            else { if ((e->from[0].int_ok && o->f[0] != e->from[0].ival) || (e->is_range && e->to[0].int_ok && o->t[0] != e->to[0].ival)) bad = 1; }
        } else if (i >= rl[k].npieces && o->res != SCPI_EXPR_NO_MORE) bad = 1;
        if (bad) { vh_violation("C19:list-decoded-differently-next-to-another-list", "command %s: list %d entry %d -> result %d isRange %d first value %ld / %g (each list alone decodes as written)", vh_esc(m.p, m.len), k + 1, i, o->res, o->is_range, (long) o->f[0], o->df); break; }
        vh_count("twolists.entries_compared", 1);
    }
    vh_distinct(vh_hash(m.p, m.len, 19));
    vh_ctx_free(v); vh_buf_free(&a); vh_buf_free(&b); vh_buf_free(&m);
    flush_counters();
}

int main(int argc, char ** argv) {
    static const vh_phase_t phases[] = {
        { "enumerate", p0_count, p0_run },
        { "grammar", p1_count, p1_run },
        { "mutate", p2_count, p2_run },
        { "two lists in one command", p3_count, p3_run },
    };
    vh_require("generated.entries_spelled_with_40_to_320_characters"); vh_require("twolists.entries_compared");
    vh_require("numeric.wellformed.ok");
    vh_require("numeric.wellformed.ok_range");
    vh_require("numeric.wellformed.no_more_nothing_queued");
    vh_require("numeric.int_value_compared");
    vh_require("numeric.double_value_compared");
    vh_require("numeric.malformed.ok_for_wellformed_prefix");
    vh_require("channel.wellformed.ok");
    vh_require("channel.wellformed.ok_range");
    vh_require("channel.wellformed.ok_multidim");
    vh_require("channel.wellformed.no_more_nothing_queued");
    vh_require("channel.wellformed.ok_capacity_lt_dimensions");
    vh_require("channel.wellformed.ok_capacity_gt_dimensions");
    vh_require("channel.values_compared");
    vh_require("channel.malformed.error_with_170");
    vh_require("channel.malformed.ok_for_wellformed_prefix");
    vh_require("channel.no_at.error_with_170");
    return vh_main(argc, argv, "C19", phases, 4);
}
