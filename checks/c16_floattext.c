/* C16 - floating-point text keeps the promised number of significant digits.
 *
 * printf build (default configuration): the text of SCPI_DoubleToStr / SCPI_FloatToStr / SCPI_ResultDouble /
 * SCPI_ResultFloat must be exactly the value correctly rounded to 15 / 6 significant digits, laid out by the %g rule.
 * dtostre (SCPI_dtostre is linked in every configuration; with -DUSE_CUSTOM_DTOSTRE=1 the helpers use it too): for every
 * precision 1..15 the text must be a decimal number that lies within ONE unit of the p-th significant digit of the
 * correctly rounded p-digit decimal and must not have lost digits.
 *
 * In-process oracle: correctly rounded digits from glibc (snprintf "%.*e"), own %g layout rule, exact integer distance
 * computation (128-bit).  A stratified sample of (value bits, site, precision, text) is streamed to <out>.records and
 * decided again by py/c16_decimal.py with integer arithmetic only, so glibc is not trusted for the sampled part. */
#include "vh_scpi.h"
#include <stdio.h>
#include <stdlib.h>
#include <string.h>
#include <strings.h>
#include <math.h>
#include <float.h>

typedef unsigned __int128 u128;
static u128 P10[39];

/* known finding dtostre-ecvt-accuracy: at precision 15 only, 2..ACC_MAX_UNITS units of the 15th digit.  Measured on the tree with the trimming
 * repaired: 82 M precision-15 texts of a thorough run -> 2 units 1.9e5, 3 units 3.5e3, 4 units 29; 3e8 values aimed at |exponent| > 280 and
 * subnormals -> 4 units ~700, 5 units 5, never 6; no text of precision 1..14 was ever 2 units off (7.6e8 texts).  6 leaves two orders of margin. */
#define ACC_MAX_UNITS 6
#define ACC_PRECISION 15

enum { M_PRINTF = 0, M_DTOSTRE = 1 };
enum { S_DOUBLE, S_FLOAT, S_DTOSTRE, S_RDOUBLE, S_RFLOAT, S__N };
static const char * const site_name[S__N] = { "SCPI_DoubleToStr", "SCPI_FloatToStr", "SCPI_dtostre", "SCPI_ResultDouble", "SCPI_ResultFloat" };
static const char * const site_tag[S__N] = { "double", "float", "dtostre", "result-double", "result-float" };

/* ---- cheap local counters (flushed to vh_count once per case) ---------------------------------------- */
enum {
    K_CLS_RANDOM, K_CLS_POW10, K_CLS_POW10_NEIGH, K_CLS_CARRY_NINES, K_CLS_ZERO_DIGIT, K_CLS_BOUNDARY_D, K_CLS_BOUNDARY_F, K_CLS_TIE,
    K_CLS_SUBNORMAL, K_CLS_ZERO, K_CLS_SMALL_INT, K_CLS_SWITCH, K_CLS_SHORT_DECIMAL, K_CLS_FLOAT_BITS, K_CLS_EVERYDAY, K_CLS_BIG_INT, K_CLS_POW2,
    K_VAL_NONFINITE, K_VAL_NEGATIVE, K_VAL_SUBNORMAL, K_VAL_FLOAT_CHECKED, K_VALUES,
    K_PF_MATCH, K_PF_FIXED, K_PF_EXPONENT, K_PF_EXACT_TIE, K_PF_TIE_OTHER, K_PF_SLOW, K_PF_DOUBLE, K_PF_FLOAT, K_PF_RESULT,
    K_DT_CALLS, K_DT_EXACT, K_DT_ONE_UNIT, K_DT_ONE_UNIT_SHORTER, K_DT_UNTRIMMED, K_DT_MORE_DIGITS, K_DT_FIXED, K_DT_EXPONENT, K_DT_ZERO_TEXT,
    K_DT_SITE_DOUBLE, K_DT_SITE_FLOAT, K_DT_SITE_RESULT, K_DT_FLAGS_SAME, K_DT_FLAGS_DIFF, K_DT_SHAPE_G, K_DT_SHAPE_NOT_G, K_DT_EXP_ONE_DIGIT,
    K_DIST0, K_DIST1, K_DIST2, K_DIST3, K_DIST4, K_DIST5, K_DIST6, K_DIST7, K_DIST8, K_DIST9, K_DIST10PLUS,
    K_ACC_P01, K_ACC_P15 = K_ACC_P01 + 14, K_ACC_SITE_HELPER, K_ACC_EXP_LT20, K_ACC_EXP_LT50, K_ACC_EXP_LT100, K_ACC_EXP_LT200, K_ACC_EXP_GE200, K_ACC_PREFIX_SHAPE,
    K_CALLS_P01, K_CALLS_P15 = K_CALLS_P01 + 14,
    K_SP_NAN, K_SP_NEG_NAN, K_SP_INF, K_SP_NEG_INF, K_SP_OTHER,
    K_RECORDS, K_RESULT_CALLS, K__N
};
static const char * const kname[K__N] = {
    "class.random_bits", "class.pow10", "class.pow10_neighbour", "class.carry_nines", "class.zero_digit", "class.boundary_double", "class.boundary_float", "class.exact_tie",
    "class.subnormal", "class.zero", "class.small_int", "class.switch_points", "class.short_decimal", "class.float_bits", "class.everyday_range", "class.big_int", "class.pow2_and_integer_type_limits",
    "value.nonfinite", "value.negative", "value.subnormal", "value.float_checked", "values",
    "printf.match_fast", "printf.fixed_notation", "printf.exponent_notation", "printf.exact_tie", "printf.tie_other_neighbour", "printf.slow_path", "printf.double", "printf.float", "printf.result",
    "dtostre.calls", "dtostre.equal_to_rounded", "dtostre.one_unit_off", "dtostre.one_unit_off_and_shorter", "dtostre.untrimmed_trailing_zero", "dtostre.more_digits_than_precision", "dtostre.fixed_notation", "dtostre.exponent_notation", "dtostre.zero_text_for_nonzero",
    "dtostre.via_DoubleToStr", "dtostre.via_FloatToStr", "dtostre.via_Result", "dtostre.flags_same_after_normalising", "dtostre.flags_differ", "dtostre.shape_is_g_layout_of_own_digits", "dtostre.shape_differs_from_g_layout", "dtostre.exponent_fewer_than_two_digits",
    "dist.0", "dist.1", "dist.2", "dist.3", "dist.4", "dist.5", "dist.6", "dist.7", "dist.8", "dist.9", "dist.10plus",
    "acc.p01", "acc.p02", "acc.p03", "acc.p04", "acc.p05", "acc.p06", "acc.p07", "acc.p08", "acc.p09", "acc.p10", "acc.p11", "acc.p12", "acc.p13", "acc.p14", "acc.p15",
    "acc.via_helper", "acc.absexp_000_019", "acc.absexp_020_049", "acc.absexp_050_099", "acc.absexp_100_199", "acc.absexp_200_plus", "acc.text_is_prefix_of_rounded",
    "calls.p01", "calls.p02", "calls.p03", "calls.p04", "calls.p05", "calls.p06", "calls.p07", "calls.p08", "calls.p09", "calls.p10", "calls.p11", "calls.p12", "calls.p13", "calls.p14", "calls.p15",
    "spelling.nan", "spelling.neg_nan", "spelling.inf", "spelling.neg_inf", "spelling.other",
    "records.written", "result.calls"
};
static uint64_t kval[K__N];
#define CNT(k) (kval[k]++)
static void flush_counts(void) {
    int i;
    for (i = 0; i < K__N; i++) if (kval[i]) { vh_count(kname[i], kval[i]); kval[i] = 0; }
}

/* ---- helpers ------------------------------------------------------------------------------------------ */
static uint64_t bits_of(double d) { uint64_t u; memcpy(&u, &d, 8); return u; }
static double from_bits(uint64_t u) { double d; memcpy(&d, &u, 8); return d; }
static float fl_from_bits(uint32_t u) { float f; memcpy(&f, &u, 4); return f; }
static int is_dig(int c) { return c >= '0' && c <= '9'; }

static int g_phase; static uint64_t g_idx;

/* ---- records for the offline exact checker --------------------------------------------------------------- */
static FILE * recf; static int rec_failed;
static void rec_write(int mode, int site, int p, double v, const char * text) {
    const unsigned char * t;
    if (!recf) {
        char path[1200];
        if (rec_failed || !vh_args.out_path) return;
        snprintf(path, sizeof path, "%s.records", vh_args.out_path);
        recf = fopen(path, "w");
        if (!recf) { rec_failed = 1; return; }
    }
    fprintf(recf, "%d %llu %llu %016llx %c:%s %d ", g_phase, (unsigned long long) g_idx, (unsigned long long) vh_sub, (unsigned long long) bits_of(v),
            mode == M_DTOSTRE ? 'd' : 'p', site_tag[site], p);
    for (t = (const unsigned char *) text; *t; t++) {
        if (*t > 0x20 && *t < 0x7f && *t != '\\') fputc(*t, recf); else fprintf(recf, "\\x%02X", *t);
    }
    fputc('\n', recf);
    CNT(K_RECORDS);
}

/* ---- parsed decimal text --------------------------------------------------------------------------------- */
typedef struct {
    int neg, nd, nsig, X, e;     /* nd: mantissa digits without leading zeros; nsig: also without trailing zeros; X: exponent of first significant digit */
    u128 m;                      /* value = m * 10^e (m has nd digits) */
    int has_point, has_exp, exp_digits, exp_sign, frac_trailing_zero;
    char sig[48];                /* the nd digits */
} num_t;

/* returns 1 ok, 0 syntax error, -1 too long to decide */
static int parse_num(const char * t, num_t * n) {
    char all[48]; int na = 0, intd = 0, fracd = 0, lead = 0, i; long ex = 0;
    const char * s = t;
    memset(n, 0, sizeof *n);
    if (*s == '-') { n->neg = 1; s++; }
    while (is_dig(*s)) { if (na >= 44) return -1; all[na++] = *s++; intd++; }
    if (!intd) return 0;
    if (*s == '.') {
        s++; n->has_point = 1;
        while (is_dig(*s)) { if (na >= 44) return -1; all[na++] = *s++; fracd++; }
        if (!fracd) return 0;
        if (all[na - 1] == '0') n->frac_trailing_zero = 1;
    }
    if (*s == 'e' || *s == 'E') {
        int xneg = 0;
        s++; n->has_exp = 1;
        if (*s == '+' || *s == '-') { n->exp_sign = *s; xneg = *s == '-'; s++; }
        while (is_dig(*s)) { if (n->exp_digits >= 6) return 0; ex = ex * 10 + (*s - '0'); s++; n->exp_digits++; }
        if (!n->exp_digits) return 0;
        if (xneg) ex = -ex;
    }
    if (*s) return 0;
    while (lead < na && all[lead] == '0') lead++;
    n->nd = na - lead;
    if (n->nd > 36) return -1;
    n->m = 0;
    for (i = lead; i < na; i++) { n->m = n->m * 10 + (u128) (all[i] - '0'); n->sig[i - lead] = all[i]; }
    n->sig[n->nd] = 0;
    n->e = (int) ex - fracd;
    n->X = n->e + n->nd - 1;
    n->nsig = n->nd;
    while (n->nsig > 0 && n->sig[n->nsig - 1] == '0') n->nsig--;
    return 1;
}

/* ---- reference: value correctly rounded to p significant digits (glibc, round-half-even on the exact value) ---- */
typedef struct { int p, X, nstrip; uint64_t m; char dig[20]; } ref_t;
typedef struct { double v, av; int neg; ref_t r[17]; uint32_t have; int tie_class; } valref_t;

static void ref_make(double av, int p, ref_t * r) {
    char b[48]; int i, k = 0; const char * s;
    snprintf(b, sizeof b, "%.*e", p - 1, av);
    s = b;
    r->p = p; r->m = 0;
    r->dig[k++] = *s++;
    if (*s == '.') s++;
    while (is_dig(*s) && k < 18) r->dig[k++] = *s++;
    r->dig[k] = 0;
    if (k != p || *s != 'e') { fprintf(stderr, "C16 harness: unexpected reference text '%s'\n", b); abort(); }
    r->X = atoi(s + 1);
    for (i = 0; i < p; i++) r->m = r->m * 10 + (uint64_t) (r->dig[i] - '0');
    r->nstrip = p;
    while (r->nstrip > 1 && r->dig[r->nstrip - 1] == '0') r->nstrip--;
}
static const ref_t * ref_get(valref_t * vr, int p) {
    if (!(vr->have & (1u << p))) { ref_make(vr->av, p, &vr->r[p]); vr->have |= 1u << p; }
    return &vr->r[p];
}
static void valref_init(valref_t * vr, double v) { vr->v = v; vr->av = fabs(v); vr->neg = signbit(v) ? 1 : 0; vr->have = 0; vr->tie_class = 0; }

/* distance |T - R| in units of the p-th digit of R, rounded up; 0 = equal; 1000 = far / undecidable */
static unsigned dist_units(const num_t * T, const ref_t * R) {
    int Re = R->X - R->p + 1, de = T->e - Re;
    u128 a, b, unit, diff, q;
    if (de >= 0) {
        if (de > 37 - T->nd) return 1000;
        a = T->m * P10[de]; b = R->m; unit = 1;
    } else {
        int k = -de;
        if (k > 21) return 1000;
        a = T->m; b = (u128) R->m * P10[k]; unit = P10[k];
    }
    diff = a > b ? a - b : b - a;
    q = (diff + unit - 1) / unit;
    return q > 999 ? 999 : (unsigned) q;
}

/* ---- own %g layout rule (C standard 7.21.6.1: style e iff X < -4 or X >= P; trailing zeros and bare point removed) ---- */
static void put_exp(char ** o, int X) {
    int ax = X < 0 ? -X : X; char t[8]; int n = 0;
    *(*o)++ = 'e'; *(*o)++ = X < 0 ? '-' : '+';
    do { t[n++] = (char) ('0' + ax % 10); ax /= 10; } while (ax);
    if (n < 2) t[n++] = '0';
    while (n) *(*o)++ = t[--n];
}
static int gfmt(int neg, const char * dig, int P, int X, char * out) {
    int n = P, i, fixed; char * o = out;
    while (n > 1 && dig[n - 1] == '0') n--;
    if (neg) *o++ = '-';
    fixed = !(X < -4 || X >= P);
    if (!fixed) {
        *o++ = dig[0];
        if (n > 1) { *o++ = '.'; memcpy(o, dig + 1, (size_t) n - 1); o += n - 1; }
        put_exp(&o, X);
    } else if (X >= 0) {
        for (i = 0; i <= X; i++) *o++ = i < n ? dig[i] : '0';
        if (n > X + 1) { *o++ = '.'; memcpy(o, dig + X + 1, (size_t) (n - X - 1)); o += n - X - 1; }
    } else {
        *o++ = '0'; *o++ = '.';
        for (i = 0; i < -X - 1; i++) *o++ = '0';
        memcpy(o, dig, (size_t) n); o += n;
    }
    *o = 0;
    return fixed;
}

/* exact decimal expansion of a finite positive double (glibc prints it exactly when asked for enough digits):
 * decides nearest / tie at P digits without trusting glibc's rounding */
typedef struct { int tie; char lo[20], hi[20]; int Xlo, Xhi; int up; /* nearest is hi */ } exact_t;
static void exact_round(double av, int P, exact_t * e) {
    static char big[900]; char d[800]; int i, k = 0, X, rest_nonzero = 0; const char * s;
    snprintf(big, sizeof big, "%.*e", 780, av);
    s = big;
    d[k++] = *s++;
    if (*s == '.') s++;
    while (is_dig(*s) && k < 790) d[k++] = *s++;
    X = atoi(s + 1);
    memcpy(e->lo, d, (size_t) P); e->lo[P] = 0; e->Xlo = X;
    memcpy(e->hi, d, (size_t) P); e->hi[P] = 0; e->Xhi = X;
    for (i = P - 1; i >= 0; i--) { if (e->hi[i] == '9') e->hi[i] = '0'; else { e->hi[i]++; break; } }
    if (i < 0) { e->hi[0] = '1'; e->Xhi = X + 1; } /* 99..9 + 1 = 100..0 */
    for (i = P + 1; i < k; i++) if (d[i] != '0') rest_nonzero = 1;
    e->tie = d[P] == '5' && !rest_nonzero;
    e->up = d[P] > '5' || (d[P] == '5' && rest_nonzero);
}

/* ---- oracle: non-finite values --------------------------------------------------------------------------- */
static void check_nonfinite(int mode, int site, double v, int p, const char * text) {
    (void) mode;
    if (isnan(v)) {
        if (!strcasestr(text, "nan")) vh_violation("C16:nan-spelling", "%s(NaN bits 0x%016llx, precision %d) -> \"%s\": does not spell NaN", site_name[site], (unsigned long long) bits_of(v), p, vh_esc(text, strlen(text)));
        if (!strcmp(text, "nan")) CNT(K_SP_NAN); else if (!strcmp(text, "-nan")) CNT(K_SP_NEG_NAN); else CNT(K_SP_OTHER);
    } else {
        const char * t = text; int neg = 0;
        if (*t == '-') { neg = 1; t++; }
        if (strcasecmp(t, "inf") != 0 && strcasecmp(t, "infinity") != 0) {
            if (!strcasestr(text, "inf")) vh_violation("C16:inf-spelling", "%s(%sinfinity, precision %d) -> \"%s\": does not spell infinity", site_name[site], v < 0 ? "-" : "+", p, vh_esc(text, strlen(text)));
        }
        if (neg != (v < 0)) vh_violation("C16:inf-sign", "%s(%sinfinity, precision %d) -> \"%s\": sign wrong", site_name[site], v < 0 ? "-" : "+", p, vh_esc(text, strlen(text)));
        if (!strcmp(text, "inf")) CNT(K_SP_INF); else if (!strcmp(text, "-inf")) CNT(K_SP_NEG_INF); else CNT(K_SP_OTHER);
    }
}

static const char * keyf(char * buf, size_t n, const char * a, int site, const char * b) { snprintf(buf, n, "C16:%s-%s-%s", a, site_tag[site], b); return buf; }

/* ---- oracle: printf build, exact ---------------------------------------------------------------------------- */
static void check_printf_text(valref_t * vr, int site, int P, const char * text) {
    char want[64], want2[64], key[96]; int fixed;
    if (vr->av == 0) {
        if (strcmp(text, vr->neg ? "-0" : "0") != 0) vh_violation(keyf(key, sizeof key, "printf", site, "zero"), "%s(%s0.0) -> \"%s\"", site_name[site], vr->neg ? "-" : "", vh_esc(text, strlen(text)));
        else CNT(K_PF_MATCH);
        return;
    }
    if (!vr->tie_class) {
        const ref_t * R = ref_get(vr, P);
        fixed = gfmt(vr->neg, R->dig, P, R->X, want);
        if (!strcmp(text, want)) { CNT(K_PF_MATCH); if (fixed) CNT(K_PF_FIXED); else CNT(K_PF_EXPONENT); return; }
    }
    /* slow path: decide from the exact expansion; at an exact tie both neighbours are correct roundings */
    {
        exact_t e; num_t T; int pr;
        CNT(K_PF_SLOW);
        exact_round(vr->av, P, &e);
        if (e.tie) CNT(K_PF_EXACT_TIE);
        gfmt(vr->neg, e.up ? e.hi : e.lo, P, e.up ? e.Xhi : e.Xlo, want);
        gfmt(vr->neg, e.up ? e.lo : e.hi, P, e.up ? e.Xlo : e.Xhi, want2);
        if (e.tie) {
            /* half-even is what printf does; the other neighbour is equally a correct rounding of a tie */
            int last_lo_even = ((e.lo[P - 1] - '0') & 1) == 0;
            const char * even = last_lo_even ? want : want2; /* e.up is 0 at a tie: want = lo, want2 = hi */
            if (!strcmp(text, want) || !strcmp(text, want2)) { if (strcmp(text, even) != 0) CNT(K_PF_TIE_OTHER); return; }
        } else if (!strcmp(text, want)) return;
        pr = parse_num(text, &T);
        if (pr <= 0) { vh_violation(keyf(key, sizeof key, "printf", site, "syntax"), "%s(bits 0x%016llx = %.17g) -> \"%s\": not a decimal number; expected \"%s\"", site_name[site], (unsigned long long) bits_of(vr->v), vr->v, vh_esc(text, strlen(text)), want); return; }
        {
            ref_t R; int i; const char * dg = e.up ? e.hi : e.lo;
            R.p = P; R.X = e.up ? e.Xhi : e.Xlo; R.m = 0; for (i = 0; i < P; i++) R.m = R.m * 10 + (uint64_t) (dg[i] - '0');
            if (T.neg == vr->neg && T.m != 0 && dist_units(&T, &R) == 0)
                vh_violation(keyf(key, sizeof key, "printf", site, "layout"), "%s(bits 0x%016llx = %.17g) -> \"%s\": right value but not the %%g shape \"%s\" (%d significant digits)", site_name[site], (unsigned long long) bits_of(vr->v), vr->v, vh_esc(text, strlen(text)), want, P);
            else
                vh_violation(keyf(key, sizeof key, "printf", site, "digits"), "%s(bits 0x%016llx = %.17g) -> \"%s\": is not the value rounded to %d significant digits, expected \"%s\"%s%s%s", site_name[site], (unsigned long long) bits_of(vr->v), vr->v, vh_esc(text, strlen(text)), P, want, e.tie ? " or \"" : "", e.tie ? want2 : "", e.tie ? "\" (exact tie)" : "");
        }
    }
}

static const char * reftxt(const ref_t * R) {
    static char b[4][40]; static int k; char * o = b[k++ & 3];
    if (R->p > 1) snprintf(o, 40, "%c.%se%d", R->dig[0], R->dig + 1, R->X); else snprintf(o, 40, "%ce%d", R->dig[0], R->X);
    return o;
}

/* ---- oracle: dtostre, one-unit tolerance -------------------------------------------------------------------- */
static void check_dtostre_text(valref_t * vr, int site, int p, const char * text) {
    num_t T; int pr; unsigned d; const ref_t * R;
    CNT(K_DT_CALLS);
    pr = parse_num(text, &T);
    if (pr <= 0) {
        vh_violation("C16:dtostre-syntax", "%s(bits 0x%016llx = %.17g, precision %d) -> \"%s\": not a 488.2 decimal numeric (digits[.digits][e[+-]digits])", site_name[site], (unsigned long long) bits_of(vr->v), vr->v, p, vh_esc(text, strlen(text)));
        return;
    }
    if (T.has_exp) CNT(K_DT_EXPONENT); else CNT(K_DT_FIXED);
    if (vr->av == 0) {
        if (T.m != 0) vh_violation("C16:dtostre-zero", "%s(%s0.0, precision %d) -> \"%s\": does not denote zero", site_name[site], vr->neg ? "-" : "", p, vh_esc(text, strlen(text)));
        else CNT(K_DT_EXACT);
        return;
    }
    R = ref_get(vr, p);
    if (T.m == 0) {
        CNT(K_DT_ZERO_TEXT);
        vh_violation("C16:dtostre-trim-drops-digits", "%s(bits 0x%016llx = %.17g, precision %d) -> \"%s\": no significant digit left (correctly rounded: %s)", site_name[site], (unsigned long long) bits_of(vr->v), vr->v, p, vh_esc(text, strlen(text)), reftxt(R));
        return;
    }
    if (T.neg != vr->neg) {
        vh_violation("C16:dtostre-sign", "%s(bits 0x%016llx = %.17g, precision %d) -> \"%s\": sign differs from the value", site_name[site], (unsigned long long) bits_of(vr->v), vr->v, p, vh_esc(text, strlen(text)));
        return;
    }
    d = dist_units(&T, R);
    if (d >= 2) { /* rare: at an exact tie the other neighbour is an equally correct rounding - measure against the nearer one */
        exact_t e;
        exact_round(vr->av, p, &e);
        if (e.tie) {
            static ref_t alt; int other_is_hi = e.Xlo == R->X && memcmp(e.lo, R->dig, (size_t) p) == 0, i; unsigned d2;
            const char * dg = other_is_hi ? e.hi : e.lo;
            alt.p = p; alt.X = other_is_hi ? e.Xhi : e.Xlo; alt.m = 0;
            memcpy(alt.dig, dg, (size_t) p + 1);
            for (i = 0; i < p; i++) alt.m = alt.m * 10 + (uint64_t) (dg[i] - '0');
            alt.nstrip = p; while (alt.nstrip > 1 && alt.dig[alt.nstrip - 1] == '0') alt.nstrip--;
            d2 = dist_units(&T, &alt);
            if (d2 < d) { d = d2; R = &alt; }
        }
    }
    kval[d >= 10 ? K_DIST10PLUS : K_DIST0 + (int) d]++;
    if (T.nd > p) CNT(K_DT_MORE_DIGITS);
    if (T.has_exp && T.exp_digits < 2) CNT(K_DT_EXP_ONE_DIGIT);
    if (T.nd <= p) { /* layout is not part of the property for this formatter: observe whether it is the %g layout of its own digits */
        char pad[24], g[64]; int i;
        for (i = 0; i < p; i++) pad[i] = i < T.nd ? T.sig[i] : '0';
        pad[p] = 0;
        gfmt(T.neg, pad, p, T.X, g);
        if (!strcmp(g, text)) CNT(K_DT_SHAPE_G); else CNT(K_DT_SHAPE_NOT_G);
    }
    if (T.frac_trailing_zero) CNT(K_DT_UNTRIMMED);
    if (d == 0) { CNT(K_DT_EXACT); return; }
    if (d == 1) { CNT(K_DT_ONE_UNIT); if (T.nsig < R->nstrip) CNT(K_DT_ONE_UNIT_SHORTER); return; }
    {
        /* prefix: the text is the correctly rounded decimal cut short.  For 2..3 units this shape is also what a digit generator
         * that is 2..3 units low produces when its digits end in zeros, so there the input shape decides the label: the cut-short
         * class lives in fixed notation with leading zeros (0.0ddd), the accuracy class far away from it (|exponent| > 15) */
        int prefix = T.X == R->X && T.nsig < R->nstrip && memcmp(T.sig, R->dig, (size_t) T.nsig) == 0;
        int leadzero = !T.has_exp && text[vr->neg] == '0' && text[vr->neg + 1] == '.';
        if (p == ACC_PRECISION && d <= ACC_MAX_UNITS && !(prefix && leadzero)) {
            kval[K_ACC_P01 + p - 1] += site == S_DTOSTRE;
            if (site != S_DTOSTRE) CNT(K_ACC_SITE_HELPER);
            if (site == S_DTOSTRE) { int ax = abs(R->X); kval[ax < 20 ? K_ACC_EXP_LT20 : ax < 50 ? K_ACC_EXP_LT50 : ax < 100 ? K_ACC_EXP_LT100 : ax < 200 ? K_ACC_EXP_LT200 : K_ACC_EXP_GE200]++; }
            if (prefix) CNT(K_ACC_PREFIX_SHAPE);
            vh_violation("C16:dtostre-ecvt-accuracy", "%s(bits 0x%016llx = %.17g, precision %d) -> \"%s\": well formed but %u units of digit %d away from the correctly rounded %s", site_name[site], (unsigned long long) bits_of(vr->v), vr->v, p, vh_esc(text, strlen(text)), d, p, reftxt(R));
        } else if (prefix) {
            vh_violation("C16:dtostre-trim-drops-digits", "%s(bits 0x%016llx = %.17g, precision %d) -> \"%s\": the significant digits stop after %d of the %d digits of the correctly rounded %s although the dropped ones are not zeros", site_name[site], (unsigned long long) bits_of(vr->v), vr->v, p, vh_esc(text, strlen(text)), T.nsig, R->nstrip, reftxt(R));
        } else {
            vh_violation("C16:dtostre-value-far", "%s(bits 0x%016llx = %.17g, precision %d) -> \"%s\": %s%u units of digit %d away from the correctly rounded %s", site_name[site], (unsigned long long) bits_of(vr->v), vr->v, p, vh_esc(text, strlen(text)), d >= 999 ? "more than " : "", d, p, reftxt(R));
        }
    }
}

static void check_text(valref_t * vr, int mode, int site, int p, const char * text, int record) {
    vh_eval(1);
    if (record) rec_write(mode, site, p, vr->v, text);
    if (!isfinite(vr->v)) { check_nonfinite(mode, site, vr->v, p, text); return; }
    if (mode == M_PRINTF) check_printf_text(vr, site, p, text); else check_dtostre_text(vr, site, p, text);
}

/* ---- output buffers: >= 40 bytes (too-small buffers belong to C15) ---------------------------------------- */
typedef struct { char * p; size_t len; } obuf_t;
#if VH_ASAN
static void obuf_get(obuf_t * b, vh_rng_t * rng) { b->len = 40 + vh_below(rng, 25); b->p = (char *) malloc(b->len); memset(b->p, 0xA5, b->len); }
static void obuf_put(obuf_t * b) { free(b->p); }
#else
static char obuf_area[64];
static void obuf_get(obuf_t * b, vh_rng_t * rng) { b->len = 40 + vh_below(rng, 25); b->p = obuf_area; memset(obuf_area, 0xA5, sizeof obuf_area); }
static void obuf_put(obuf_t * b) { (void) b; }
#endif

/* ---- result path through a real context ------------------------------------------------------------------- */
static double g_rd; static float g_rf;
/* the last values that went through a context, re-emitted as one ASCII array: every item of an array is the text of that value */
#define RING 6
static double g_ring[RING]; static int g_nring;
static scpi_result_t h_val(scpi_t * context) {
    SCPI_ResultDouble(context, g_rd);
    SCPI_ResultFloat(context, g_rf);
    if (g_nring) SCPI_ResultArrayDouble(context, g_ring, (size_t) g_nring, SCPI_FORMAT_ASCII);
    return SCPI_RES_OK;
}
static const scpi_command_t c16_cmds[] = { { .pattern = "VAL?", .callback = h_val }, SCPI_CMD_LIST_END };
static vh_ctx_t * g_ctx;
static void ctx_done(void) { if (g_ctx) { vh_ctx_free(g_ctx); g_ctx = NULL; } }

#define HELPER_MODE (VH_LIB_DTOSTRE ? M_DTOSTRE : M_PRINTF)

static void check_results(double v, float f, int have_f, int record) {
    const char * out; size_t n; const char * comma; char td[80], tf[80]; valref_t vr; static char scal[200];
    if (!g_ctx) g_ctx = vh_ctx_new(c16_cmds, 32, 4, 64);
    vh_ctx_clear_capture(g_ctx);
    g_rd = v; g_rf = have_f ? f : 1.0f;
    vh_input(g_ctx, "VAL?\n", 5);
    CNT(K_RESULT_CALLS);
    out = vh_buf_cstr(&g_ctx->out); n = g_ctx->out.len;
    if (g_nring) {
        /* split off the array part: it must be the scalar texts of the ring values joined by commas */
        static vh_buf_t want; int i; char t[80]; const char * c1 = n ? memchr(out, ',', n) : NULL, * c2 = c1 ? memchr(c1 + 1, ',', n - (size_t) (c1 + 1 - out)) : NULL;
        vh_buf_reset(&want);
        for (i = 0; i < g_nring; i++) { SCPI_DoubleToStr(g_ring[i], t, sizeof t); if (i) vh_buf_addc(&want, ','); vh_buf_adds(&want, t); }
        vh_buf_adds(&want, "\r\n");
        if (!c2 || (size_t) (out + n - (c2 + 1)) != want.len || memcmp(c2 + 1, want.p, want.len) != 0)
            vh_violation("C16:ascii-array-item-differs-from-the-text-of-the-same-value", "SCPI_ResultArrayDouble(%d items, ASCII) behind two scalar results wrote \"%s\", the items formatted one by one give \"%s\"", g_nring, vh_esc(out, n), vh_esc(want.p, want.len));
        else vh_count("result.ascii_array_items_compared", (uint64_t) g_nring);
        if (c2 && (size_t) (c2 - out) + 3 < sizeof scal) { size_t k = (size_t) (c2 - out); memcpy(scal, out, k); scal[k] = '\r'; scal[k + 1] = '\n'; scal[k + 2] = 0; out = scal; n = k + 2; } /* the scalar part, as if the response had ended there */
    }
    comma = n ? memchr(out, ',', n) : NULL;
    if (!comma || n < 2 || out[n - 2] != '\r' || out[n - 1] != '\n' || g_ctx->nerrs || (size_t) (comma - out) >= sizeof td || n - (size_t) (comma - out) - 3 >= sizeof tf) {
        vh_violation("C16:result-capture-unexpected", "VAL? with SCPI_ResultDouble(%.17g), SCPI_ResultFloat: response \"%s\" (%d errors) is not <text>,<text>CRLF", v, vh_esc(out, n), g_ctx->nerrs);
        return;
    }
    memcpy(td, out, (size_t) (comma - out)); td[comma - out] = 0;
    memcpy(tf, comma + 1, n - (size_t) (comma - out) - 3); tf[n - (size_t) (comma - out) - 3] = 0;
    valref_init(&vr, v);
    check_text(&vr, HELPER_MODE, S_RDOUBLE, 15, td, record);
    if (HELPER_MODE == M_PRINTF) CNT(K_PF_RESULT); else CNT(K_DT_SITE_RESULT);
    if (have_f) { valref_init(&vr, (double) f); check_text(&vr, HELPER_MODE, S_RFLOAT, 6, tf, record); }
    if (isfinite(v)) { if (g_nring < RING) g_ring[g_nring++] = v; else { memmove(g_ring, g_ring + 1, sizeof(double) * (RING - 1)); g_ring[RING - 1] = v; } }
}

/* ---- one value: every site -------------------------------------------------------------------------------- */
static int g_rec_num, g_rec_den = 1;   /* probability that all texts of a value are recorded */
static int g_res_den = 16;             /* one value in g_res_den also goes through a context */

static void check_float(float f, vh_rng_t * rng, int record, int tie_class) {
    obuf_t b; valref_t vr; size_t r;
    valref_init(&vr, (double) f); vr.tie_class = tie_class;
    obuf_get(&b, rng);
    r = SCPI_FloatToStr(f, b.p, b.len);
    (void) r;
    b.p[b.len - 1] = 0;
    check_text(&vr, HELPER_MODE, S_FLOAT, 6, b.p, record);
    if (HELPER_MODE == M_PRINTF) CNT(K_PF_FLOAT); else CNT(K_DT_SITE_FLOAT);
    obuf_put(&b);
    CNT(K_VAL_FLOAT_CHECKED);
}

static void check_value(double v, vh_rng_t * rng, int tie_class, int force_result) {
    valref_t vr; obuf_t b; int p, record, have_f = 0; float f = 0;
    record = g_rec_num && (g_rec_num >= g_rec_den || vh_below(rng, (uint32_t) g_rec_den) < (uint32_t) g_rec_num);
    valref_init(&vr, v); vr.tie_class = tie_class;
    CNT(K_VALUES);
    if (!isfinite(v)) CNT(K_VAL_NONFINITE);
    else { if (vr.neg) CNT(K_VAL_NEGATIVE); if (v != 0 && vr.av < DBL_MIN) CNT(K_VAL_SUBNORMAL); if (v == 0) CNT(K_CLS_ZERO); }

    /* helper: 15 significant digits */
    obuf_get(&b, rng);
    SCPI_DoubleToStr(v, b.p, b.len);
    b.p[b.len - 1] = 0;
    check_text(&vr, HELPER_MODE, S_DOUBLE, 15, b.p, record);
    if (HELPER_MODE == M_PRINTF) CNT(K_PF_DOUBLE); else CNT(K_DT_SITE_DOUBLE);
    obuf_put(&b);

    /* the library's own formatter, every precision */
    vr.tie_class = 0;
    for (p = 1; p <= 15; p++) {
        obuf_get(&b, rng);
        SCPI_dtostre(v, b.p, b.len, (unsigned char) p, 0);
        b.p[b.len - 1] = 0;
        kval[K_CALLS_P01 + p - 1]++;
        check_text(&vr, M_DTOSTRE, S_DTOSTRE, p, b.p, record);
        if (record && p == 15 && vh_want_sample()) vh_sample("SCPI_dtostre(%.17g, precision 15) -> \"%s\"", v, b.p);
        obuf_put(&b);
    }
    /* flags are outside the property: observe only */
    if (vh_below(rng, 64) == 0 && isfinite(v)) {
        char t0[64], t1[64]; char * q = t1; int fl = 1 + (int) vh_below(rng, 7), i;
        p = 1 + (int) vh_below(rng, 15);
        SCPI_dtostre(v, t0, sizeof t0, (unsigned char) p, 0);
        SCPI_dtostre(v, t1, sizeof t1, (unsigned char) p, (unsigned char) fl);
        if (*q == '+' || *q == ' ') q++;
        for (i = 0; q[i]; i++) if (q[i] == 'E') q[i] = 'e';
        if (!strcmp(q, t0)) CNT(K_DT_FLAGS_SAME); else CNT(K_DT_FLAGS_DIFF);
        vh_eval(2);
    }

    /* float helper on the nearest float (6 significant digits of the float's exact value) */
    if (!isfinite(v)) { f = isnan(v) ? (signbit(v) ? -NAN : NAN) : (v < 0 ? -INFINITY : INFINITY); have_f = 1; }
    else if (vr.av <= FLT_MAX) { f = (float) v; have_f = 1; }
    if (have_f) check_float(f, rng, record, tie_class != 0);

    if (force_result || vh_below(rng, (uint32_t) g_res_den) == 0) check_results(v, f, have_f, record);
    if ((bits_of(v) & 7) == 0) vh_distinct(vh_hash_u64(bits_of(v), 16));
}

static void check_float_value(float f, vh_rng_t * rng, int tie_class) {
    /* a float input: the promoted double runs through everything, the float itself through the float helper */
    check_value((double) f, rng, tie_class, 0);
}

/* per-configuration salt: the builds of one run must not all draw the same random values */
static uint64_t g_salt;
static void salt_rng(vh_rng_t * rng) { rng->s[0] ^= g_salt; rng->s[1] += g_salt * 0x9e3779b97f4a7c15ULL; vh_rand(rng); vh_rand(rng); }

static void set_rate(int num_quick, int den_quick, int num_thorough, int den_thorough) {
    g_rec_num = vh_args.thorough ? num_thorough : num_quick; g_rec_den = vh_args.thorough ? den_thorough : den_quick;
#if VH_ASAN
    g_rec_den *= 2;
#endif
}
static void triple(double v, vh_rng_t * rng, int cls) {
    if (!isfinite(v)) return;
    kval[cls] += 3;
    check_value(v, rng, 0, 0);
    check_value(nextafter(v, INFINITY), rng, 0, 0);
    check_value(nextafter(v, -INFINITY), rng, 0, 0);
}
static void triplef(float f, vh_rng_t * rng, int cls) {
    if (!isfinite(f)) return;
    kval[cls] += 3;
    check_float_value(f, rng, 0);
    check_float_value(nextafterf(f, INFINITY), rng, 0);
    check_float_value(nextafterf(f, -INFINITY), rng, 0);
}

/* ---- phase 0: enumerated classes ------------------------------------------------------------------------- */
#define N_POW10 632            /* 1e-323 .. 1e308 */
#define N_ZERODIG (632 * 9)    /* (k, d) */
#define N_SMALLINT 64
#define N_SPECIAL 1
#define N_POW2 263             /* 2^-1074 .. 2^1023 in groups of 8 */
static uint64_t p0_count(int thorough) { (void) thorough; return N_POW10 + N_ZERODIG + N_SMALLINT + N_POW2 + N_SPECIAL; }

static const char * const special_texts[] = {
    "0.1", "0.01", "0.001", "0.0001", "0.00001", "0.000001", "0.2", "0.3", "0.5", "0.7", "1.5", "2.5", "0.125", "0.375", "0.15", "0.25", "0.35",
    "0.00100000000001", "0.0100000000001", "0.100000000001", "0.00012000045", "0.0010203", "0.10000000000001", "0.000100000000000001",
    "9.99769e-272", "1.7976931348623157e308", "2.2250738585072014e-308", "4.9406564584124654e-324", "2.2250738585072009e-308",
    "3.4028234663852886e38", "1.1754943508222875e-38", "1.4012984643248171e-45",
    "0.0001", "0.00009999999999999995", "0.000099999999999999995", "0.0000999999949", "0.00009999995", "0.0000999999951", "0.000099999949", "0.0000999999", "9.9999949e-5",
    "999999999999999", "999999999999999.4", "999999999999999.5", "999999999999999.6", "1000000000000000", "1000000000000001", "999999999999998.9", "99999999999999.95", "1e15", "1e16", "123456789012345678",
    "999999", "999999.4", "999999.5", "999999.6", "999999.44", "999999.56", "1000000", "1000001", "99999.95", "99999.94", "99999.96", "9999995", "9999994", "9999996", "123456.5", "1234565", "1234575", "100000", "100001", "1e6", "1e5", "1e7",
    "1000000000000005", "1000000000000015", "1000000000000025", "100000000000000.5", "100000000000001.5", "8999999999999995", "9007199254740991", "9007199254740992", "9007199254740993",
    "1", "2", "9", "10", "11", "99", "100", "101", "1000", "12345", "100000000000000", "120", "1200", "1.2", "1.02", "1.002", "10.01", "100.001", "100.5", "3.14159265358979323846", "2.718281828459045", "6.02214076e23", "1.602176634e-19", "6.62607015e-34",
    "1e22", "1e23", "8.5e22", "9.5e21", "5e-324", "1e-320", "1e-310", "3e-310", "1e-307", "1e300", "1e-300", "1e100", "1e-100", "1e150", "1e-150", "1e200", "1e-200", "1.5e300", "4.35e-290",
};
#define N_SPECIAL_TEXTS (sizeof special_texts / sizeof special_texts[0])

static void p0_run(uint64_t idx, vh_rng_t * rng) {
    char s[96]; int i;
    g_phase = 0; g_idx = idx; g_res_den = 24;
    salt_rng(rng);
    if (idx < N_POW10) {
        int k = (int) idx - 323, p;
        double v;
        vh_case_desc("power of ten 1e%d: value, neighbours, negatives, nines that carry into it, float versions", k);
        set_rate(1, 100, 1, 8);
        snprintf(s, sizeof s, "1e%d", k);
        v = strtod(s, NULL);
        vh_sub = 1; CNT(K_CLS_POW10); check_value(v, rng, 0, 1);
        vh_sub = 2; CNT(K_CLS_POW10); check_value(-v, rng, 0, 0);
        vh_sub = 3; kval[K_CLS_POW10_NEIGH] += 4;
        check_value(nextafter(v, INFINITY), rng, 0, 0); check_value(nextafter(v, 0), rng, 0, 0);
        check_value(-nextafter(v, INFINITY), rng, 0, 0); check_value(nextafter(nextafter(v, 0), 0), rng, 0, 0);
        for (p = 1; p <= 16; p++) { /* 99..9(p nines)6e(k-p): rounds up into 1e(k) at precision p; ..94 stays below */
            vh_sub = 10 + (uint64_t) p;
            memset(s, '9', (size_t) p); snprintf(s + p, sizeof s - (size_t) p, "6e%d", k - p - 1);
            v = strtod(s, NULL); if (isfinite(v) && v != 0) { CNT(K_CLS_CARRY_NINES); check_value(v, rng, 0, 0); }
            memset(s, '9', (size_t) p); snprintf(s + p, sizeof s - (size_t) p, "4e%d", k - p - 1);
            v = strtod(s, NULL); if (isfinite(v) && v != 0) { CNT(K_CLS_CARRY_NINES); check_value(v, rng, 0, 0); }
        }
        if (k >= -45 && k <= 38) {
            float f;
            snprintf(s, sizeof s, "1e%d", k);
            f = strtof(s, NULL);
            vh_sub = 40; if (isfinite(f)) { CNT(K_CLS_POW10); check_float_value(f, rng, 0); triplef(f, rng, K_CLS_POW10_NEIGH); }
            for (p = 5; p <= 7; p++) {
                memset(s, '9', (size_t) p); snprintf(s + p, sizeof s - (size_t) p, "6e%d", k - p - 1);
                f = strtof(s, NULL); if (isfinite(f) && f != 0) { CNT(K_CLS_CARRY_NINES); check_float_value(f, rng, 0); }
            }
        }
        if (k >= -6 && k <= 17) CNT(K_CLS_SWITCH);
    } else if (idx < N_POW10 + N_ZERODIG) {
        uint64_t j = idx - N_POW10; int k = (int) (j / 9) - 323, d = (int) (j % 9) + 1, z;
        vh_case_desc("zero digits: %d*10^%d + 10^(%d-z), z = 1..17", d, k, k);
        set_rate(1, 500, 1, 50);
        for (z = 1; z <= 17; z++) {
            double v;
            vh_sub = (uint64_t) z;
            snprintf(s, sizeof s, "%d%0*de%d", d, z, 1, k - z); /* d, z-1 zeros, 1 */
            v = strtod(s, NULL);
            if (!isfinite(v) || v == 0) continue;
            CNT(K_CLS_ZERO_DIGIT);
            check_value((z & 3) == 0 ? -v : v, rng, 0, 0);
            if (z <= 7 && k - z >= -44 && k <= 38) { float f = strtof(s, NULL); if (isfinite(f) && f != 0) { CNT(K_CLS_ZERO_DIGIT); check_float_value(f, rng, 0); } }
        }
    } else if (idx < N_POW10 + N_ZERODIG + N_SMALLINT) {
        int base = (int) (idx - N_POW10 - N_ZERODIG) * 64;
        vh_case_desc("small integers %d..%d", base, base + 63);
        set_rate(1, 40, 1, 8);
        for (i = 0; i < 64; i++) {
            vh_sub = (uint64_t) i;
            CNT(K_CLS_SMALL_INT);
            check_value((double) (base + i), rng, 0, 0);
            if ((i & 7) == 0) { CNT(K_CLS_SMALL_INT); check_value(-(double) (base + i), rng, 0, 0); check_value((base + i) + 0.5, rng, 1, 0); CNT(K_CLS_TIE); }
        }
    } else if (idx < N_POW10 + N_ZERODIG + N_SMALLINT + N_POW2) {
        /* powers of two with their neighbours: the images of integer type limits ((double) UINT64_MAX is 2^64, INT64_MAX 2^63, 2^32, 2^31, 2^53 ...),
         * the limits of whatever integer type a digit generator may pass the integer part through */
        int k0 = -1074 + 8 * (int) (idx - N_POW10 - N_ZERODIG - N_SMALLINT), k;
        vh_case_desc("powers of two 2^%d..2^%d: value, neighbours, negatives, float versions", k0, k0 + 7);
        set_rate(1, 200, 1, 20);
        for (k = k0; k < k0 + 8 && k <= 1023; k++) {
            double v = ldexp(1.0, k);
            vh_sub = (uint64_t) (k + 1074);
            triple(v, rng, K_CLS_POW2); triple(-v, rng, K_CLS_POW2);
            if (k >= -149 && k <= 127) { triplef((float) v, rng, K_CLS_POW2); triplef(-(float) v, rng, K_CLS_POW2); }
        }
    } else {
        static const uint64_t special_bits[] = {
            0x0000000000000000ULL, 0x8000000000000000ULL, 0x7ff0000000000000ULL, 0xfff0000000000000ULL, 0x7ff8000000000000ULL, 0xfff8000000000000ULL,
            0x7ff0000000000001ULL, 0xfff7ffffffffffffULL, 0x7fffffffffffffffULL, 0x0000000000000001ULL, 0x8000000000000001ULL, 0x000fffffffffffffULL,
            0x0010000000000000ULL, 0x7fefffffffffffffULL, 0xffefffffffffffffULL, 0x0000000000000002ULL, 0x0008000000000000ULL, 0x3ff0000000000000ULL,
            0x3fefffffffffffffULL, 0x3ff0000000000001ULL, 0x4340000000000000ULL, 0x433fffffffffffffULL, 0x47efffffe0000000ULL, 0x47efffffefffffffULL, 0x36a0000000000000ULL };
        vh_case_desc("special values: zeros, NaNs, infinities, extremes, fixed/exponent switch points, ties");
        set_rate(1, 5, 1, 1);
        for (i = 0; i < (int) (sizeof special_bits / sizeof special_bits[0]); i++) { vh_sub = (uint64_t) i; check_value(from_bits(special_bits[i]), rng, 0, 1); }
        for (i = 0; i < (int) N_SPECIAL_TEXTS; i++) {
            double v = strtod(special_texts[i], NULL); float f = strtof(special_texts[i], NULL);
            vh_sub = 100 + (uint64_t) i;
            CNT(K_CLS_SWITCH);
            check_value(v, rng, 1, 1); check_value(-v, rng, 1, 1);
            check_value(nextafter(v, INFINITY), rng, 0, 0); check_value(nextafter(v, -INFINITY), rng, 0, 0);
            if (isfinite(f)) { check_float_value(f, rng, 1); check_float_value(nextafterf(f, INFINITY), rng, 0); check_float_value(nextafterf(f, -INFINITY), rng, 0); }
        }
    }
    ctx_done();
    flush_counts();
}

/* ---- phase 1: rounding boundaries d.ddd5 and exact ties ------------------------------------------------------ */
static uint64_t p1_count(int thorough) {
#if VH_ASAN
    return vh_scaled(thorough ? 25000 : 500);
#else
    return vh_scaled(thorough ? 200000 : 4000);
#endif
}
static int pick_exp(vh_rng_t * rng, int lo, int hi) {
    if (vh_below(rng, 2)) { int a = -10 < lo ? lo : -10, b = 20 > hi ? hi : 20; return a + (int) vh_below(rng, (uint32_t) (b - a + 1)); }
    return lo + (int) vh_below(rng, (uint32_t) (hi - lo + 1));
}
static void p1_run(uint64_t idx, vh_rng_t * rng) {
    int i, j;
    g_phase = 1; g_idx = idx; g_res_den = 24;
    salt_rng(rng);
    set_rate(1, 400, 1, 800);
    vh_case_desc("8 rounding boundaries (class %d) with both neighbours", (int) (idx % 4));
    for (i = 0; i < 8; i++) {
        char s[64]; int n = 0;
        vh_sub = (uint64_t) i;
        switch (idx % 4) {
            case 0: case 1: { /* double: p digits then 5 */
                int p = 1 + (int) vh_below(rng, 16), k = pick_exp(rng, -330, 310);
                s[n++] = (char) ('1' + vh_below(rng, 9));
                for (j = 1; j < p; j++) s[n++] = (char) ('0' + (vh_below(rng, 4) == 0 ? (vh_below(rng, 2) ? 0 : 9) : vh_below(rng, 10)));
                s[n++] = '5';
                if (vh_below(rng, 4) == 0) { int z = 1 + (int) vh_below(rng, 12); while (z--) s[n++] = '0'; s[n++] = (char) ('1' + vh_below(rng, 2)); }
                snprintf(s + n, sizeof s - (size_t) n, "e%d", k - n);
                triple(strtod(s, NULL), rng, K_CLS_BOUNDARY_D);
                break;
            }
            case 2: { /* float: p digits then 5 */
                int p = vh_below(rng, 2) ? 6 : 1 + (int) vh_below(rng, 8), k = pick_exp(rng, -46, 39);
                s[n++] = (char) ('1' + vh_below(rng, 9));
                for (j = 1; j < p; j++) s[n++] = (char) ('0' + (vh_below(rng, 4) == 0 ? (vh_below(rng, 2) ? 0 : 9) : vh_below(rng, 10)));
                s[n++] = '5';
                snprintf(s + n, sizeof s - (size_t) n, "e%d", k - n);
                triplef(strtof(s, NULL), rng, K_CLS_BOUNDARY_F);
                break;
            }
            default: { /* exactly representable ties */
                double v; uint64_t r = vh_rand(rng);
                switch (vh_below(rng, 6)) {
                    case 0: v = (double) (1000000000000000ULL + 10 * (r % 800719925474099ULL) + 5); break;     /* 16-digit integer ...5 < 2^53 */
                    case 1: v = (double) (100000000000000ULL + r % 900000000000000ULL) + 0.5; break;            /* 15-digit integer + .5 */
                    case 2: v = (double) (2 * (r % 1048576) + 1) / (double) (1ULL << vh_below(rng, 21)); break;     /* short dyadic: ends in 5 */
                    case 3: v = (double) (1000000 + 10 * (r % 1577721) + 5); break;                              /* 7-digit integer ...5 < 2^24: float tie */
                    case 4: v = (double) (100000 + r % 900000) + 0.5; break;                                     /* 6-digit integer + .5: float tie */
                    default: v = ldexp((double) (2 * (r % 512) + 1), -(int) vh_below(rng, 40) - 1); break;        /* odd / 2^k */
                }
                if (vh_below(rng, 4) == 0) v = -v;
                CNT(K_CLS_TIE);
                check_value(v, rng, 1, 0);
                check_value(nextafter(v, INFINITY), rng, 0, 0);
                check_value(nextafter(v, -INFINITY), rng, 0, 0);
                break;
            }
        }
    }
    ctx_done();
    flush_counts();
}

/* ---- phase 2: random values ------------------------------------------------------------------------------------- */
static uint64_t p2_count(int thorough) {
#if VH_ASAN
    return vh_scaled(thorough ? 75000 : 1500);
#else
    return vh_scaled(thorough ? 600000 : 12000);
#endif
}
static void p2_run(uint64_t idx, vh_rng_t * rng) {
    int i, cls = (int) (idx % 8);
    g_phase = 2; g_idx = idx; g_res_den = 32;
    salt_rng(rng);
    set_rate(1, 1600, 1, 2400);
    vh_case_desc("32 random values of class %d", cls);
    for (i = 0; i < 32; i++) {
        uint64_t r = vh_rand(rng);
        vh_sub = (uint64_t) i;
        switch (cls) {
            case 0: case 1: case 2: CNT(K_CLS_RANDOM); check_value(from_bits(r), rng, 0, 0); break;
            case 3: CNT(K_CLS_SUBNORMAL); check_value(from_bits((r & 0x8000000000000000ULL) | ((r & 0x000fffffffffffffULL) >> vh_below(rng, 52))), rng, 0, 0); break;
            case 4: { /* short decimal texts: zeros inside and at the end of the 15 digits */
                char s[64]; int n = 0, nd = 1 + (int) vh_below(rng, 17), j, k = pick_exp(rng, -320, 300);
                s[n++] = (char) ('1' + vh_below(rng, 9));
                for (j = 1; j < nd; j++) s[n++] = (char) ('0' + (vh_below(rng, 3) == 0 ? 0 : vh_below(rng, 10)));
                snprintf(s + n, sizeof s - (size_t) n, "e%d", k - nd + 1);
                CNT(K_CLS_SHORT_DECIMAL);
                check_value(vh_below(rng, 8) ? strtod(s, NULL) : -strtod(s, NULL), rng, 0, 0);
                break;
            }
            case 5: CNT(K_CLS_BIG_INT); check_value((r & 1 ? -1.0 : 1.0) * (double) (r >> (1 + vh_below(rng, 63))), rng, 0, 0); break;
            case 6: CNT(K_CLS_FLOAT_BITS); check_float_value(fl_from_bits((uint32_t) r), rng, 0); break;
            default: { /* everyday magnitudes 2^-40 .. 2^70: where fixed and exponent notation meet */
                uint64_t e = 1023 - 40 + vh_below(rng, 111);
                CNT(K_CLS_EVERYDAY);
                check_value(from_bits((r & 0x800fffffffffffffULL) | (e << 52)), rng, 0, 0);
                break;
            }
        }
    }
    ctx_done();
    flush_counts();
}

int main(int argc, char ** argv) {
    static const vh_phase_t phases[] = {
        { "enumerated", p0_count, p0_run },
        { "boundaries", p1_count, p1_run },
        { "random", p2_count, p2_run },
    };
    int i, rc;
    P10[0] = 1; for (i = 1; i < 39; i++) P10[i] = P10[i - 1] * 10;
    for (i = 0; i < K__N; i++) if (!kname[i]) { fprintf(stderr, "C16 harness: counter %d has no name\n", i); return 2; }
    g_salt = (uint64_t) (VH_LIB_DTOSTRE ? 0x5bd1e995 : 0) + (uint64_t) (VH_ASAN ? 0x27d4eb2f165667c5ULL : 0);
    vh_decoy_enable(3); vh_require("decoy.messages_run_on_a_second_context"); vh_require("class.random_bits"); vh_require("result.ascii_array_items_compared"); vh_require("class.pow2_and_integer_type_limits"); vh_require("class.pow10"); vh_require("class.pow10_neighbour"); vh_require("class.carry_nines");
    vh_require("class.zero_digit"); vh_require("class.boundary_double"); vh_require("class.boundary_float"); vh_require("class.exact_tie");
    vh_require("class.subnormal"); vh_require("value.subnormal"); vh_require("class.zero"); vh_require("value.nonfinite"); vh_require("class.small_int");
    vh_require("dtostre.equal_to_rounded"); vh_require("dtostre.fixed_notation"); vh_require("dtostre.exponent_notation"); vh_require("calls.p01"); vh_require("calls.p15");
    vh_require("value.float_checked"); vh_require("result.calls"); vh_require("records.written");
#if !VH_LIB_DTOSTRE
    vh_require("printf.match_fast"); vh_require("printf.fixed_notation"); vh_require("printf.exponent_notation"); vh_require("printf.exact_tie");
    vh_require("printf.double"); vh_require("printf.float"); vh_require("printf.result");
#else
    vh_require("dtostre.via_DoubleToStr"); vh_require("dtostre.via_FloatToStr"); vh_require("dtostre.via_Result");
#endif
    rc = vh_main(argc, argv, "C16", phases, 3);
    if (recf) fclose(recf);
    return rc;
}
