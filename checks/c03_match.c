/* C03 - a command pattern accepts exactly the headers of its short/long-form language, and reports the
 * numeric suffixes in keyword order with the caller's default for suffixes left out / keywords skipped.
 *
 * Differential runtime monitor: every (pattern, header) pair is decided by kit/ref_match.c (slot expansion +
 * backtracking assignment search, written from the property statement) and by the real library on three paths:
 *   direct   : matchCommand(pattern, hdr, len, numbers, L, -7) for L = 0..k+1 (k = number of '#' keywords) on an
 *              exact-size heap array (guard cells in the -O2 build) pre-filled with a poison value, plus numbers=NULL
 *   match    : public SCPI_Match(pattern, hdr, len), hdr in an exact-size heap buffer without terminator
 *   dispatch : a context whose command table holds only the pattern is fed "HEADER\n" through SCPI_Input; the
 *              handler observes SCPI_CommandNumbers (exact-size array), SCPI_IsCmd on the delivered header and on
 *              the previous header of the enumeration
 * Only patterns satisfying the statement's precondition (ref_pattern_unambiguous) are asserted on; the others are
 * counted.  Header length is always >= 1 (the lexer never produces an empty header). */
#include "vh_scpi.h"
#include "ref_match.h"
#include <stdio.h>
#include <stdlib.h>
#include <string.h>

#define DEF (-7)
#define POISON ((int32_t) 0x5A5A5A5A)
#define HDR_MAX 400
#define MAX_MN 6

/* ---- local counters (flushed to vh_count once per case: vh_count is a linear search) ---------------- */
enum { K_PAIRS, K_ACC, K_REJ, K_DIRECT_CALLS, K_DIRECT_NULL_CALLS, K_MATCH_CALLS, K_DISP_INPUTS, K_DISP_RAN, K_DISP_NOT_RAN,
       K_DISP_RAW_DIFFERS, K_ISCMD_SELF, K_ISCMD_PROBE_T, K_ISCMD_PROBE_F, K_CMDNUM_CALLS,
       K_NUM_TRAIL, K_NUM_INNER, K_NUM_OMIT, K_NUM_DIGITS, K_NUM_TRUNC, K_NUM_LEN0, K_CELL_BEYOND_UNTOUCHED, K_CELL_BEYOND_TOUCHED,
       K_REJ_NUMBERS_TOUCHED, K_PADDED, K_EMPTY_SKIPPED, K_PAT_USED, K_PAT_AMBIG, K_PAT_ASAN_SHARE_SKIP, K_AMBIG_PAIRS, K_AMBIG_DIFF,
       K_ACC_SKIPPED_OPT, K_ACC_ALL_PRESENT, K_ACC_LEADING_COLON, K_ACC_LOWER, K_ACC_QUERY, K_REJ_QUERY_MISMATCH,
       K_COMMON_ACC, K_COMMON_REJ, K_HARV_PAT, K_NUM_LONGPAD, K_DISP_WITH_DATA, K_MATCH_MAXLEN, K__N };
static const char * const knames[K__N] = { "pairs.total", "pairs.accepted", "pairs.rejected", "direct.calls", "direct.calls_numbers_null",
    "match.calls", "dispatch.inputs", "dispatch.handler_ran", "dispatch.no_handler", "dispatch.lexer_delivered_other_header",
    "dispatch.iscmd_own_header", "dispatch.iscmd_probe_true", "dispatch.iscmd_probe_false", "dispatch.commandnumbers_calls",
    "numbers.default_trailing_skipped_keyword", "numbers.default_inner_skipped_keyword", "numbers.default_suffix_omitted",
    "numbers.value_from_digits", "numbers.cells_cut_by_len", "numbers.calls_with_len_zero", "numbers.cells_beyond_k_untouched",
    "numbers.cells_beyond_k_touched", "numbers.rejected_call_touched_cells", "direct.header_padded_for_strtol",
    "headers.empty_skipped", "patterns.used", "patterns.skipped_ambiguous", "patterns.outside_asan_share",
    "ambiguous.pairs_counted_only", "ambiguous.library_differs_from_reference",
    "accepted.with_skipped_optional", "accepted.all_keywords_present", "accepted.leading_colon", "accepted.lower_or_mixed_case",
    "accepted.query", "rejected.query_mismatch", "common.accepted", "common.rejected", "patterns.harvested", "numbers.digit_strings_padded_past_int32_width", "dispatch.inputs_with_program_data_behind_the_header", "match.calls_with_length_of_a_larger_buffer" };
static uint64_t kc[K__N];
static uint64_t evals_local;
static void flush_counters(void) {
    int i;
    for (i = 0; i < K__N; i++) if (kc[i]) { vh_count(knames[i], kc[i]); kc[i] = 0; }
    vh_eval(evals_local); evals_local = 0;
}

/* ---- pattern under test -------------------------------------------------------------------------------- */
typedef struct {
    char text[256];
    ref_pattern_t rp;
    int k; /* number of '#' keywords */
    char o1[REF_MAX_SLOTS][REF_MAX_KEY]; /* per slot: short form of a different keyword */
    char o2[REF_MAX_SLOTS][REF_MAX_KEY]; /* per slot: long form of another different keyword */
    char dig[REF_MAX_SLOTS][2][36];      /* digit strings appended to short / long form */
} pat_t;

static void forms_of(const char * raw, char * sht, char * lng) {
    size_t i, s = 0;
    for (i = 0; raw[i]; i++) lng[i] = (char) (raw[i] >= 'a' && raw[i] <= 'z' ? raw[i] - 32 : raw[i]);
    lng[i] = 0;
    while (raw[s] && !(raw[s] >= 'a' && raw[s] <= 'z')) s++;
    memcpy(sht, lng, s); sht[s] = 0;
}

static void harness_fail(const char * what, const char * a, const char * b) {
    fprintf(stderr, "C03 harness self-check failed: %s [%s] [%s]\n", what, a ? a : "", b ? b : "");
    abort();
}

/* ---- per-case state --------------------------------------------------------------------------------------- */
typedef struct {
    const pat_t * P;
    const char * hdr; size_t len;  /* header fed */
    const char * cls;
    size_t L;                      /* numbers_len used by the handler */
    int ran, raw_same;
    char prev[HDR_MAX]; size_t prevlen; int prev_ref; /* previous header of the enumeration (probe for SCPI_IsCmd) */
} disp_t;
static disp_t D;
static vh_ctx_t * V;
static scpi_command_t cmdtab[2];
static uint64_t pair_no;

static const char * path_names[3] = { "direct", "match", "dispatch" };

static void report_acceptance(int path, const pat_t * P, const char * hdr, size_t len, const char * cls, int ref, int got, const char * detail) {
    char key[160];
    snprintf(key, sizeof key, "C03:%s-false-%s-%s", path_names[path], got ? "accept" : "reject", cls);
    vh_violation(key, "%s: pattern \"%s\" header \"%s\" (len %zu): library %s, reference %s%s%s", path_names[path], P->text, vh_esc(hdr, len), len,
                 got ? "ACCEPTS" : "REJECTS", ref ? "accepts" : "rejects", detail ? " ; " : "", detail ? detail : "");
}

/* compare reported numbers with the reference; got has L cells */
static void check_numbers(const char * path, const pat_t * P, const char * hdr, size_t len, const int32_t * got, size_t L,
                          int k, const int32_t * refnum, const int * state) {
    size_t i;
    if (L == 0) kc[K_NUM_LEN0]++;
    if ((size_t) k > L) kc[K_NUM_TRUNC] += (size_t) k - L;
    for (i = 0; i < L && i < (size_t) k; i++) {
        const char * key;
        switch (state[i]) {
            case REF_SUF_SKIPPED_TRAILING: kc[K_NUM_TRAIL]++; key = "C03:default-missing-for-trailing-skipped-suffix"; break;
            case REF_SUF_SKIPPED_INNER: kc[K_NUM_INNER]++; key = "C03:default-missing-for-inner-skipped-suffix"; break;
            case REF_SUF_OMITTED: kc[K_NUM_OMIT]++; key = "C03:default-missing-for-omitted-suffix"; break;
            default: kc[K_NUM_DIGITS]++; key = "C03:wrong-suffix-value"; break;
        }
        if (got[i] != refnum[i]) {
            vh_violation(key, "%s: pattern \"%s\" header \"%s\" numbers_len %zu default %d: numbers[%zu] = %d%s, expected %d (%s)", path, P->text,
                         vh_esc(hdr, len), L, DEF, i, (int) got[i], got[i] == POISON ? " (cell left untouched)" : "", (int) refnum[i],
                         state[i] == REF_SUF_DIGITS ? "digits written after the keyword" : state[i] == REF_SUF_OMITTED ? "suffix left out: caller's default"
                         : "keyword skipped: caller's default");
        }
    }
    for (; i < L; i++) { if (got[i] == POISON) kc[K_CELL_BEYOND_UNTOUCHED]++; else kc[K_CELL_BEYOND_TOUCHED]++; } /* statement is silent: counted */
}

/* ---- dispatch handler ------------------------------------------------------------------------------------- */
static scpi_result_t c03_handler(scpi_t * context) {
    const pat_t * P = D.P;
    const char * raw = context->param_list.cmd_raw.data;
    size_t rawlen = context->param_list.cmd_raw.length;
    int32_t refnum[REF_MAX_SLOTS]; int state[REF_MAX_SLOTS]; int k = 0, r;
    D.ran++;
    D.raw_same = (rawlen == D.len && memcmp(raw, D.hdr, rawlen) == 0);
    if (!D.raw_same) kc[K_DISP_RAW_DIFFERS]++;
    /* the handler of the only table entry runs: its pattern must accept the header the parser delivered */
    r = ref_match(P->text, raw, rawlen, refnum, REF_MAX_SLOTS, DEF, &k);
    if (!r) {
        report_acceptance(2, P, raw, rawlen, D.raw_same ? D.cls : "lexer-delivered-header", 0, 1, "handler invoked through SCPI_Input");
        return SCPI_RES_OK;
    }
    ref_match_explain(P->text, raw, rawlen, state, REF_MAX_SLOTS, NULL);
    {
        /* SCPI_CommandNumbers on an exact-size array */
        size_t L = D.L, i;
#if VH_ASAN
        int32_t * cells = (int32_t *) malloc(L * sizeof(int32_t)); /* exact size: a write past numbers_len traps */
        for (i = 0; i < L; i++) cells[i] = POISON;
#else
        int32_t * cells = (int32_t *) malloc((L + 1) * sizeof(int32_t)); /* one guard cell */
        for (i = 0; i <= L; i++) cells[i] = POISON;
#endif
        kc[K_CMDNUM_CALLS]++; evals_local++;
        if (!SCPI_CommandNumbers(context, cells, L, DEF))
            vh_violation("C03:commandnumbers-rejects-dispatched-header", "pattern \"%s\" header \"%s\": handler dispatched but SCPI_CommandNumbers(len %zu) returned FALSE", P->text, vh_esc(raw, rawlen), L);
        else check_numbers("dispatch/SCPI_CommandNumbers", P, raw, rawlen, cells, L, k, refnum, state);
#if !VH_ASAN
        if (cells[L] != POISON) vh_violation("C03:numbers-written-past-len", "SCPI_CommandNumbers: pattern \"%s\" header \"%s\" numbers_len %zu: cell [%zu] written", P->text, vh_esc(raw, rawlen), L, L);
#endif
        free(cells);
    }
    {
        /* SCPI_IsCmd takes a NUL-terminated string: exact-size copy with terminator */
        char * z = (char *) malloc(rawlen + 1);
        memcpy(z, raw, rawlen); z[rawlen] = 0;
        kc[K_ISCMD_SELF]++; evals_local++;
        if (!SCPI_IsCmd(context, z)) report_acceptance(2, P, raw, rawlen, D.raw_same ? D.cls : "lexer-delivered-header", 1, 0, "SCPI_IsCmd(own header) inside the handler");
        free(z);
        if (D.prevlen) {
            int g;
            z = (char *) malloc(D.prevlen + 1);
            memcpy(z, D.prev, D.prevlen); z[D.prevlen] = 0;
            evals_local++;
            g = SCPI_IsCmd(context, z) ? 1 : 0;
            if (D.prev_ref) kc[K_ISCMD_PROBE_T]++; else kc[K_ISCMD_PROBE_F]++;
            if (g != D.prev_ref) report_acceptance(2, P, D.prev, D.prevlen, "iscmd-probe", D.prev_ref, g, "SCPI_IsCmd(other header) inside the handler");
            free(z);
        }
    }
    return SCPI_RES_OK;
}

static void case_begin(const pat_t * P) {
    memset(&D, 0, sizeof D);
    D.P = P;
    cmdtab[0].pattern = P->text; cmdtab[0].callback = c03_handler;
#if USE_COMMAND_TAGS
    cmdtab[0].tag = 1;
#endif
    memset(&cmdtab[1], 0, sizeof cmdtab[1]);
    V = vh_ctx_new(cmdtab, HDR_MAX + 8, 4, 128);
    V->log_enabled = 0;
    pair_no = 0;
    vh_watchdog(VH_ASAN ? 20 : 10); /* a case takes well under a second of CPU; a matcher that loops is reported as a hang */
}
static void case_end(void) {
    vh_ctx_free(V); V = NULL;
    flush_counters();
}

/* ---- one (pattern, header) pair on all three paths -------------------------------------------------------- */
static void check_pair(const pat_t * P, const char * hdr, size_t len, const char * cls, unsigned mod) {
    int32_t refnum[REF_MAX_SLOTS]; int state[REF_MAX_SLOTS]; int slot_piece[REF_MAX_SLOTS];
    int k = 0, r, nas = 0, got;
    size_t L, i;
    int lastdigit = hdr[len - 1] >= '0' && hdr[len - 1] <= '9';
    char * hx; /* exact-size copy, no terminator */
    char * hp = NULL; /* copy followed by one in-buffer non-digit byte (see below) */
    vh_sub = pair_no++;
    kc[K_PAIRS]++;
    for (i = 0; i < REF_MAX_SLOTS; i++) { refnum[i] = 0x7EADBEEF; state[i] = -1; }
    r = ref_match(P->text, hdr, len, refnum, REF_MAX_SLOTS, DEF, &k);
    if (k != P->k) harness_fail("suffix count", P->text, NULL);
    if (r) {
        nas = ref_match_explain(P->text, hdr, len, state, REF_MAX_SLOTS, slot_piece);
        if (nas != 1) harness_fail("unambiguous pattern has a header with several accepting assignments", P->text, hdr);
        kc[K_ACC]++;
        if (P->rp.common) kc[K_COMMON_ACC]++;
        else {
            int skipped = 0, j;
            for (j = 0; j < P->rp.n; j++) if (slot_piece[j] < 0) skipped = 1;
            kc[skipped ? K_ACC_SKIPPED_OPT : K_ACC_ALL_PRESENT]++;
            if (hdr[0] == ':') kc[K_ACC_LEADING_COLON]++;
            if (mod & 3u) kc[K_ACC_LOWER]++;
            if (P->rp.query) kc[K_ACC_QUERY]++;
        }
        if (!vh_args.thorough || (pair_no & 15) == 0) vh_distinct(vh_hash(hdr, len, vh_hash(P->text, strlen(P->text), VH_HASH_INIT)));
    } else {
        kc[K_REJ]++;
        if (P->rp.common) kc[K_COMMON_REJ]++;
        if ((hdr[len - 1] == '?') != (P->rp.query != 0)) kc[K_REJ_QUERY_MISMATCH]++;
    }

#if VH_ASAN
    hx = (char *) malloc(len); memcpy(hx, hdr, len);
#else
    {
        static char area[16 + HDR_MAX + 16];
        memset(area, 0xA5, 16); memcpy(area + 16, hdr, len); memset(area + 16 + len, 0xA5, 16);
        hx = area + 16;
    }
#endif
    /* matchCommand converts a suffix with strtol when it is given a numbers cell, and strtol looks at the byte after
     * the last digit.  In the parser that byte is always inside the input buffer (a header is followed by white
     * space, ';' or the terminator).  A header that ends in a digit is therefore handed over followed by one '\n'
     * inside the allocation whenever a numbers array with at least one cell is passed; all other calls get the
     * exact-size buffer. */
    if (lastdigit) {
#if VH_ASAN
        hp = (char *) malloc(len + 1); memcpy(hp, hdr, len); hp[len] = '\n';
#else
        static char area2[HDR_MAX + 16];
        memcpy(area2, hdr, len); area2[len] = '\n'; hp = area2;
#endif
    }

    /* path 1: matchCommand called directly */
    for (L = 0; L <= (size_t) k + 1; L++) {
        int32_t * cells;
        const char * h = (L > 0 && hp) ? hp : hx;
#if VH_ASAN
        cells = (int32_t *) malloc(L * sizeof(int32_t));
        for (i = 0; i < L; i++) cells[i] = POISON;
#else
        int32_t area3[4 + REF_MAX_SLOTS + 2 + 4];
        for (i = 0; i < sizeof area3 / sizeof area3[0]; i++) area3[i] = POISON;
        cells = area3 + 4;
#endif
        if (h == hp) kc[K_PADDED]++;
        kc[K_DIRECT_CALLS]++; evals_local++;
        got = matchCommand(P->text, h, len, cells, L, DEF) ? 1 : 0;
        if (got != r) { char d[64]; snprintf(d, sizeof d, "matchCommand with numbers_len %zu", L); report_acceptance(0, P, hdr, len, cls, r, got, d); }
        else if (r) check_numbers("direct/matchCommand", P, hdr, len, cells, L, k, refnum, state);
        else { for (i = 0; i < L; i++) if (cells[i] != POISON) { kc[K_REJ_NUMBERS_TOUCHED]++; break; } } /* silent in the statement: counted */
#if VH_ASAN
        free(cells);
#else
        for (i = 0; i < 4; i++) if (area3[i] != POISON) { vh_violation("C03:numbers-written-before-array", "matchCommand: pattern \"%s\" header \"%s\" numbers_len %zu wrote before the array", P->text, vh_esc(hdr, len), L); break; }
        for (i = 4 + L; i < sizeof area3 / sizeof area3[0]; i++) if (area3[i] != POISON) { vh_violation("C03:numbers-written-past-len", "matchCommand: pattern \"%s\" header \"%s\" numbers_len %zu: cell [%zu] written", P->text, vh_esc(hdr, len), L, i - 4); break; }
#endif
    }
    /* numbers == NULL with a non-zero length: nothing may be written anywhere (would fault) */
    kc[K_DIRECT_NULL_CALLS]++; evals_local++;
    got = matchCommand(P->text, hx, len, NULL, (size_t) k + 1, DEF) ? 1 : 0;
    if (got != r) report_acceptance(0, P, hdr, len, cls, r, got, "matchCommand with numbers NULL");

    /* path 2: public SCPI_Match */
    kc[K_MATCH_CALLS]++; evals_local++;
    got = SCPI_Match(P->text, hx, len) ? 1 : 0;
    if (got != r) report_acceptance(1, P, hdr, len, cls, r, got, NULL);

    /* path 2b: the length argument of SCPI_Match is a MAXIMUM: a terminated header in a larger buffer, length = size of the buffer */
    {
        size_t pad = 1 + (size_t) (pair_no % 7), tot = len + 1 + pad; char * hz = (char *) malloc(tot);
        memcpy(hz, hdr, len); hz[len] = 0; memset(hz + len + 1, (pair_no & 1) ? '1' : 'A', pad);
        kc[K_MATCH_CALLS]++; kc[K_MATCH_MAXLEN]++; evals_local++;
        got = SCPI_Match(P->text, hz, tot) ? 1 : 0;
        if (got != r) report_acceptance(1, P, hdr, len, cls, r, got, "SCPI_Match with the length of the enclosing buffer (header NUL-terminated inside it)");
        free(hz);
    }

    /* path 3: real dispatch */
    {
        /* what follows the header in the input buffer is program data, not part of the header: the suffixes reported for the header must not
         * depend on it (data that continues the digits of the last suffix in some number syntax: exponent, fraction, more digits after a blank) */
        static const char * const tails[] = { "", "", " E5", " e12", "\tE5", " 1", " .5", " 5E3", " E", " 0", " 7,8", " #H1F" };
        const char * tail = tails[(pair_no + (pair_no >> 4)) % (sizeof tails / sizeof tails[0])];
        size_t tl = strlen(tail);
        char line[HDR_MAX + 16];
        memcpy(line, hdr, len); memcpy(line + len, tail, tl); line[len + tl] = '\n';
        if (tl) kc[K_DISP_WITH_DATA]++;
        D.hdr = hdr; D.len = len; D.cls = cls; D.ran = 0; D.raw_same = 0;
        D.L = (size_t) ((pair_no + (pair_no >> 3)) % (uint64_t) (k + 2));
        kc[K_DISP_INPUTS]++; evals_local++;
        { int how = (int) ((pair_no + (pair_no >> 5)) % 7u); how = how == 5 ? 1 : how == 6 ? 2 : 0; /* the line ends with its terminator, with a flush call, or with a flush call after travelling behind an empty line */
          vh_deliver(V, line, len + tl + 1, 1, how); if (how) vh_count(how == 1 ? "dispatch.header_line_ended_by_flush" : "dispatch.header_line_behind_an_empty_line_then_flush", 1); }
        if (D.ran) kc[K_DISP_RAN]++; else kc[K_DISP_NOT_RAN]++;
        if (r && !(D.ran && D.raw_same)) report_acceptance(2, P, hdr, len, cls, 1, 0, D.ran ? "handler ran for a different header text" : "no handler invoked through SCPI_Input");
        if (D.ran > 1) vh_violation("C03:dispatch-handler-ran-twice", "pattern \"%s\" input \"%s\\n\": handler invoked %d times", P->text, vh_esc(hdr, len), D.ran);
        SCPI_ErrorClear(V->ctx);
        vh_ctx_clear_capture(V);
        memcpy(D.prev, hdr, len); D.prevlen = len; D.prev_ref = r;
    }
    if (vh_want_sample()) {
        vh_buf_t b = { 0, 0, 0 };
        for (i = 0; i < (size_t) k; i++) vh_buf_printf(&b, "%s%d", i ? "," : "", (int) refnum[i]);
        vh_sample("pattern \"%s\" header \"%s\" [%s] -> %s%s%s on direct/match/dispatch, agreed with reference", P->text, vh_esc(hdr, len), cls, r ? "accepted" : "rejected",
                  r && k ? " numbers " : "", r && k ? vh_buf_cstr(&b) : "");
        vh_buf_free(&b);
    }
#if VH_ASAN
    free(hx); free(hp);
#endif
}

/* ---- header assembly ----------------------------------------------------------------------------------------- */
/* modifier index: casemode*4 + colon*2 + qflip ; casemode 0 upper, 1 lower, 2 mixed */
#define MODS_FULL 0x1FFu /* upper+lower x colon x qflip, plus mixed case plain */
static void emit(const pat_t * P, const char * const * mn, int m, const char * cls, unsigned mods, int ambiguous_only_count) {
    unsigned b;
    for (b = 0; b < 12; b++) {
        char h[HDR_MAX]; size_t n = 0; int i, cm = (int) (b >> 2), colon = (int) ((b >> 1) & 1), qflip = (int) (b & 1);
        int q = (P->rp.query ? 1 : 0) ^ qflip, alt = 0;
        size_t need = 2;
        if (!(mods & (1u << b))) continue;
        for (i = 0; i < m; i++) need += strlen(mn[i]) + 1;
        if (need >= HDR_MAX) harness_fail("header too long", P->text, NULL);
        if (colon) h[n++] = ':';
        for (i = 0; i < m; i++) {
            const char * s = mn[i];
            if (i) h[n++] = ':';
            for (; *s; s++) {
                char c = *s;
                if (c >= 'A' && c <= 'Z') { if (cm == 1 || (cm == 2 && (alt++ & 1) == 0)) c = (char) (c + 32); }
                h[n++] = c;
            }
        }
        if (q) h[n++] = '?';
        if (n == 0) { kc[K_EMPTY_SKIPPED]++; continue; } /* outside the domain */
        if (ambiguous_only_count) {
            int r = ref_match(P->text, h, n, NULL, 0, DEF, NULL);
            char * hx = (char *) malloc(n); int g;
            memcpy(hx, h, n);
            g = SCPI_Match(P->text, hx, n) ? 1 : 0; evals_local++;
            free(hx);
            kc[K_AMBIG_PAIRS]++; if (g != r) kc[K_AMBIG_DIFF]++;
        } else check_pair(P, h, n, qflip ? "query-mismatch" : cls, b >> 2);
    }
}

/* choose one un-flipped and one flipped modifier combination from the rng */
static unsigned mods_two(vh_rng_t * rng) {
    uint32_t h = vh_below(rng, 36);
    unsigned a = (h % 6), b = (h / 6); /* casemode*2+colon in 0..5 */
    return (1u << ((a >> 1) * 4 + (a & 1) * 2)) | (1u << ((b >> 1) * 4 + (b & 1) * 2 + 1));
}

/* all headers for one pattern.  full: every modifier combination on the spelling grid */
static void run_pattern(const pat_t * P, vh_rng_t * rng, int full, int ambiguous_only_count) {
    int n = P->rp.n, i, c[REF_MAX_SLOTS];
    char buf[MAX_MN][REF_MAX_KEY + 16];
    const char * mn[MAX_MN];
    if (n > 4) harness_fail("more than 4 keywords", P->text, NULL);

    /* A: spelling grid - every keyword absent / short / long / short+digits / long+digits */
    memset(c, 0, sizeof c);
    for (;;) {
        int m = 0, miss = 0, baddig = 0;
        for (i = 0; i < n; i++) {
            const ref_slot_t * s = &P->rp.s[i];
            if (c[i] == 0) { if (!s->optional) miss = 1; continue; }
            snprintf(buf[m], sizeof buf[m], "%s%s", (c[i] == 2 || c[i] == 4) ? s->lng : s->sht, c[i] >= 3 ? P->dig[i][c[i] - 3] : "");
            if (c[i] >= 3 && !s->suffix) baddig = 1;
            mn[m] = buf[m]; m++;
        }
        if (m > 0) emit(P, mn, m, miss ? "mandatory-keyword-skipped" : baddig ? "digits-without-suffix" : "valid-spelling",
                        full ? MODS_FULL : mods_two(rng), ambiguous_only_count);
        for (i = 0; i < n; i++) { if (++c[i] < 5) break; c[i] = 0; }
        if (i == n) break;
    }
    if (ambiguous_only_count) return;

    /* B: near misses - exactly one deviation from a valid spelling */
    {
        int subset, fv;
        for (subset = 1; subset < (1 << n); subset++) {
            int valid = 1;
            for (i = 0; i < n; i++) if (!(subset & (1 << i)) && !P->rp.s[i].optional) valid = 0;
            if (!valid) continue;
            for (fv = 0; fv < 2; fv++) {
                char base[MAX_MN][REF_MAX_KEY + 16]; int slot_of[MAX_MN]; int m = 0, p, g;
                char tmp[REF_MAX_KEY + 16], tmp2[REF_MAX_KEY + 16];
                for (i = 0; i < n; i++) if (subset & (1 << i)) {
                    const ref_slot_t * s = &P->rp.s[i];
                    snprintf(base[m], sizeof base[m], "%s%s", fv ? s->lng : s->sht, (fv && s->suffix) ? P->dig[i][1] : "");
                    slot_of[m++] = i;
                }
                /* replacements */
                for (p = 0; p < m; p++) {
                    const ref_slot_t * s = &P->rp.s[slot_of[p]];
                    int v;
                    for (v = 0; v < 11; v++) {
                        const char * cls = NULL;
                        tmp[0] = 0;
                        switch (v) {
                            case 0: if (s->llen > 1) { snprintf(tmp, sizeof tmp, "%.*s", s->llen - 1, s->lng); cls = "long-form-minus-one-letter"; } break;
                            case 1: snprintf(tmp, sizeof tmp, "%s%c", s->sht, s->slen < s->llen ? s->lng[s->slen] : 'X'); cls = "short-form-plus-one-letter"; break;
                            case 2: if (s->slen > 1) { snprintf(tmp, sizeof tmp, "%.*s", s->slen - 1, s->sht); cls = "short-form-minus-one-letter"; } break;
                            case 3: snprintf(tmp, sizeof tmp, "%sX", s->lng); cls = "long-form-plus-one-letter"; break;
                            case 4: snprintf(tmp, sizeof tmp, "%s%sA", s->sht, P->dig[slot_of[p]][0]); cls = "letter-after-digits"; break;
                            case 5: snprintf(tmp, sizeof tmp, "%s", P->dig[slot_of[p]][0]); cls = "digits-only-mnemonic"; break;
                            case 6: snprintf(tmp, sizeof tmp, "%s", P->o1[slot_of[p]]); cls = "other-keyword"; break;
                            case 7: snprintf(tmp, sizeof tmp, "%s", P->o2[slot_of[p]]); cls = "other-keyword"; break;
                            case 8: cls = "empty-mnemonic"; break;
                            case 9: snprintf(tmp, sizeof tmp, "%s?", base[p]); cls = "inner-question-mark"; break;
                            case 10: snprintf(tmp, sizeof tmp, "*%s", base[p]); cls = "star-prefixed-mnemonic"; break;
                        }
                        if (!cls) continue;
                        for (i = 0; i < m; i++) mn[i] = (i == p) ? tmp : base[i];
                        emit(P, mn, m, cls, mods_two(rng), 0);
                    }
                }
                /* insertions */
                for (g = 0; g <= m && m + 1 <= MAX_MN; g++) {
                    int v;
                    for (v = 0; v < 2; v++) {
                        int q = 0;
                        if (v == 0) snprintf(tmp2, sizeof tmp2, "%s", P->o1[slot_of[g < m ? g : m - 1]]);
                        else snprintf(tmp2, sizeof tmp2, "%s", base[g < m ? g : m - 1]);
                        for (i = 0; i < m; i++) { if (i == g) mn[q++] = tmp2; mn[q++] = base[i]; }
                        if (g == m) mn[q++] = tmp2;
                        emit(P, mn, q, v ? "duplicated-mnemonic" : "inserted-other-keyword", mods_two(rng), 0);
                    }
                }
                /* adjacent swaps */
                for (p = 0; p + 1 < m; p++) {
                    for (i = 0; i < m; i++) mn[i] = base[i == p ? p + 1 : i == p + 1 ? p : i];
                    emit(P, mn, m, "swapped-order", mods_two(rng), 0);
                }
            }
        }
    }
}

/* distinct digit strings per slot (values differ so that swapped numbers show) */
static void choose_digits(pat_t * P, vh_rng_t * rng) {
    int i, f, j, g;
    long used[REF_MAX_SLOTS * 2]; int nu = 0;
    for (i = 0; i < REF_MAX_SLOTS; i++) for (f = 0; f < 2; f++) {
        for (;;) {
            long v; int dup = 0, width = 0; const char * fmt = "%ld";
            switch (vh_below(rng, 9)) {
                case 8: v = vh_chance(rng, 1, 2) ? (long) vh_below(rng, 100) : 2147483647L - (long) vh_below(rng, 1000); width = 11 + (int) vh_below(rng, 20); break; /* the digit count of a suffix is not limited: padded past the width of INT32_MAX */
                case 0: v = (long) vh_below(rng, 10); break;
                case 1: v = (long) vh_below(rng, 100); break;
                case 2: v = (long) vh_below(rng, 1000); fmt = "%03ld"; break;
                case 3: v = (long) vh_below(rng, 100000); break;
                case 4: v = 2147483647L - (long) vh_below(rng, 3); break;
                case 5: v = (long) vh_below(rng, 10); fmt = "0%ld"; break;
                case 6: v = 1 + (long) vh_below(rng, 9); break;
                default: v = (long) vh_below(rng, 1000000000); break;
            }
            if (v == -DEF) continue;
            for (j = 0; j < nu; j++) if (used[j] == v) dup = 1;
            if (dup) continue;
            used[nu++] = v;
            g = snprintf(P->dig[i][f], sizeof P->dig[i][f], fmt, v);
            if (width && g > 0 && g < width && width < (int) sizeof P->dig[i][f]) { memmove(P->dig[i][f] + (width - g), P->dig[i][f], (size_t) g + 1); memset(P->dig[i][f], '0', (size_t) (width - g)); }
            if (width) kc[K_NUM_LONGPAD]++;
            (void) g;
            break;
        }
    }
}

/* ---- phase 0: generated patterns ------------------------------------------------------------------------------ */
#define NVOC 6
static const char * const vocab[NVOC] = { "ALPHa", "BETa", "GAMma", "GAMMARay", "VOLTage", "UP" };
static uint64_t npat_of(int n) { uint64_t r = 2; while (n--) r *= 4 * NVOC; return r; } /* 2 * 24^n */

static uint64_t p0_count(int thorough) { return npat_of(1) + npat_of(2) + npat_of(3) + (thorough ? npat_of(4) : 0); }

static void p0_run(uint64_t idx, vh_rng_t * rng) {
    static pat_t P;
    int n = 1, i, kw[4], opt[4], suf[4], query;
    uint64_t x = idx;
    size_t o = 0;
    while (x >= npat_of(n)) { x -= npat_of(n); n++; }
    query = (int) (x & 1); x >>= 1;
    for (i = 0; i < n; i++) { opt[i] = (int) (x & 1); suf[i] = (int) ((x >> 1) & 1); kw[i] = (int) ((x >> 2) % NVOC); x = (x >> 2) / NVOC; }
    memset(&P, 0, sizeof P);
    for (i = 0; i < n; i++) {
        o += (size_t) snprintf(P.text + o, sizeof P.text - o, "%s%s%s%s", opt[i] ? "[:" : (i ? ":" : ""), vocab[kw[i]], suf[i] ? "#" : "", opt[i] ? "]" : "");
        { char t[REF_MAX_KEY]; forms_of(vocab[(kw[i] + 1) % NVOC], P.o1[i], t); forms_of(vocab[(kw[i] + 3) % NVOC], t, P.o2[i]); }
    }
    if (query) snprintf(P.text + o, sizeof P.text - o, "?");
    if (!ref_parse_pattern(P.text, &P.rp) || P.rp.n != n || P.rp.query != query) harness_fail("generated pattern does not parse", P.text, NULL);
    for (i = 0; i < n; i++) {
        if (P.rp.s[i].optional != opt[i] || P.rp.s[i].suffix != suf[i] || strcmp(P.rp.s[i].raw, vocab[kw[i]]) != 0) harness_fail("generated pattern parsed differently", P.text, NULL);
        if (suf[i]) P.k++;
    }
    vh_case_desc("generated pattern \"%s\"", P.text);
    choose_digits(&P, rng);
#if VH_ASAN
    /* the sanitized build takes every pattern of <= 2 keywords and a seed-dependent share of the larger ones */
    if (n >= 3) {
        uint32_t share = n == 3 ? 16 : 512;
        if (vh_below(rng, share) != 0) { vh_count("patterns.outside_asan_share", 1); return; }
    }
#endif
    case_begin(&P);
    if (!ref_pattern_unambiguous(P.text)) {
        kc[K_PAT_AMBIG]++;
        if (n <= 3) run_pattern(&P, rng, 0, 1); /* counted only */
        case_end();
        return;
    }
    kc[K_PAT_USED]++;
    run_pattern(&P, rng, n <= 3, 0);
    case_end();
}

/* ---- phase 1: patterns harvested from libscpi/test and examples/common/scpi-def.c -------------------------- */
static const char * const harvested[] = {
    /* test_scpi_utils.c (TEST_MATCH_COMMAND / TEST_MATCH_COMMAND2); the degenerate pattern "?" (no keyword) is outside the grammar */
    "A", "A?", "AB", "Ab", "ABCdef#", "ABcc:AACddd", "ABcc:BCCdddd[:CDEFGeeeee]", "ABcc:BCCdddd[:CDEFGeeeee]?", "ABcc[:BCCdddd]:CDEFGeeeee",
    "ABcc[:BCCdddd]:CDEFGeeeee?", "ABcc[:BCCdddd][:CDEFGeeeee]", "ABcc[:BCCdddd][:CDEFGeeeee]?", "ABcc[:BCCdddd][:CDEFGeeeee][:DEFFFFFFFFFfffffffffff]",
    "ABcc[:BCCdddd][:CDEFGeeeee][:DEFFFFFFFFFfffffffffff]?", "[:ABcc]:AACddd", "[:ABcc]:AACddd?", "[:ABcc]:BCCdddd[:CDEFGeeeee]", "[:ABcc]:BCCdddd[:CDEFGeeeee]?",
    "MEASure[:SCALar]:CURRent[:DC]", "MEASure[:SCALar]:CURRent[:DC]?", "OUTPut#:MODulation#:FM", "OUTPut#:MODulation#:FM#", "OUTPut#:MODulation:FM#",
    "OUTPut#[:MODulation#]:FM", "OUTPut#[:MODulation#]:FM#", "OUTPut#[:MODulation]:FM#",
    /* test_parser.c, test_lexer_parser.c command tables and examples/common/scpi-def.c */
    "CONFigure:VOLTage:DC", "MEASure:CURRent:AC?", "MEASure:CURRent:DC?", "MEASure:FREQuency?", "MEASure:FRESistance?", "MEASure:PERiod?", "MEASure:RESistance?",
    "MEASure:VOLTage:AC?", "MEASure:VOLTage:DC:RATio?", "MEASure:VOLTage:DC?", "SAMple", "STATus:OPERation:CONDition?", "STATus:OPERation:ENABle",
    "STATus:OPERation:ENABle?", "STATus:OPERation:EVENt?", "STATus:OPERation?", "STATus:OPERation[:EVENt]?", "STATus:PRESet", "STATus:QUEStionable:CONDition?",
    "STATus:QUEStionable:ENABle", "STATus:QUEStionable:ENABle?", "STATus:QUEStionable[:EVENt]?", "STUB", "STUB?", "SYSTem:COMMunication:TCPIP:CONTROL?",
    "SYSTem:ERRor:COUNt?", "SYSTem:ERRor[:NEXT]?", "SYSTem:VERSion?", "TEST#:NUMbers#", "TEST:ARBitrary?", "TEST:BOOL", "TEST:CHANnellist", "TEST:CHOice?",
    "TEST:TEXT", "TEST:TREEA?", "TEST:TREEB?", "TEXTfunction?",
    /* the same shapes with the optional suffix keyword last (not shipped; witnesses of the trailing-default clause) */
    "TEST#[:NUMbers#]", "TEST#[:NUMbers#]?", "OUTPut#[:MODulation#][:FM#]",
    /* keywords whose own stem contains digits / '_' next to a numeric-suffix keyword with the same letters (legal mnemonics: 488.2 7.6.1) */
    "MEASure[:RAIL#]:RAIL3V3?", "OUTPut[:CH#]:CH1Gain", "SENSe[:TEMP#]:TEMP2_MAX#", "TRIGger[:A#]:A1B", "SOURce:RAIL3V3[:RAIL#]", "ROUTe[:BANK#][:BANK2X#]:CLOSe",
};
#define NHARV (sizeof harvested / sizeof harvested[0])
static const char * const harvested_common[] = { "*CLS", "*ESE", "*ESE?", "*ESR?", "*IDN?", "*OPC", "*OPC?", "*RST", "*SRE", "*SRE?", "*STB?", "*TST?", "*WAI" };
#define NCOMMON (sizeof harvested_common / sizeof harvested_common[0])

static uint64_t p1_count(int thorough) { (void) thorough; return NHARV; }
static void p1_run(uint64_t idx, vh_rng_t * rng) {
    static pat_t P;
    int i;
    memset(&P, 0, sizeof P);
    snprintf(P.text, sizeof P.text, "%s", harvested[idx]);
    if (!ref_parse_pattern(P.text, &P.rp) || P.rp.common) harness_fail("harvested pattern outside the supported grammar", P.text, NULL);
    for (i = 0; i < P.rp.n; i++) {
        char t[REF_MAX_KEY];
        if (P.rp.s[i].suffix) P.k++;
        forms_of(P.rp.n > 1 ? P.rp.s[(i + 1) % P.rp.n].raw : "ZULu", P.o1[i], t);
        forms_of(P.rp.n > 2 ? P.rp.s[(i + 2) % P.rp.n].raw : "YANKee", t, P.o2[i]);
    }
    vh_case_desc("harvested pattern \"%s\"", P.text);
    choose_digits(&P, rng);
    case_begin(&P);
    kc[K_HARV_PAT]++;
    if (!ref_pattern_unambiguous(P.text)) { kc[K_PAT_AMBIG]++; run_pattern(&P, rng, 0, 1); }
    else { kc[K_PAT_USED]++; run_pattern(&P, rng, 1, 0); }
    case_end();
}

/* ---- phase 2: common (*) patterns -------------------------------------------------------------------------------- */
static uint64_t p2_count(int thorough) { (void) thorough; return NCOMMON; }
static void p2_run(uint64_t idx, vh_rng_t * rng) {
    static pat_t P;
    char name[REF_MAX_KEY]; /* "*IDN" upper case, no '?' */
    char other[REF_MAX_KEY];
    char cand[40][2 * REF_MAX_KEY + 8]; int nc = 0, i, cm, q;
    (void) rng;
    memset(&P, 0, sizeof P);
    snprintf(P.text, sizeof P.text, "%s", harvested_common[idx]);
    if (!ref_parse_pattern(P.text, &P.rp) || !P.rp.common) harness_fail("common pattern does not parse", P.text, NULL);
    if (!ref_pattern_unambiguous(P.text)) harness_fail("common pattern reported ambiguous", P.text, NULL);
    snprintf(name, sizeof name, "%s", P.rp.s[0].lng);
    snprintf(other, sizeof other, "%.*s", (int) strcspn(harvested_common[(idx + 1) % NCOMMON], "?"), harvested_common[(idx + 1) % NCOMMON]);
    vh_case_desc("common pattern \"%s\"", P.text);
    case_begin(&P);
    kc[K_PAT_USED]++;
    /* candidate header bodies (without the final '?') */
    snprintf(cand[nc++], sizeof cand[0], "%s", name);                  /* exact */
    snprintf(cand[nc++], sizeof cand[0], ":%s", name);                 /* leading colon */
    snprintf(cand[nc++], sizeof cand[0], "%s", name + 1);              /* star missing */
    snprintf(cand[nc++], sizeof cand[0], ":%s", name + 1);
    snprintf(cand[nc++], sizeof cand[0], "*%s", name);                 /* two stars */
    snprintf(cand[nc++], sizeof cand[0], "%.*s", (int) strlen(name) - 1, name); /* one letter less */
    snprintf(cand[nc++], sizeof cand[0], "%sX", name);                 /* one letter more */
    snprintf(cand[nc++], sizeof cand[0], "%s1", name);                 /* digits */
    snprintf(cand[nc++], sizeof cand[0], "%s", other);                 /* another common command */
    snprintf(cand[nc++], sizeof cand[0], "%s:%s", name, name + 1);     /* compound continuation */
    snprintf(cand[nc++], sizeof cand[0], "%s:ALPH", name);
    snprintf(cand[nc++], sizeof cand[0], "ALPH:%s", name);
    snprintf(cand[nc++], sizeof cand[0], "%s?", name);                 /* inner / doubled question mark */
    snprintf(cand[nc++], sizeof cand[0], "*");
    snprintf(cand[nc++], sizeof cand[0], ":*");
    snprintf(cand[nc++], sizeof cand[0], "%s:", name);
    snprintf(cand[nc++], sizeof cand[0], "*:%s", name + 1);
    for (i = 0; i < nc; i++) for (cm = 0; cm < 3; cm++) for (q = 0; q < 2; q++) {
        char h[2 * REF_MAX_KEY + 16]; size_t n = 0; const char * s; int alt = 0;
        for (s = cand[i]; *s; s++) { char c = *s; if (c >= 'A' && c <= 'Z' && (cm == 1 || (cm == 2 && (alt++ & 1)))) c = (char) (c + 32); h[n++] = c; }
        if (q) h[n++] = '?';
        check_pair(&P, h, n, (q != P.rp.query) ? "query-mismatch" : i == 0 ? "common-exact" : "common-near-miss", (unsigned) cm);
    }
    case_end();
}

int main(int argc, char ** argv) {
    static const vh_phase_t phases[] = {
        { "generated", p0_count, p0_run },
        { "harvested", p1_count, p1_run },
        { "common", p2_count, p2_run },
    };
    vh_require("pairs.accepted");
    vh_require("pairs.rejected");
    vh_require("accepted.with_skipped_optional");
    vh_require("accepted.leading_colon");
    vh_require("accepted.lower_or_mixed_case");
    vh_require("accepted.query");
    vh_require("rejected.query_mismatch");
    vh_require("direct.calls");
    vh_require("match.calls");
    vh_require("dispatch.handler_ran");
    vh_require("dispatch.no_handler");
    vh_require("dispatch.commandnumbers_calls");
    vh_require("dispatch.iscmd_own_header");
    vh_require("dispatch.iscmd_probe_false");
    vh_require("numbers.default_trailing_skipped_keyword");
    vh_require("numbers.default_inner_skipped_keyword");
    vh_require("numbers.default_suffix_omitted");
    vh_require("numbers.value_from_digits"); vh_require("numbers.digit_strings_padded_past_int32_width"); vh_require("dispatch.inputs_with_program_data_behind_the_header"); vh_require("match.calls_with_length_of_a_larger_buffer");
    vh_require("numbers.cells_cut_by_len");
    vh_require("common.accepted");
    vh_require("common.rejected");
    vh_require("patterns.harvested");
    return vh_main(argc, argv, "C03", phases, 3);
}
