/* Thread stage: the library keeps all of its state in the scpi_t (and in the buffers the application hands over), so contexts that share
 * nothing may be driven from different threads (one context per remote interface of an instrument). This program is built with
 * -fsanitize=thread: N threads, each with its OWN context, buffers, queue, heap and capture, run the same mix of messages that exercises every
 * formatter, reader, the error queue and the status registers. ThreadSanitizer reports any location that two of them touch - a file-scope or
 * function-static scratch buffer, cache or flag in the library. Each thread also checks its own responses against the single-threaded ones. */
#define _GNU_SOURCE
#include "scpi/scpi.h"
#include <pthread.h>
#include <stdio.h>
#include <stdlib.h>
#include <string.h>

#define NTHREADS 4
typedef struct { scpi_t ctx; scpi_interface_t iface; char inbuf[256]; scpi_error_t queue[17]; char heap[128]; char out[4096]; size_t n; int id; unsigned long sum; int errors; } port_t;
static port_t ports[NTHREADS];
static unsigned long expected_sum;

static size_t wr(scpi_t * c, const char * d, size_t len) { port_t * p = (port_t *) c->user_context; if (p->n + len < sizeof p->out) { memcpy(p->out + p->n, d, len); p->n += len; } return len; }
static scpi_result_t fl(scpi_t * c) { port_t * p = (port_t *) c->user_context; size_t i; for (i = 0; i < p->n; i++) p->sum = p->sum * 31 + (unsigned char) p->out[i]; p->n = 0; return SCPI_RES_OK; }
static int er(scpi_t * c, int_fast16_t e) { port_t * p = (port_t *) c->user_context; p->errors += e != 0; return 0; }
static scpi_result_t ct(scpi_t * c, scpi_ctrl_name_t k, scpi_reg_val_t v) { (void) c; (void) k; (void) v; return SCPI_RES_OK; }

static const scpi_choice_def_t src[] = { { "BUS", 1 }, { "IMMediate", 2 }, { "EXTernal1", 3 }, SCPI_CHOICE_LIST_END };
static scpi_result_t h_fmt(scpi_t * c) {
    /* every formatter */
    static const int32_t a32[3] = { -5, 0, 123456789 }; static const double ad[3] = { -1.5, 0.36856474669090572, 1e100 }; static const float af[2] = { 2.5f, -1e-20f };
    SCPI_ResultDouble(c, -1.5); SCPI_ResultDouble(c, 0.36856474669090572); SCPI_ResultFloat(c, 3.25f); SCPI_ResultDouble(c, 6.02214076e23);
    SCPI_ResultInt32(c, -2147483647 - 1); SCPI_ResultUInt32Base(c, 0xBEEFu, 16); SCPI_ResultInt64(c, -9007199254740993LL); SCPI_ResultUInt64Base(c, 0xFFFFFFFFFFFFFFFFULL, 2);
    SCPI_ResultBool(c, TRUE); SCPI_ResultText(c, "qu\"ote"); SCPI_ResultMnemonic(c, "MNEM"); SCPI_ResultArbitraryBlock(c, "ab;\n", 4);
    SCPI_ResultArrayInt32(c, a32, 3, SCPI_FORMAT_ASCII); SCPI_ResultArrayDouble(c, ad, 3, SCPI_FORMAT_ASCII); SCPI_ResultArrayFloat(c, af, 2, SCPI_FORMAT_NORMAL); SCPI_ResultArrayInt32(c, a32, 3, SCPI_FORMAT_SWAPPED);
    return SCPI_RES_OK;
}
static scpi_result_t h_par(scpi_t * c) {
    /* every reader */
    scpi_number_t n; double d; float f; int32_t i, ch, nums[2]; int64_t l; scpi_bool_t b; char t[16]; size_t tl; const char * p; size_t pl; char s[40]; scpi_parameter_t ex; scpi_bool_t rg; int32_t ff, tt;
    SCPI_CommandNumbers(c, nums, 2, 1);
    if (!SCPI_ParamNumber(c, scpi_special_numbers_def, &n, TRUE)) return SCPI_RES_ERR;
    SCPI_NumberToStr(c, scpi_special_numbers_def, &n, s, sizeof s); SCPI_ResultCharacters(c, s, strlen(s));
    if (!SCPI_ParamDouble(c, &d, TRUE) || !SCPI_ParamFloat(c, &f, TRUE) || !SCPI_ParamInt32(c, &i, TRUE) || !SCPI_ParamInt64(c, &l, TRUE) || !SCPI_ParamBool(c, &b, TRUE)) return SCPI_RES_ERR;
    if (!SCPI_ParamChoice(c, src, &ch, TRUE) || !SCPI_ParamCopyText(c, t, sizeof t, &tl, TRUE) || !SCPI_ParamArbitraryBlock(c, &p, &pl, TRUE)) return SCPI_RES_ERR;
    if (!SCPI_Parameter(c, &ex, TRUE)) return SCPI_RES_ERR;
    SCPI_ResultDouble(c, d * 2); SCPI_ResultFloat(c, f); SCPI_ResultInt32(c, i + nums[0] + nums[1]); SCPI_ResultInt64(c, l); SCPI_ResultBool(c, b); SCPI_ResultInt32(c, ch); SCPI_ResultText(c, t); SCPI_ResultArbitraryBlock(c, p, pl);
    for (i = 0; SCPI_ExprNumericListEntryInt(c, &ex, i, &rg, &ff, &tt) == SCPI_EXPR_OK; i++) SCPI_ResultInt32(c, rg ? tt - ff : ff);
    return SCPI_RES_OK;
}
static scpi_result_t h_err(scpi_t * c) { char txt[] = "device \"text\""; SCPI_ErrorPushEx(c, -240, txt, 0); SCPI_ErrorPush(c, 123); return SCPI_RES_OK; }
static const scpi_command_t cmds[] = {
    { "*CLS", SCPI_CoreCls, 0 }, { "*ESE", SCPI_CoreEse, 0 }, { "*ESR?", SCPI_CoreEsrQ, 0 }, { "*IDN?", SCPI_CoreIdnQ, 0 }, { "*OPC", SCPI_CoreOpc, 0 }, { "*SRE", SCPI_CoreSre, 0 }, { "*STB?", SCPI_CoreStbQ, 0 },
    { "SYSTem:ERRor[:NEXT]?", SCPI_SystemErrorNextQ, 0 }, { "SYSTem:ERRor:COUNt?", SCPI_SystemErrorCountQ, 0 }, { "STATus:QUEStionable[:EVENt]?", SCPI_StatusQuestionableEventQ, 0 },
    { "STATus:OPERation:ENABle", SCPI_StatusOperationEnable, 0 }, { "STATus:PRESet", SCPI_StatusPreset, 0 },
    { "FORMat?", h_fmt, 0 }, { "PARam#:ALL#?", h_par, 0 }, { "RAISe", h_err, 0 }, SCPI_CMD_LIST_END };

static const char * const script[] = {
    "*ESE 255;*SRE 60\n", "FORM?\n", "PAR2:ALL7? 2.5 MV,1 E3,-2.5e-3,#HFF,-9007199254740993,ON,ext1,'it''s',#13a;b,(1,3:9,4)\n", "par:all? MAX,1,2,3,4,OFF,BUS,\"x\",#0\n",
    "RAIS;SYST:ERR:COUN?;:SYST:ERR?;ERR?;ERR?\n", "FOO:BAR 1;*ESR?;*STB?\n", "STAT:OPER:ENAB 65535;STAT:QUES?;STAT:PRES\n", "PAR:ALL? 1,2\n", "*OPC;*ESR?;*CLS;*IDN?\n", "FORM?;FORM?\n" };
#define NSCRIPT (sizeof script / sizeof script[0])

static void port_init(port_t * p, int id) {
    memset(p, 0, sizeof *p);
    p->id = id; p->iface.error = er; p->iface.write = wr; p->iface.control = ct; p->iface.flush = fl;
    SCPI_Init(&p->ctx, cmds, &p->iface, scpi_units_def, "VERIF", "PORT", NULL, "1.0", p->inbuf, sizeof p->inbuf, p->queue, 17);
#if USE_DEVICE_DEPENDENT_ERROR_INFORMATION && !USE_MEMORY_ALLOCATION_FREE
    SCPI_InitHeap(&p->ctx, p->heap, sizeof p->heap);
#endif
    p->ctx.user_context = p;
}
static long rounds = 300;
static void * run(void * a) {
    port_t * p = (port_t *) a; long r; size_t k;
    for (r = 0; r < rounds; r++) for (k = 0; k < NSCRIPT; k++) {
        const char * m = script[k]; size_t n = strlen(m), h = (size_t) ((r + p->id) % (long) n);
        /* each port cuts its messages at its own place */
        if (h) SCPI_Input(&p->ctx, m, (int) h);
        SCPI_Input(&p->ctx, m + h, (int) (n - h));
    }
    return NULL;
}
int main(int argc, char ** argv) {
    pthread_t th[NTHREADS]; int i, bad = 0;
    if (argc > 1) rounds = atol(argv[1]);
    /* reference: one port alone */
    port_init(&ports[0], 0); run(&ports[0]); expected_sum = ports[0].sum;
    for (i = 0; i < NTHREADS; i++) port_init(&ports[i], i);
    for (i = 0; i < NTHREADS; i++) pthread_create(&th[i], NULL, run, &ports[i]);
    for (i = 0; i < NTHREADS; i++) pthread_join(th[i], NULL);
    for (i = 0; i < NTHREADS; i++) if (ports[i].sum != expected_sum) { printf("RESPONSES-DIFFER port %d checksum %lx, alone %lx\n", i, ports[i].sum, expected_sum); bad = 1; }
    printf("threads %d rounds %ld messages %ld responses-checksum %lx errors-per-port %d %s\n", NTHREADS, rounds, rounds * (long) NSCRIPT * NTHREADS, expected_sum, ports[0].errors, bad ? "DIFFER" : "equal");
    return bad ? 3 : 0;
}
