/* C13 - the tokenizer recognises exactly the IEEE 488.2 program-data token syntax.
 * Differential runtime monitor: every recogniser of the library is executed on enumerated /
 * generated inputs and compared (return value, token type, token extent, cursor displacement,
 * cursor bounds) with the table-driven longest-match reference in kit/ref_lex.c. */
#include "vh_scpi.h"
#include "ref_lex.h"
#include <stdio.h>
#include <stdlib.h>
#include <string.h>

enum { R_WS, R_HEADER, R_CHAR, R_DEC, R_SUFFIX, R_NONDEC, R_STRING, R_BLOCK, R_EXPR, R_COMMA, R_SEMI, R_COLON, R_NL,
       R_SPECIFIC, R_DATA, R_ALLDATA, R_UNIT, R__N };
static const char * const rname[R__N] = { "ws", "header", "chardata", "decimal", "suffix", "nondec", "string", "block", "expr",
    "comma", "semicolon", "colon", "newline", "specific", "data", "alldata", "unit" };
static const char * const fname[R__N] = { "scpiLex_WhiteSpace", "scpiLex_ProgramHeader", "scpiLex_CharacterProgramData",
    "scpiLex_DecimalNumericProgramData", "scpiLex_SuffixProgramData", "scpiLex_NondecimalNumericData", "scpiLex_StringProgramData",
    "scpiLex_ArbitraryBlockProgramData", "scpiLex_ProgramExpression", "scpiLex_Comma", "scpiLex_Semicolon", "scpiLex_Colon",
    "scpiLex_NewLine", "scpiLex_SpecificCharacter", "scpiParser_parseProgramData", "scpiParser_parseAllProgramData",
    "scpiParser_detectProgramMessageUnit" };

#define POISON_INT ((int) 0x5A5A5A5A)

/* ---- local counters, flushed to vh_count at the end of every case ------------------------------ */
enum { V_CALLS, V_ACC, V_REJ, V_INC, V__N };
static const char * const vname[V__N] = { "calls", "accepted", "rejected", "incomplete" };
static uint64_t rc[R__N][V__N];
enum { K_STR_ALT_INPUT, K_STR_ALT_TAKEN, K_REJ_PTR_START, K_REJ_PTR_OTHER, K_DATA_REJ_CUR_WS, K_DATA_REJ_CUR_START, K_DATA_REJ_RET_EQ_CUR,
       K_DATA_AMBIG, K_LIST_DANGLING, K_LIST_DANGLING_REJECTED, K_LIST_DANGLING_PREFIX, K_LIST_AMBIG, K_LIST_INC_CUR_END,
       K_UNIT_BARE, K_UNIT_WSONLY, K_UNIT_WSONLY_0, K_UNIT_WSONLY_M1, K_UNIT_DATA, K_UNIT_MALFORMED, K_UNIT_MALF_INVALID, K_UNIT_MALF_NEG,
       K_UNIT_NOHDR_EMPTY, K_UNIT_NOHDR_GARBAGE, K_UNIT_INCHDR, K_UNIT_AMBIG, K_UNIT_TERM_NL, K_UNIT_TERM_SEMI, K_UNIT_TERM_END,
       K_MODE_EXACT, K_MODE_ATEND, K_MODE_CUT, K_CUT_SHORT, K_BOUNDS_CHECKED, K_EIGHTBIT, K_NUL, K_LONG, K__N };
static const char * const kname[K__N] = { "string.alt_reading_inputs", "string.alt_reading_taken", "reject.token_ptr_at_start", "reject.token_ptr_elsewhere",
    "data.reject.cursor_after_ws", "data.reject.cursor_at_start", "data.reject.ret_eq_cursor", "data.ambiguous_string_skipped",
    "alldata.dangling_comma", "alldata.dangling_comma.rejected", "alldata.dangling_comma.prefix_accepted", "alldata.ambiguous_string_skipped",
    "alldata.incomplete.cursor_at_end",
    "unit.bare", "unit.ws_only", "unit.ws_only.nparams_0", "unit.ws_only.nparams_minus1", "unit.with_data", "unit.malformed",
    "unit.malformed.flagged_invalid", "unit.malformed.flagged_negative_count", "unit.no_header.empty_unit_not_asserted", "unit.no_header.garbage",
    "unit.incomplete_header_not_asserted", "unit.ambiguous_string_skipped", "unit.term_nl", "unit.term_semicolon", "unit.term_end",
    "mode.exact_size_buffer", "mode.end_of_larger_buffer", "mode.len_cut", "mode.len_cut.text_continues_after_cut", "bounds.checked",
    "input.with_8bit_byte", "input.with_nul_byte", "input.longer_than_255" };
static uint64_t kc[K__N];
static void flush_counters(void) {
    int r, v; char nm[64];
    for (r = 0; r < R__N; r++) for (v = 0; v < V__N; v++) if (rc[r][v]) { snprintf(nm, sizeof nm, "%s.%s", rname[r], vname[v]); vh_count(nm, rc[r][v]); rc[r][v] = 0; }
    for (v = 0; v < K__N; v++) if (kc[v]) { vh_count(kname[v], kc[v]); kc[v] = 0; }
}

/* ---- witness ----------------------------------------------------------------------------------------- */
static void viol(int rec, const char * what, const char * key, const unsigned char * text, size_t n, size_t after, int chr, const char * fmt, ...) {
    char k[96], msg[512]; va_list ap;
    if (key) snprintf(k, sizeof k, "%s", key); else snprintf(k, sizeof k, "C13:%s-%s", rname[rec], what);
    va_start(ap, fmt); vsnprintf(msg, sizeof msg, fmt, ap); va_end(ap);
    if (rec == R_SPECIFIC)
        vh_violation(k, "%s(chr=0x%02x) on \"%s\" (len %zu; bytes after the end of input: \"%s\"): %s", fname[rec], chr & 0xff, vh_esc(text, n), n, vh_esc(text + n, after), msg);
    else
        vh_violation(k, "%s on \"%s\" (len %zu; bytes after the end of input: \"%s\"): %s", fname[rec], vh_esc(text, n), n, vh_esc(text + n, after), msg);
}

/* ---- the unit recogniser ------------------------------------------------------------------------------- */
static void probe_unit(unsigned char * text, size_t n, size_t after) {
    scpi_parser_state_t ps; ref_unit_t u; int ret; long hoff, doff;
    memset(&ps, 0x5A, sizeof ps);
    ret = scpiParser_detectProgramMessageUnit(&ps, (char *) text, (int) n);
    ref_lex_unit(text, n, &u);
    vh_eval(1);
    kc[K_BOUNDS_CHECKED]++;
    if (ret < 0 || (size_t) ret > n) { viol(R_UNIT, "cursor-out-of-bounds", NULL, text, n, after, 0, "returned %d, input length %zu", ret, n); return; }
    if (u.ambiguous) { kc[K_UNIT_AMBIG]++; rc[R_UNIT][V_REJ]++; return; }
    if (u.header_kind == REF_HDR_INCOMPLETE) { kc[K_UNIT_INCHDR]++; rc[R_UNIT][V_REJ]++; return; }
    if (u.header_kind == REF_HDR_ABSENT) {
        size_t q = (size_t) u.lead_ws;
        rc[R_UNIT][V_REJ]++;
        if (q == n || text[q] == ';' || text[q] == '\r' || text[q] == '\n') { kc[K_UNIT_NOHDR_EMPTY]++; return; }
        kc[K_UNIT_NOHDR_GARBAGE]++;
        if (!(ps.programHeader.type == SCPI_TOKEN_INVALID || ps.numberOfParameters < 0))
            viol(R_UNIT, "garbage-accepted", NULL, text, n, after, 0, "no header at offset %zu, but header type %d (not INVALID) and numberOfParameters %d", q, (int) ps.programHeader.type, ps.numberOfParameters);
        return;
    }
    if (u.shape == REF_UNIT_MALFORMED) {
        rc[R_UNIT][V_REJ]++; kc[K_UNIT_MALFORMED]++;
        if (ps.programHeader.type == SCPI_TOKEN_INVALID) kc[K_UNIT_MALF_INVALID]++;
        else if (ps.numberOfParameters < 0) kc[K_UNIT_MALF_NEG]++;
        else viol(R_UNIT, "malformed-accepted", NULL, text, n, after, 0, "malformed unit reported header type %d (not INVALID), numberOfParameters %d, termination %d, return %d",
                  (int) ps.programHeader.type, ps.numberOfParameters, (int) ps.termination, ret);
        return;
    }
    /* well formed */
    rc[R_UNIT][V_ACC]++;
    hoff = (long) ((intptr_t) ps.programHeader.ptr - (intptr_t) text);
    if ((int) ps.programHeader.type != u.header.type) { viol(R_UNIT, "header-type", NULL, text, n, after, 0, "well-formed unit: header type %d, expected %d", (int) ps.programHeader.type, u.header.type); return; }
    if (hoff != u.header.off || ps.programHeader.len != u.header.len) { viol(R_UNIT, "header-extent", NULL, text, n, after, 0, "header at %ld len %d, expected at %ld len %ld", hoff, ps.programHeader.len, u.header.off, u.header.len); return; }
    if ((int) ps.termination != u.termination) { viol(R_UNIT, "termination", NULL, text, n, after, 0, "termination %d, expected %d", (int) ps.termination, u.termination); return; }
    if (ret != u.total) { viol(R_UNIT, "return-value", NULL, text, n, after, 0, "returned %d, the unit with its terminator is %ld bytes", ret, u.total); return; }
    kc[u.termination == SCPI_MESSAGE_TERMINATION_NL ? K_UNIT_TERM_NL : u.termination == SCPI_MESSAGE_TERMINATION_SEMICOLON ? K_UNIT_TERM_SEMI : K_UNIT_TERM_END]++;
    if (u.shape == REF_UNIT_BARE) {
        kc[K_UNIT_BARE]++;
        if (ps.numberOfParameters != 0 || ps.programData.len != 0) viol(R_UNIT, "no-data-reported-as-data", NULL, text, n, after, 0, "header without data: numberOfParameters %d, programData.len %d", ps.numberOfParameters, ps.programData.len);
    } else if (u.shape == REF_UNIT_WS_ONLY) {
        kc[K_UNIT_WSONLY]++;
        if (ps.numberOfParameters == 0) kc[K_UNIT_WSONLY_0]++; else if (ps.numberOfParameters == -1) kc[K_UNIT_WSONLY_M1]++;
        if ((ps.numberOfParameters != 0 && ps.numberOfParameters != -1) || ps.programData.len != 0)
            viol(R_UNIT, "no-data-reported-as-data", NULL, text, n, after, 0, "header and white space only: numberOfParameters %d, programData.len %d", ps.numberOfParameters, ps.programData.len);
    } else {
        kc[K_UNIT_DATA]++;
        doff = (long) ((intptr_t) ps.programData.ptr - (intptr_t) text);
        if (ps.programData.type != SCPI_TOKEN_ALL_PROGRAM_DATA) viol(R_UNIT, "data-type", NULL, text, n, after, 0, "programData.type %d for a well-formed list of %d items", (int) ps.programData.type, u.nitems);
        else if (doff != u.data_off) viol(R_UNIT, "data-extent", NULL, text, n, after, 0, "programData at %ld, expected %ld", doff, u.data_off);
        else if (ps.programData.len != u.data_len) {
            if (u.ws_after_plain_num > 0 && ps.programData.len == u.data_len - u.ws_after_plain_num)
                viol(R_UNIT, NULL, "C13:ws-after-plain-number-not-counted", text, n, after, 0, "programData.len %d but the data are %ld bytes (%ld white-space bytes after unsuffixed numbers missing)", ps.programData.len, u.data_len, u.ws_after_plain_num);
            else viol(R_UNIT, "data-extent", NULL, text, n, after, 0, "programData.len %d, expected %ld", ps.programData.len, u.data_len);
        } else if (ps.numberOfParameters != u.nitems) viol(R_UNIT, "parameter-count", NULL, text, n, after, 0, "numberOfParameters %d, expected %d", ps.numberOfParameters, u.nitems);
    }
}

/* ---- one call of one recogniser ------------------------------------------------------------------------ */
/* input = base[pre .. pre+n); `after` readable bytes follow (for the witness text only) */
static void probe(int rec, unsigned char * base, size_t pre, size_t n, size_t after, int chr) {
    unsigned char * text = base + pre;
    lex_state_t st; scpi_token_t tk; int np, ret = 0; ref_tok_t r; long adv, off;
    rc[rec][V_CALLS]++;
    if (rec == R_UNIT) { probe_unit(text, n, after); return; }
    st.buffer = (char *) base; st.pos = (char *) text; st.len = (int) (pre + n);
    memset(&tk, 0x5A, sizeof tk); np = POISON_INT;
    switch (rec) {
        case R_WS: ret = scpiLex_WhiteSpace(&st, &tk); ref_lex_ws(text, n, &r); break;
        case R_HEADER: ret = scpiLex_ProgramHeader(&st, &tk); ref_lex_header(text, n, &r); break;
        case R_CHAR: ret = scpiLex_CharacterProgramData(&st, &tk); ref_lex_chardata(text, n, &r); break;
        case R_DEC: ret = scpiLex_DecimalNumericProgramData(&st, &tk); ref_lex_decimal(text, n, &r); break;
        case R_SUFFIX: ret = scpiLex_SuffixProgramData(&st, &tk); ref_lex_suffix(text, n, &r); break;
        case R_NONDEC: ret = scpiLex_NondecimalNumericData(&st, &tk); ref_lex_nondec(text, n, &r); break;
        case R_STRING: ret = scpiLex_StringProgramData(&st, &tk); ref_lex_string(text, n, &r); break;
        case R_BLOCK: ret = scpiLex_ArbitraryBlockProgramData(&st, &tk); ref_lex_block(text, n, &r); break;
        case R_EXPR: ret = scpiLex_ProgramExpression(&st, &tk); ref_lex_expr(text, n, &r); break;
        case R_COMMA: ret = scpiLex_Comma(&st, &tk); ref_lex_char(text, n, ',', SCPI_TOKEN_COMMA, &r); break;
        case R_SEMI: ret = scpiLex_Semicolon(&st, &tk); ref_lex_char(text, n, ';', SCPI_TOKEN_SEMICOLON, &r); break;
        case R_COLON: ret = scpiLex_Colon(&st, &tk); ref_lex_char(text, n, ':', SCPI_TOKEN_COLON, &r); break;
        case R_NL: ret = scpiLex_NewLine(&st, &tk); ref_lex_newline(text, n, &r); break;
        case R_SPECIFIC: ret = scpiLex_SpecificCharacter(&st, &tk, (char) chr); ref_lex_char(text, n, (unsigned char) chr, SCPI_TOKEN_SPECIFIC_CHARACTER, &r); break;
        case R_DATA: ret = scpiParser_parseProgramData(&st, &tk); ref_lex_data(text, n, &r); break;
        default: ret = scpiParser_parseAllProgramData(&st, &tk, &np); ref_lex_alldata(text, n, &r); break;
    }
    vh_eval(1);
    rc[rec][r.verdict == REF_ACCEPT ? V_ACC : r.verdict == REF_INCOMPLETE ? V_INC : V_REJ]++;
    adv = (long) ((intptr_t) st.pos - (intptr_t) text);
    off = (long) ((intptr_t) tk.ptr - (intptr_t) text);
    kc[K_BOUNDS_CHECKED]++;
    if (st.buffer != (char *) base || st.len != (int) (pre + n)) { viol(rec, "state-modified", NULL, text, n, after, chr, "buffer/len of the lexer state were changed"); return; }
    if (adv < 0) {
        if ((char *) st.pos < (char *) base) viol(rec, "cursor-out-of-bounds", NULL, text, n, after, chr, "cursor moved %ld bytes, before the buffer (%zu bytes precede the input)", adv, pre);
        else viol(rec, "cursor-before-start", NULL, text, n, after, chr, "cursor moved %ld bytes, i.e. before the start of its input", adv);
        return;
    }
    if ((size_t) adv > n) { viol(rec, "cursor-out-of-bounds", NULL, text, n, after, chr, "cursor moved %ld bytes, input has %zu", adv, n); return; }
    if (rec == R_EXPR && (n == 0 || text[0] != '(') && tk.len == POISON_INT) {
        viol(rec, NULL, "C13:expression-stale-token-len", text, n, after, chr, "input does not start with '(' and the token arrived with len=0x%x: type %d, len %d, return %d, cursor +%ld (token->len is read before it is written)", (unsigned) POISON_INT, (int) tk.type, tk.len, ret, adv);
        return;
    }

    if (r.verdict == REF_ACCEPT) {
        if (rec == R_DATA || rec == R_ALLDATA) {
            long lenexp = r.len, retexp = r.ret;
            if ((int) tk.type != r.type) { viol(rec, "token-type", NULL, text, n, after, chr, "type %d, expected %d", (int) tk.type, r.type); return; }
            if (off != r.off) { viol(rec, "token-ptr", NULL, text, n, after, chr, "token at offset %ld, expected %ld", off, r.off); return; }
            if (adv != r.adv) { viol(rec, "cursor", NULL, text, n, after, chr, "cursor moved %ld, expected %ld", adv, r.adv); return; }
            if (rec == R_ALLDATA && np != r.nitems) { viol(rec, "parameter-count", NULL, text, n, after, chr, "numberOfParameters %d, expected %d", np, r.nitems); return; }
            if (tk.len != lenexp || ret != retexp) {
                long lost = r.ws_after_plain_num;
                int narrow = lost > 0 && (rec == R_DATA ? (tk.len == lenexp && ret == retexp - lost) : (tk.len == lenexp - lost && ret == retexp - lost));
                if (narrow) viol(rec, NULL, "C13:ws-after-plain-number-not-counted", text, n, after, chr,
                                 "consumed %ld bytes but returned %d, token len %d (expected return %ld, len %ld): the %ld white-space bytes after the unsuffixed number are consumed and not counted", adv, ret, tk.len, retexp, lenexp, lost);
                else if (tk.len != lenexp) viol(rec, "token-len", NULL, text, n, after, chr, "token len %d, expected %ld", tk.len, lenexp);
                else viol(rec, "return-value", NULL, text, n, after, chr, "returned %d, expected %ld (cursor moved %ld)", ret, retexp, adv);
            }
            return;
        }
        if ((int) tk.type != r.type) viol(rec, "token-type", NULL, text, n, after, chr, "type %d, expected %d (return %d, len %d, cursor +%ld)", (int) tk.type, r.type, ret, tk.len, adv);
        else if (adv != r.adv) viol(rec, "cursor", NULL, text, n, after, chr, "cursor moved %ld, expected %ld", adv, r.adv);
        else if (tk.len != r.len) viol(rec, "token-len", NULL, text, n, after, chr, "token len %d, expected %ld", tk.len, r.len);
        else if (off != r.off) viol(rec, "token-ptr", NULL, text, n, after, chr, "token at offset %ld, expected %ld", off, r.off);
        else if (ret != r.ret) viol(rec, "return-value", NULL, text, n, after, chr, "returned %d, expected %ld", ret, r.ret);
        return;
    }

    if (r.verdict == REF_INCOMPLETE) { /* definite-length block, or quoted string, cut by the end of input */
        if (tk.type != SCPI_TOKEN_UNKNOWN || tk.len != 0) viol(rec, "incomplete-block-reported-as-token", NULL, text, n, after, chr, "type %d len %d return %d for a block/string cut by the end of input", (int) tk.type, tk.len, ret);
        else if ((rec == R_BLOCK || rec == R_STRING) && ((size_t) adv != n || ret != 0)) viol(rec, "incomplete-block-cursor", NULL, text, n, after, chr, "cursor moved %ld of %zu, return %d (expected cursor at the end of input, return 0)", adv, n, ret);
        else if (rec == R_DATA && (size_t) adv != n) viol(rec, "incomplete-block-cursor", NULL, text, n, after, chr, "cursor moved %ld of %zu", adv, n);
        else if (rec == R_ALLDATA) { if (np >= 0) viol(rec, "parameter-count", NULL, text, n, after, chr, "numberOfParameters %d for a list ending in an incomplete block", np); else if ((size_t) adv == n) kc[K_LIST_INC_CUR_END]++; }
        return;
    }

    /* reference: rejected */
    if (rec == R_STRING && r.alt_adv >= 0) {
        kc[K_STR_ALT_INPUT]++;
        if (ret == r.alt_adv && adv == r.alt_adv && tk.len == r.alt_adv && off == 0 && (int) tk.type == (text[0] == '"' ? SCPI_TOKEN_DOUBLE_QUOTE_PROGRAM_DATA : SCPI_TOKEN_SINGLE_QUOTE_PROGRAM_DATA)) { kc[K_STR_ALT_TAKEN]++; return; }
    }
    if (rec == R_DATA) {
        if (r.ambiguous) { kc[K_DATA_AMBIG]++; return; }
        if (tk.type != SCPI_TOKEN_UNKNOWN || tk.len != 0) { viol(rec, "rejected-input-reported-as-token", NULL, text, n, after, chr, "type %d len %d return %d, but no program data start here", (int) tk.type, tk.len, ret); return; }
        if (adv == r.lead_ws) kc[K_DATA_REJ_CUR_WS]++; else if (adv == 0) kc[K_DATA_REJ_CUR_START]++;
        else { viol(rec, "no-rollback", NULL, text, n, after, chr, "cursor moved %ld although nothing was recognised (leading white space: %ld)", adv, r.lead_ws); return; }
        if (ret == adv) kc[K_DATA_REJ_RET_EQ_CUR]++;
        return;
    }
    if (rec == R_ALLDATA) {
        int rejected = tk.type == SCPI_TOKEN_UNKNOWN && tk.len == 0 && ret == 0 && np < 0;
        if (r.ambiguous) { kc[K_LIST_AMBIG]++; return; }
        if (r.dangling_comma) {
            kc[K_LIST_DANGLING]++;
            if (rejected) { kc[K_LIST_DANGLING_REJECTED]++; return; }
            if (tk.type == SCPI_TOKEN_ALL_PROGRAM_DATA && off == 0 && tk.len == r.prefix_len && ret == r.prefix_len && adv == r.prefix_len && np == r.prefix_items) { kc[K_LIST_DANGLING_PREFIX]++; return; }
            viol(rec, "dangling-comma", NULL, text, n, after, chr, "type %d len %d return %d numberOfParameters %d cursor +%ld: neither rejected nor the list before the comma (%ld bytes, %d items)", (int) tk.type, tk.len, ret, np, adv, r.prefix_len, r.prefix_items);
            return;
        }
        if (!rejected) viol(rec, "rejected-input-reported-as-token", NULL, text, n, after, chr, "type %d len %d return %d numberOfParameters %d, but the list is malformed", (int) tk.type, tk.len, ret, np);
        return;
    }
    if (tk.type != SCPI_TOKEN_UNKNOWN || tk.len != 0 || ret != 0) viol(rec, "rejected-input-reported-as-token", NULL, text, n, after, chr, "type %d len %d return %d, but no such token starts here", (int) tk.type, tk.len, ret);
    else if (adv != 0) viol(rec, "no-rollback", NULL, text, n, after, chr, "cursor moved %ld although nothing was recognised", adv);
    else if (off == 0) kc[K_REJ_PTR_START]++; else kc[K_REJ_PTR_OTHER]++;
}

/* ---- placements ------------------------------------------------------------------------------------------ */
#define MAXFILL 8
/* s[0..L): the text; alpha/nsym: symbols used as neighbours; salt varies the neighbours.
 * cuts: 0 = every cut 0..L, else only `cuts` pseudo-random cuts plus L */
#if !VH_ASAN
static unsigned char * arena; static size_t arena_cap;
#endif
static void place_all(int rec, const unsigned char * s, size_t L, const unsigned char * alpha, int nsym, uint64_t salt, int chr, int ncuts, vh_rng_t * rng) {
    size_t pre = (salt & 1) ? 0 : 2 + (size_t) ((salt >> 1) & 1), k, i;
    unsigned char * b;
#if VH_ASAN
    /* exact-size heap cell: the text starts at the first and ends at the last byte, any over- or under-read traps */
    b = (unsigned char *) malloc(L);
    if (L) memcpy(b, s, L);
    probe(rec, b, 0, L, 0, chr); kc[K_MODE_EXACT]++;
    free(b);
    /* at the very end of a larger cell, cursor not at the start of the buffer */
    b = (unsigned char *) malloc(3 + L);
    for (i = 0; i < 3; i++) b[i] = alpha[(salt + i) % (uint64_t) nsym];
    if (L) memcpy(b + 3, s, L);
    probe(rec, b, 3, L, 0, chr); kc[K_MODE_ATEND]++;
    free(b);
    b = (unsigned char *) malloc(pre + L + MAXFILL);
#else
    if (arena_cap < pre + L + MAXFILL + 32) { free(arena); arena_cap = (pre + L + MAXFILL + 32) * 2; arena = (unsigned char *) malloc(arena_cap); }
    b = arena + 16;
#endif
    /* inside a longer buffer, len cutting the text at every offset; what follows the cut looks valid */
    for (i = 0; i < pre; i++) b[i] = alpha[(salt / 3 + i) % (uint64_t) nsym];
    if (L) memcpy(b + pre, s, L);
    for (i = 0; i < MAXFILL; i++) b[pre + L + i] = alpha[(salt / 7 + i * (1 + salt % 3)) % (uint64_t) nsym];
    if (ncuts == 0) {
        for (k = 0; k <= L; k++) { probe(rec, b, pre, k, L - k + MAXFILL > 6 ? 6 : L - k + MAXFILL, chr); }
        kc[K_MODE_CUT] += L + 1; kc[K_CUT_SHORT] += L;
    } else {
        probe(rec, b, pre, L, 6, chr); kc[K_MODE_CUT]++;
        for (i = 0; i < (size_t) ncuts && L > 0; i++) { k = vh_below(rng, (uint32_t) L); probe(rec, b, pre, k, 6, chr); kc[K_MODE_CUT]++; kc[K_CUT_SHORT]++; }
    }
#if VH_ASAN
    free(b);
#endif
}

static void note_input(int rec, const unsigned char * s, size_t L, int subsample_mask, int chr) {
    ref_tok_t r; uint64_t h; size_t i; int e8 = 0, nul = 0;
    for (i = 0; i < L; i++) { if (s[i] >= 0x80) e8 = 1; if (s[i] == 0) nul = 1; }
    if (e8) kc[K_EIGHTBIT]++;
    if (nul) kc[K_NUL]++;
    if (L > 255) kc[K_LONG]++;
    h = vh_hash(s, L, vh_hash_u64((uint64_t) rec, VH_HASH_INIT));
    if ((h & (uint64_t) subsample_mask) != 0) return;
    /* non-trivial = the reference recognises something at the start of the text */
    switch (rec) {
        case R_WS: ref_lex_ws(s, L, &r); break; case R_HEADER: ref_lex_header(s, L, &r); break; case R_CHAR: ref_lex_chardata(s, L, &r); break;
        case R_DEC: ref_lex_decimal(s, L, &r); break; case R_SUFFIX: ref_lex_suffix(s, L, &r); break; case R_NONDEC: ref_lex_nondec(s, L, &r); break;
        case R_STRING: ref_lex_string(s, L, &r); break; case R_BLOCK: ref_lex_block(s, L, &r); break; case R_EXPR: ref_lex_expr(s, L, &r); break;
        case R_NL: ref_lex_newline(s, L, &r); break; case R_DATA: ref_lex_data(s, L, &r); break; case R_ALLDATA: ref_lex_alldata(s, L, &r); break;
        case R_UNIT: { ref_unit_t u; ref_lex_unit(s, L, &u); r.verdict = (u.header_kind == REF_HDR_COMPLETE && u.shape != REF_UNIT_MALFORMED) ? REF_ACCEPT : REF_REJECT; break; }
        default: ref_lex_char(s, L, (unsigned char) (rec == R_COMMA ? ',' : rec == R_SEMI ? ';' : rec == R_COLON ? ':' : chr), 0, &r); break;
    }
    if (r.verdict != REF_REJECT) vh_distinct(h);
}

/* ---- exhaustive enumeration ---------------------------------------------------------------------------------- */
typedef struct { int rec; const char * alpha; int nsym; } enum_def_t;
static const enum_def_t class_defs[] = {
    { R_WS, " \ta\r", 4 },
    { R_HEADER, "*:?aZ1_ ", 8 },
    { R_CHAR, "aZ1_ \xe9", 6 },
    { R_DEC, "+-1.Ee \tx", 9 },
    { R_SUFFIX, "/.-aV1 ", 7 },
    { R_NONDEC, "#HQB0178FG", 10 },
    { R_STRING, "\"'a\x80\0\n", 6 },
    { R_BLOCK, "#0123a", 6 },
    { R_EXPR, "()a\"#'; \x7f\x1f", 10 },
    { R_COMMA, ",;:\r\na", 6 },
    { R_SEMI, ",;:\r\na", 6 },
    { R_COLON, ",;:\r\na", 6 },
    { R_NL, ",;:\r\na", 6 },
    { R_SPECIFIC, ",;:\r\na", 6 },
};
#define UNION_ALPHA " ,;\n:*?EH1.-#\"()"
static const enum_def_t union_defs[] = { { R_DATA, UNION_ALPHA, 16 }, { R_ALLDATA, UNION_ALPHA, 16 }, { R_UNIT, UNION_ALPHA, 16 } };

#define BLK 4096
static int class_maxlen(int thorough) {
#if VH_ASAN
    return thorough ? 6 : 5;
#else
    return thorough ? 7 : 6;
#endif
}
static int union_maxlen(int thorough) {
#if VH_ASAN
    return thorough ? 5 : 4;
#else
    return thorough ? 6 : 5;
#endif
}
static uint64_t nstrings(int nsym, int maxlen) { uint64_t t = 0, p = 1; int l; for (l = 0; l <= maxlen; l++) { t += p; p *= (uint64_t) nsym; } return t; }
static uint64_t nblocks(const enum_def_t * defs, int ndefs, int maxlen) {
    uint64_t t = 0; int i;
    for (i = 0; i < ndefs; i++) t += (nstrings(defs[i].nsym, maxlen) + BLK - 1) / BLK;
    return t;
}
static void enum_block(const enum_def_t * defs, int ndefs, int maxlen, uint64_t idx) {
    int i, l, digits[16]; uint64_t g, gend, total, pw; const enum_def_t * d = NULL;
    unsigned char s[16];
    for (i = 0; i < ndefs; i++) {
        uint64_t nb = (nstrings(defs[i].nsym, maxlen) + BLK - 1) / BLK;
        if (idx < nb) { d = &defs[i]; break; }
        idx -= nb;
    }
    if (!d) return;
    total = nstrings(d->nsym, maxlen);
    g = idx * BLK; gend = g + BLK < total ? g + BLK : total;
    vh_case_desc("%s: all strings over \"%s\" up to length %d, string numbers %llu..%llu of %llu", fname[d->rec], vh_esc(d->alpha, (size_t) d->nsym), maxlen,
                 (unsigned long long) g, (unsigned long long) gend - 1, (unsigned long long) total);
    /* decode g: strings ordered by length, then as base-nsym numbers */
    { uint64_t rest = g; pw = 1; for (l = 0; rest >= pw; l++) { rest -= pw; pw *= (uint64_t) d->nsym; }
      for (i = l - 1; i >= 0; i--) { digits[i] = (int) (rest % (uint64_t) d->nsym); rest /= (uint64_t) d->nsym; } }
    for (; g < gend; g++) {
        const unsigned char * t = s; size_t L = (size_t) l; int chr = 0;
        vh_sub = g;
        for (i = 0; i < l; i++) s[i] = (unsigned char) d->alpha[digits[i]];
        if (d->rec == R_SPECIFIC) { if (L > 0) { chr = s[0]; t = s + 1; L--; } else chr = (unsigned char) d->alpha[0]; }
        place_all(d->rec, t, L, (const unsigned char *) d->alpha, d->nsym, g * 2654435761u + (uint64_t) d->rec, chr, 0, NULL);
        note_input(d->rec, t, L, 15, chr);
        if (g + 1 == gend && vh_want_sample()) {
            vh_sample("%s on every length-cut of \"%s\" (string %llu of %llu over a %d-symbol alphabet)", fname[d->rec], vh_esc(t, L), (unsigned long long) g, (unsigned long long) total, d->nsym);
        }
        /* next string */
        for (i = l - 1; i >= 0; i--) { if (++digits[i] < d->nsym) break; digits[i] = 0; }
        if (i < 0) { digits[l] = 0; l++; for (i = 0; i < l; i++) digits[i] = 0; }
    }
    flush_counters();
}

static uint64_t p0_count(int thorough) { return nblocks(class_defs, (int) (sizeof class_defs / sizeof class_defs[0]), class_maxlen(thorough)); }
static void p0_run(uint64_t idx, vh_rng_t * rng) { (void) rng; vh_watchdog(300); enum_block(class_defs, (int) (sizeof class_defs / sizeof class_defs[0]), class_maxlen(vh_args.thorough), idx); }
static uint64_t p1_count(int thorough) { return nblocks(union_defs, 3, union_maxlen(thorough)); }
static void p1_run(uint64_t idx, vh_rng_t * rng) { (void) rng; vh_watchdog(300); enum_block(union_defs, 3, union_maxlen(vh_args.thorough), idx); }

/* ---- byte sweep: every byte value substituted / inserted at every position of seed tokens -------------------- */
typedef struct { int rec; const char * seed; int len; } seed_t;
#define SD(r, s) { r, s, (int) sizeof(s) - 1 }
static const seed_t seeds[] = {
    SD(R_WS, " \t "), SD(R_HEADER, "*ab?"), SD(R_HEADER, ":a1:b_?"), SD(R_HEADER, "a:b"), SD(R_CHAR, "a1_b"),
    SD(R_DEC, "+1.2 e -3"), SD(R_DEC, ".5E1"), SD(R_DEC, "-12."), SD(R_SUFFIX, "/a-1.b2/c"), SD(R_SUFFIX, "mV"),
    SD(R_NONDEC, "#Hf0"), SD(R_NONDEC, "#q17"), SD(R_NONDEC, "#b01"), SD(R_STRING, "\"a\"\"b\""), SD(R_STRING, "'a''b'"),
    SD(R_BLOCK, "#12ab"), SD(R_BLOCK, "#210abcdefghij"), SD(R_EXPR, "(a 1)"), SD(R_COMMA, ","), SD(R_SEMI, ";"), SD(R_COLON, ":"),
    SD(R_NL, "\r\n"), SD(R_SPECIFIC, "xx"), SD(R_SPECIFIC, "\x80\x80"),
    SD(R_DATA, " #Hf0 "), SD(R_DATA, "1 e 2 mV "), SD(R_DATA, " 'a' "), SD(R_DATA, "#11a"), SD(R_DATA, "(1)"), SD(R_DATA, "ab1"), SD(R_DATA, "1 "),
    SD(R_ALLDATA, "1 , a,#11x,'s' ,(e)"), SD(R_ALLDATA, "1.5E12 V, abc_213as564, 10, #H123fe5A"),
    SD(R_UNIT, "*a? 1,2\r\n"), SD(R_UNIT, " a:b 1 V;"), SD(R_UNIT, "a?\n"), SD(R_UNIT, ":a:b #11x , 'q'"), SD(R_UNIT, "a \n"),
};
#define NSEEDS ((int) (sizeof seeds / sizeof seeds[0]))
static uint64_t p2_count(int thorough) { uint64_t t = 0; int i; (void) thorough; for (i = 0; i < NSEEDS; i++) t += 2 * (uint64_t) seeds[i].len + 1; return t; }
static void p2_run(uint64_t idx, vh_rng_t * rng) {
    int i, c; const seed_t * sd = NULL; unsigned char s[64]; static const unsigned char nb[] = " ,;\n:*?EH1.-#\"()'a/_0";
    (void) rng;
    for (i = 0; i < NSEEDS; i++) { uint64_t k = 2 * (uint64_t) seeds[i].len + 1; if (idx < k) { sd = &seeds[i]; break; } idx -= k; }
    if (!sd) return;
    vh_case_desc("%s: seed \"%s\", %s position %d, all 256 byte values", fname[sd->rec], vh_esc(sd->seed, (size_t) sd->len), idx < (uint64_t) sd->len ? "substitute at" : "insert at",
                 (int) (idx < (uint64_t) sd->len ? idx : idx - (uint64_t) sd->len));
    for (c = 0; c < 256; c++) {
        size_t L; const unsigned char * t = s; int chr = 0;
        vh_sub = (uint64_t) c;
        if (idx < (uint64_t) sd->len) { memcpy(s, sd->seed, (size_t) sd->len); s[idx] = (unsigned char) c; L = (size_t) sd->len; }
        else { size_t j = (size_t) (idx - (uint64_t) sd->len); memcpy(s, sd->seed, j); s[j] = (unsigned char) c; memcpy(s + j + 1, sd->seed + j, (size_t) sd->len - j); L = (size_t) sd->len + 1; }
        if (sd->rec == R_SPECIFIC) { chr = s[0]; t = s + 1; L--; }
        place_all(sd->rec, t, L, nb, (int) sizeof nb - 1, (uint64_t) c * 31 + idx, chr, 0, NULL);
        note_input(sd->rec, t, L, 0, chr);
    }
    vh_count("bytesweep.positions", 1);
    flush_counters();
}

/* ---- grammar-generated long tokens ----------------------------------------------------------------------------- */
static void gen_digits(vh_buf_t * b, vh_rng_t * rng, size_t n, const char * set) { size_t k = strlen(set); while (n--) vh_buf_addc(b, set[vh_below(rng, (uint32_t) k)]); }
static void gen_ws(vh_buf_t * b, vh_rng_t * rng, int maxn) { int n = (int) vh_below(rng, (uint32_t) maxn + 1); while (n--) vh_buf_addc(b, vh_chance(rng, 1, 3) ? '\t' : ' '); }
static size_t biglen_(vh_rng_t * rng, size_t big);
/* run lengths at the wrap-around points of 8-bit counters and around usual buffer sizes get their own share */
static size_t biglen(vh_rng_t * rng, size_t big) {
    static const size_t edge[] = { 63, 64, 65, 127, 128, 129, 255, 256, 257, 511, 512, 513, 768 };
    if (vh_chance(rng, 1, 4)) { size_t e = edge[vh_below(rng, sizeof edge / sizeof edge[0])]; if (e == 256 || e == 512 || e == 768) vh_count("long.runs_of_a_multiple_of_256", 1); return e; }
    return biglen_(rng, big);
}
static size_t biglen_(vh_rng_t * rng, size_t big) { return vh_chance(rng, 1, 3) ? big : (vh_chance(rng, 1, 2) ? vh_below(rng, (uint32_t) big) + 1 : vh_below(rng, 12) + 1); }
static void gen_mnemonic(vh_buf_t * b, vh_rng_t * rng, size_t n) {
    vh_buf_addc(b, "aZqB"[vh_below(rng, 4)]);
    while (n-- > 1) vh_buf_addc(b, "abcXYZ0189__"[vh_below(rng, 12)]);
}
static void gen_decimal(vh_buf_t * b, vh_rng_t * rng, size_t big) {
    if (vh_chance(rng, 1, 2)) vh_buf_addc(b, vh_chance(rng, 1, 2) ? '+' : '-');
    switch (vh_below(rng, 3)) {
        case 0: gen_digits(b, rng, biglen(rng, big), "0123456789"); if (vh_chance(rng, 1, 2)) { vh_buf_addc(b, '.'); gen_digits(b, rng, vh_chance(rng, 1, 2) ? 0 : biglen(rng, big), "0123456789"); } break;
        case 1: vh_buf_addc(b, '.'); gen_digits(b, rng, biglen(rng, big), "0123456789"); break;
        default: gen_digits(b, rng, biglen(rng, big), "0123456789"); break;
    }
    if (vh_chance(rng, 1, 2)) {
        gen_ws(b, rng, vh_chance(rng, 1, 4) ? 40 : 1); vh_buf_addc(b, vh_chance(rng, 1, 2) ? 'E' : 'e'); gen_ws(b, rng, vh_chance(rng, 1, 4) ? 40 : 1);
        if (vh_chance(rng, 1, 2)) vh_buf_addc(b, vh_chance(rng, 1, 2) ? '+' : '-');
        gen_digits(b, rng, biglen(rng, big), "0123456789");
    }
}
static void gen_suffix(vh_buf_t * b, vh_rng_t * rng, int parts) {
    if (vh_chance(rng, 1, 3)) vh_buf_addc(b, '/');
    do {
        gen_digits(b, rng, vh_below(rng, 6) + 1, "mVAHzsOHMkabc");
        if (vh_chance(rng, 1, 2)) { if (vh_chance(rng, 1, 2)) vh_buf_addc(b, '-'); vh_buf_addc(b, (int) ('0' + vh_below(rng, 10))); }
        if (--parts > 0) vh_buf_addc(b, vh_chance(rng, 1, 2) ? '/' : '.');
    } while (parts > 0);
}
static void gen_string(vh_buf_t * b, vh_rng_t * rng, size_t n) {
    int q = vh_chance(rng, 1, 2) ? '"' : '\'';
    vh_buf_addc(b, q);
    while (n--) {
        uint32_t k = vh_below(rng, 20);
        if (k == 0) { vh_buf_addc(b, q); vh_buf_addc(b, q); }
        else if (k == 1) vh_buf_addc(b, 0);
        else if (k == 2) vh_buf_addc(b, q == '"' ? '\'' : '"');
        else if (k == 3) vh_buf_addc(b, "\r\n;,#()\x7f"[vh_below(rng, 8)]);
        else { int c = (int) vh_below(rng, 128); vh_buf_addc(b, c == q ? 'x' : c); }
    }
    vh_buf_addc(b, q);
}
static void gen_block(vh_buf_t * b, vh_rng_t * rng, size_t n) {
    char hdr[16]; int nd, w; size_t i;
    w = snprintf(hdr, sizeof hdr, "%zu", n);
    nd = w + (int) vh_below(rng, (uint32_t) (10 - w)) * (vh_chance(rng, 1, 3) ? 1 : 0); /* sometimes leading zeros */
    vh_buf_printf(b, "#%d%0*zu", nd, nd, n);
    for (i = 0; i < n; i++) vh_buf_addc(b, vh_chance(rng, 1, 4) ? (int) vh_below(rng, 256) : "\0\r\n;,\"#ab\xff\x80"[vh_below(rng, 12)]);
}
static void gen_expr(vh_buf_t * b, vh_rng_t * rng, size_t n) {
    vh_buf_addc(b, '(');
    while (n--) { int c = 0x20 + (int) vh_below(rng, 0x5f); if (c == '"' || c == '#' || c == '\'' || c == '(' || c == ')' || c == ';') c = '@'; vh_buf_addc(b, c); }
    vh_buf_addc(b, ')');
}
static void gen_header(vh_buf_t * b, vh_rng_t * rng, size_t big) {
    if (vh_chance(rng, 1, 4)) { vh_buf_addc(b, '*'); gen_mnemonic(b, rng, biglen(rng, big)); }
    else { int parts = 1 + (int) vh_below(rng, vh_chance(rng, 1, 4) ? 200 : 4); if (vh_chance(rng, 1, 3)) vh_buf_addc(b, ':');
           while (parts--) { gen_mnemonic(b, rng, vh_chance(rng, 1, 8) ? biglen(rng, big) : vh_below(rng, 8) + 1); if (parts) vh_buf_addc(b, ':'); } }
    if (vh_chance(rng, 1, 2)) vh_buf_addc(b, '?');
}
static void gen_item(vh_buf_t * b, vh_rng_t * rng, size_t big) {
    switch (vh_below(rng, 8)) {
        case 0: gen_decimal(b, rng, big); break;
        case 1: gen_decimal(b, rng, 6); gen_ws(b, rng, 2); gen_suffix(b, rng, 1 + (int) vh_below(rng, 3)); break;
        case 2: gen_mnemonic(b, rng, biglen(rng, big)); break;
        case 3: vh_buf_adds(b, "#"); { int k = (int) vh_below(rng, 3); vh_buf_addc(b, "HQBhqb"[k + 3 * (int) vh_below(rng, 2)]); gen_digits(b, rng, biglen(rng, big), k == 0 ? "0123456789abcdefABCDEF" : k == 1 ? "01234567" : "01"); } break;
        case 4: gen_string(b, rng, biglen(rng, big)); break;
        case 5: gen_block(b, rng, vh_chance(rng, 1, 8) ? 0 : biglen(rng, big)); break;
        case 6: gen_expr(b, rng, biglen(rng, big)); break;
        default: gen_decimal(b, rng, 4); gen_ws(b, rng, 3); break; /* plain number followed by white space */
    }
}
static void gen_list(vh_buf_t * b, vh_rng_t * rng, size_t big) {
    int items = 1 + (int) vh_below(rng, vh_chance(rng, 1, 5) ? 60 : 4);
    while (items--) { gen_ws(b, rng, 2); gen_item(b, rng, vh_chance(rng, 1, 4) ? big : 8); gen_ws(b, rng, 2); if (items) vh_buf_addc(b, ','); }
}
static void mutate(vh_buf_t * b, vh_rng_t * rng) {
    static const char junk[] = " ,;\n\r:*?E1.-#\"'()/_\x80\0@";
    size_t at;
    switch (vh_below(rng, 8)) {
        case 0: case 1: case 2: return;
        case 3: if (b->len) b->len = vh_below(rng, (uint32_t) b->len); return;                                        /* truncate */
        case 4: if (b->len) b->p[vh_below(rng, (uint32_t) b->len)] = (char) vh_below(rng, 256); return;               /* corrupt a byte */
        case 5: if (b->len) b->p[vh_below(rng, (uint32_t) b->len)] = junk[vh_below(rng, sizeof junk - 1)]; return;    /* corrupt with a syntax character */
        case 6: vh_buf_addc(b, junk[vh_below(rng, sizeof junk - 1)]); return;                                         /* trailing character */
        default: at = b->len ? vh_below(rng, (uint32_t) b->len) : 0; vh_buf_addc(b, 0); memmove(b->p + at + 1, b->p + at, b->len - 1 - at); b->p[at] = junk[vh_below(rng, sizeof junk - 1)]; return; /* insert */
    }
}
static uint64_t p3_count(int thorough) {
#if VH_ASAN
    return vh_scaled(thorough ? 40000 : 6000);
#else
    return vh_scaled(thorough ? 400000 : 40000);
#endif
}
static void p3_run(uint64_t idx, vh_rng_t * rng) {
    static vh_buf_t b; static const unsigned char nb[] = " ,;\n:*?E1.-#\"()'a/0";
    int kind = (int) (idx % 13), rec = R_DATA, chr = 0; size_t big = vh_chance(rng, 1, 3) ? 1000 : 300;
    vh_buf_reset(&b);
    switch (kind) {
        case 0: rec = R_DEC; gen_decimal(&b, rng, big); break;
        case 1: rec = R_HEADER; gen_header(&b, rng, big); break;
        case 2: rec = R_CHAR; gen_mnemonic(&b, rng, biglen(rng, big)); break;
        case 3: rec = R_SUFFIX; gen_suffix(&b, rng, 1 + (int) vh_below(rng, 100)); break;
        case 4: rec = R_NONDEC; { int k = (int) vh_below(rng, 3); vh_buf_addc(&b, '#'); vh_buf_addc(&b, "HQBhqb"[k + 3 * (int) vh_below(rng, 2)]); gen_digits(&b, rng, biglen(rng, big), k == 0 ? "0123456789abcdefABCDEF" : k == 1 ? "01234567" : "01"); } break;
        case 5: rec = R_STRING; gen_string(&b, rng, biglen(rng, big)); break;
        case 6: rec = R_BLOCK; gen_block(&b, rng, vh_chance(rng, 1, 10) ? 0 : biglen(rng, big)); break;
        case 7: rec = R_EXPR; gen_expr(&b, rng, biglen(rng, big)); break;
        case 8: rec = R_WS; gen_ws(&b, rng, (int) big); break;
        case 9: rec = R_DATA; gen_ws(&b, rng, 3); gen_item(&b, rng, big); gen_ws(&b, rng, 3); break;
        case 10: rec = R_ALLDATA; gen_list(&b, rng, big); break;
        default: rec = R_UNIT; gen_ws(&b, rng, 2); gen_header(&b, rng, 12); if (vh_chance(rng, 7, 8)) { vh_buf_addc(&b, ' '); gen_ws(&b, rng, 2); if (vh_chance(rng, 9, 10)) gen_list(&b, rng, big); }
                 vh_buf_adds(&b, (const char *[]) { "", "\n", "\r\n", ";", "\r", ";*a" }[vh_below(rng, 6)]); break;
    }
    mutate(&b, rng);
    vh_case_desc("generated %s input, %zu bytes: \"%s\"", rname[rec], b.len, vh_esc(b.p, b.len));
    {
        /* exact-size heap copy in both flavours */
        unsigned char * e = (unsigned char *) malloc(b.len);
        if (b.len) memcpy(e, b.p, b.len);
        probe(rec, e, 0, b.len, 0, chr); kc[K_MODE_EXACT]++;
        if (rec != R_DATA && rec != R_ALLDATA && rec != R_UNIT) { probe(R_DATA, e, 0, b.len, 0, 0); probe(R_ALLDATA, e, 0, b.len, 0, 0); }
        if (rec == R_DATA) probe(R_ALLDATA, e, 0, b.len, 0, 0);
        free(e);
    }
    place_all(rec, (const unsigned char *) b.p, b.len, nb, (int) sizeof nb - 1, vh_rand(rng), chr, 6, rng);
    note_input(rec, (const unsigned char *) b.p, b.len, 0, chr);
    vh_count("long.cases", 1);
    if (vh_want_sample()) vh_sample("%s on generated %zu-byte input \"%s\"", fname[rec], b.len, vh_esc(b.p, b.len > 60 ? 60 : b.len));
    flush_counters();
}

/* ---- random byte strings ------------------------------------------------------------------------------------------ */
static uint64_t p4_count(int thorough) {
#if VH_ASAN
    return vh_scaled(thorough ? 300000 : 30000);
#else
    return vh_scaled(thorough ? 3000000 : 300000);
#endif
}
static void p4_run(uint64_t idx, vh_rng_t * rng) {
    static const unsigned char pool[] = " \t,;\r\n:*?aEeHhQqBbZzFfGg019872.+-#\"'()/_@[`{\x7f\x80\xff\0\x1f~!";
    unsigned char s[40]; size_t L = vh_below(rng, vh_chance(rng, 1, 4) ? 33 : 13), i; int rec = (int) (idx % R__N), chr = 0;
    const unsigned char * t = s;
    for (i = 0; i < L; i++) s[i] = vh_chance(rng, 1, 5) ? (unsigned char) vh_below(rng, 256) : pool[vh_below(rng, sizeof pool - 1)];
    if (rec == R_SPECIFIC) { if (L) { chr = s[0]; t = s + 1; L--; if (L && vh_chance(rng, 1, 2)) s[1] = s[0]; } else chr = 'x'; }
    if ((idx & 255) == 0) vh_case_desc("random bytes for %s: \"%s\"", rname[rec], vh_esc(t, L));
    place_all(rec, t, L, pool, (int) sizeof pool - 1, vh_rand(rng), chr, 0, NULL);
    note_input(rec, t, L, 3, chr);
    if ((idx & 1023) == 1023 || idx + (uint64_t) vh_args.nshards >= p4_count(vh_args.thorough)) flush_counters();
    vh_count("random.cases", 1);
}

/* keep counters that were not flushed by the last random cases */
static uint64_t p5_count(int thorough) { (void) thorough; return (uint64_t) (vh_args.nshards > 0 ? vh_args.nshards : 1); }
static void p5_run(uint64_t idx, vh_rng_t * rng) { (void) idx; (void) rng; flush_counters(); }

/* ---- long parameter lists: a unit with N comma-separated items is well formed for every N (sweep of N past the ranges of
 * small integer types); checked directly against what the unit was built from ------------------------------------ */
static uint64_t p6_count(int thorough) { return thorough ? 1200 : 420; }
static void p6_run(uint64_t idx, vh_rng_t * rng) {
    static const char * const items[] = { "1", "-2.5", "#HFF", "MIN", "\"s,\"\"x\"", "'q'", "(1,2)", "#13a,b", "3 V", "4e-2" };
    int N = 1 + (int) idx, i, np = -7; vh_buf_t b = { 0, 0, 0 }; size_t datoff, hdrlen = 6; scpi_parser_state_t st; int ret; char * buf;
    int style = (int) vh_below(rng, 3); const char * term = vh_chance(rng, 1, 2) ? "\n" : (vh_chance(rng, 1, 2) ? ";" : "");
    vh_buf_adds(&b, "DATA:X "); datoff = b.len;
    for (i = 0; i < N; i++) { if (i) vh_buf_adds(&b, style == 2 && (i & 7) == 0 ? " , " : ","); vh_buf_adds(&b, style == 0 ? "1" : items[vh_below(rng, 10)]); }
    { size_t datalen = b.len - datoff; size_t tl = strlen(term);
      vh_buf_adds(&b, term);
      vh_case_desc("unit with %d parameters (%zu bytes)", N, b.len);
      buf = (char *) malloc(b.len ? b.len : 1); memcpy(buf, b.p, b.len); /* exact size */
      memset(&st, 0x5A, sizeof st);
      ret = scpiParser_detectProgramMessageUnit(&st, buf, (int) b.len);
      vh_eval(1);
      if (st.numberOfParameters != N) vh_violation("C13:unit-parameter-count-long-list", "unit with %d well-formed parameters: numberOfParameters = %d", N, st.numberOfParameters);
      else if (st.programHeader.type != SCPI_TOKEN_COMPOUND_PROGRAM_HEADER || (size_t) st.programHeader.len != hdrlen || st.programHeader.ptr != buf) vh_violation("C13:unit-header-long-list", "unit with %d parameters: header type %d len %d", N, (int) st.programHeader.type, st.programHeader.len);
      else if (st.programData.ptr != buf + datoff || (size_t) st.programData.len != datalen || st.programData.type != SCPI_TOKEN_ALL_PROGRAM_DATA) vh_violation("C13:unit-data-extent-long-list", "unit with %d parameters: program data offset %ld len %d type %d, expected offset %zu len %zu", N, (long) (st.programData.ptr - buf), st.programData.len, (int) st.programData.type, datoff, datalen);
      else if ((size_t) ret != b.len) vh_violation("C13:unit-length-long-list", "unit with %d parameters: consumed %d of %zu bytes", N, ret, b.len);
      else if ((int) st.termination != (tl == 0 ? SCPI_MESSAGE_TERMINATION_NONE : term[0] == ';' ? SCPI_MESSAGE_TERMINATION_SEMICOLON : SCPI_MESSAGE_TERMINATION_NL)) vh_violation("C13:unit-termination-long-list", "unit with %d parameters: termination %d", N, (int) st.termination);
      else {
          /* the list recogniser on its own */
          lex_state_t ls; scpi_token_t tk; ls.buffer = ls.pos = buf + datoff; ls.len = (int) datalen; memset(&tk, 0x5A, sizeof tk);
          scpiParser_parseAllProgramData(&ls, &tk, &np);
          if (np != N || (size_t) tk.len != datalen) vh_violation("C13:alldata-count-long-list", "list of %d items: count %d len %d", N, np, tk.len);
          else vh_count("longlist.units", 1);
      }
      free(buf);
    }
    if (N > 127) vh_count("longlist.more_than_127_items", 1);
    if (N > 255) vh_count("longlist.more_than_255_items", 1);
    vh_distinct(vh_hash(b.p, b.len, 66));
    vh_buf_free(&b);
}

/* ---- well-formed units delivered through the input function in one piece and cut in two at EVERY position: the unit is accepted (its
 * handler runs once, sees all N items, nothing is queued) wherever the cut falls - inside #H before its first digit, inside an unclosed
 * expression, inside a string or block that contains a line terminator -------------------------------------------------------------------- */
static int p7_inv, p7_items;
static scpi_result_t p7_handler(scpi_t * c) { scpi_parameter_t p; p7_inv++; while (SCPI_Parameter(c, &p, FALSE)) p7_items++; return SCPI_RES_OK; }
static const scpi_command_t p7_cmds[] = { { "DATA:X", p7_handler, 0 }, SCPI_CMD_LIST_END };
static uint64_t p7_count(int thorough) { return vh_scaled(thorough ? 60000 : 6000); }
static void p7_run(uint64_t idx, vh_rng_t * rng) {
    static const char * const items[] = { "1", "-2.5e3", "#HFF", "#Q17", "#B101", "#h0", "MIN", "\"s,\"\"x\"", "'q'", "'a\nb'", "\"\r\n;\"", "(1,2)", "(@1!2:3!4)", "#13a,b", "#14\n;\r\"", "#0" /* replaced below */, "3 V", "4 e-2", "''" };
    int N = 1 + (int) vh_below(rng, 5), i; vh_buf_t b = { 0, 0, 0 }; size_t k; vh_ctx_t * v;
    (void) idx;
    vh_buf_adds(&b, vh_chance(rng, 1, 2) ? "DATA:X " : ":data:x\t");
    for (i = 0; i < N; i++) { const char * it = items[vh_below(rng, sizeof items / sizeof items[0])]; if (strcmp(it, "#0") == 0) it = "#210abc\ndef;,\""; if (i) vh_buf_adds(&b, vh_chance(rng, 1, 4) ? " , " : ","); vh_buf_adds(&b, it); }
    vh_buf_adds(&b, vh_chance(rng, 1, 3) ? "\r\n" : "\n");
    vh_case_desc("unit \"%s\" (%d items) whole and cut in two at every position", vh_esc(b.p, b.len), N);
    for (k = 0; k < b.len; k++) { /* k == 0: in one piece */
        v = vh_ctx_new(p7_cmds, 128, 4, 64); v->log_enabled = 0;
        p7_inv = p7_items = 0;
        if (k) { vh_input(v, b.p, k); vh_input(v, b.p + k, b.len - k); } else vh_input(v, b.p, b.len);
        vh_eval(1);
        if (p7_inv != 1 || p7_items != N || v->nerrs || v->ctx->buffer.position != 0) {
            vh_violation(k ? "C13:wellformed-unit-not-accepted-when-cut-in-two" : "C13:wellformed-unit-not-accepted", "unit \"%s\" with %d items %s%zu: handler ran %d time(s) and saw %d item(s), %d error(s) (first %d), %zu byte(s) left pending",
                         vh_esc(b.p, b.len), N, k ? "cut before byte " : "in one piece, ", k, p7_inv, p7_items, v->nerrs, v->nerrs ? v->errs[0] : 0, (size_t) v->ctx->buffer.position);
            vh_ctx_free(v); break;
        }
        vh_ctx_free(v);
    }
    /* two messages of EQUAL byte length but different shape in ONE input call (and in the other order): what was recognised for the first
     * (header extent, data extent, item count) must not be applied to the second just because it lies at the same place with the same length */
    {
        size_t tl = (b.len >= 2 && b.p[b.len - 2] == '\r') ? 2 : 1, hl = 7; /* "DATA:X " */
        if (b.len >= hl + 2 + tl) {
            vh_buf_t u2 = { 0, 0, 0 }, both = { 0, 0, 0 }; size_t fill = b.len - hl - 2 - tl, j; int order;
            vh_buf_adds(&u2, "data:x "); vh_buf_addc(&u2, '\''); for (j = 0; j < fill; j++) vh_buf_addc(&u2, j % 5 == 2 ? ',' : (char) ('a' + j % 26)); vh_buf_addc(&u2, '\''); vh_buf_add(&u2, b.p + b.len - tl, tl);
            for (order = 0; order < 2; order++) {
                vh_buf_reset(&both);
                if (order) { vh_buf_add(&both, u2.p, u2.len); vh_buf_add(&both, b.p, b.len); } else { vh_buf_add(&both, b.p, b.len); vh_buf_add(&both, u2.p, u2.len); }
                v = vh_ctx_new(p7_cmds, both.len + 8, 4, 64); v->log_enabled = 0;
                p7_inv = p7_items = 0;
                vh_input(v, both.p, both.len);
                vh_eval(1);
                if (p7_inv != 2 || p7_items != N + 1 || v->nerrs || v->ctx->buffer.position != 0)
                    vh_violation("C13:wellformed-units-of-equal-length-in-one-call", "\"%s\" in one input call: handler ran %d time(s) and saw %d item(s) in all (expected 2 and %d), %d error(s) (first %d)",
                                 vh_esc(both.p, both.len), p7_inv, p7_items, N + 1, v->nerrs, v->nerrs ? v->errs[0] : 0);
                vh_ctx_free(v);
            }
            vh_count("input.two_messages_of_equal_length_in_one_call", 1);
            vh_buf_free(&u2); vh_buf_free(&both);
        }
    }
    vh_count("input.units_cut_in_two_at_every_position", 1);
    vh_distinct(vh_hash(b.p, b.len, 77));
    vh_buf_free(&b);
}

int main(int argc, char ** argv) {
    static const vh_phase_t phases[] = {
        { "longlists", p6_count, p6_run },
        { "units through the input function", p7_count, p7_run },
        { "enum-class", p0_count, p0_run },
        { "enum-union", p1_count, p1_run },
        { "bytesweep", p2_count, p2_run },
        { "long", p3_count, p3_run },
        { "random", p4_count, p4_run },
        { "flush", p5_count, p5_run },
    };
    int r; char nm[64];
    for (r = 0; r < R__N; r++) {
        snprintf(nm, sizeof nm, "%s.accepted", rname[r]); vh_require(nm);
        snprintf(nm, sizeof nm, "%s.rejected", rname[r]); vh_require(nm);
    }
    vh_require("block.incomplete"); vh_require("data.incomplete"); vh_require("alldata.incomplete");
    vh_require("unit.bare"); vh_require("unit.ws_only"); vh_require("unit.with_data"); vh_require("unit.malformed");
    vh_require("unit.term_nl"); vh_require("unit.term_semicolon"); vh_require("unit.term_end");
    vh_require("mode.len_cut.text_continues_after_cut"); vh_require("input.with_8bit_byte"); vh_require("input.with_nul_byte"); vh_require("input.longer_than_255");
    vh_require("string.incomplete"); vh_require("alldata.dangling_comma");
    vh_require("long.runs_of_a_multiple_of_256");
    vh_require("longlist.units"); vh_require("input.units_cut_in_two_at_every_position");
    return vh_main(argc, argv, "C13", phases, 8);
}
