"""Registry of checks: sources, build flavours per tier, evidence rule text."""

def _b(*pairs):
    return [tuple(p.split("-")) for p in pairs]

CHECKS = {}
NOT_APPLICABLE = {}

def add(cid, src, quick, thorough, rule, **kw):
    more = kw.pop("rule_more", "")
    if more:
        rule = rule + " | dimensions added while the checks met the seeded changes (DESIGN.md section 6): " + more
    d = dict(id=cid, sources=[src] + kw.pop("extra_sources", []), builds=dict(quick=_b(*quick), thorough=_b(*thorough)), rule=rule)
    d.update(kw)
    CHECKS[cid] = d


import glob as _glob, os as _os
for _f in sorted(_glob.glob(_os.path.join(_os.path.dirname(_os.path.abspath(__file__)), "reg", "*.py"))):
    exec(compile(open(_f).read(), _f, "exec"))
