/* C01 - no out-of-bounds access, undefined behaviour or hang on any input stream.
 * Workload generator + driver phases; the deciding oracle is the sanitizer build (see c01_core.h). */
#include "c01_core.h"

#define MAXS 700
typedef struct { unsigned char b[MAXS]; size_t n; } stream_t;
static void put(stream_t * s, const void * d, size_t n) { if (s->n + n < MAXS) { memcpy(s->b + s->n, d, n); s->n += n; } }
static void puts_(stream_t * s, const char * t) { put(s, t, strlen(t)); }
static void putc_(stream_t * s, int c) { unsigned char ch = (unsigned char) c; put(s, &ch, 1); }

static const char * const headers[] = { "*CLS", "*ESE", "*ESE?", "*ESR?", "*IDN?", "*OPC", "*OPC?", "*RST", "*SRE", "*SRE?", "*STB?", "*TST?", "*WAI", "SYST:ERR?", "SYSTem:ERRor:NEXT?",
    "SYST:ERR:COUN?", "SYST:VERS?", "STAT:QUES?", "STAT:QUES:ENAB", "STAT:QUES:ENAB?", "STAT:OPER?", "STAT:OPER:ENAB", "STAT:PRES", "A", "B?", "TEST1:VAL2", "TEST:VALUE33:SUB4",
    "test:val", "MEAS:VOLT:DC?", ":VOLT?", "VOLTage:DC?", "CONF:TEXT", "DATA:BLOC", "DATA:ARR?", "ROUT:CLOS", "X", "Y?", "Z", "W?", "TEST:MISC?", "TEST7:MISC:X9?", "SYST:PUSH", "DATA:ANN?", "DATA:ANNOUNCE?",
    "FOO", "*FOO?", "VAL2", "SUB", "ERR?", ":", "*", "SYST:", "TEST99999999999:VAL", "A1", "MEAS:VOLT:DC:X?", "??", "A:B:C:D:E:F:G:H", "BLOC" };
#define NH (sizeof headers / sizeof headers[0])

static void gen_number(vh_rng_t * r, stream_t * s) {
    static const char * const nums[] = { "0", "1", "-1", "+5", "12.5", ".5", "5.", "1e3", "1E+3", "1 E 3", "1e", "1e+", "-", "+", ".", "9999999999999999999999", "1e400", "-1e-400", "0x10", "1.2.3",
        "#H", "#HFF", "#hffffffffffffffffff", "#Q777", "#Q8", "#B101", "#B2", "#", "4294967296", "-2147483649", "18446744073709551616", "1e-320", "00000000000000000000000000000001", "99999999", "100000000", "999999999", "1000000000", "4294967295", "4294967296", "10000000000", "99999999999", "18446744073709551615" };
    static const char * const sufs[] = { "", "V", " V", "MV", " kohm", "HZ", "FOO", " E", "V/S", "V.S-1", "/", "M-", "S2", " DBM", "mhz", "EV" };
    if (vh_chance(r, 1, 6)) {
        /* long decimal tokens with the white space 488.2 allows around the exponent mark: total non-blank length swept around
         * the sizes of conversion buffers a decoder may use (16, 32, 64, 128) */
        static const int around[] = { 16, 32, 64, 128 };
        int target = around[vh_below(r, 4)] - 4 + (int) vh_below(r, 9), nd, i; char e[16]; int el;
        el = snprintf(e, sizeof e, "%s%d", vh_chance(r, 1, 2) ? "-" : (vh_chance(r, 1, 2) ? "+" : ""), (int) vh_below(r, 300));
        if (vh_chance(r, 1, 4)) {
            /* the exponent's digit run is as unbounded as the mantissa's (leading zeros): a short mantissa, blanks at the mark, 6..600 exponent digits */
            static const int zl[] = { 3, 5, 6, 7, 8, 15, 31, 60, 62, 63, 64, 65, 70, 71, 72, 130, 600 }; int z = zl[vh_below(r, sizeof zl / sizeof zl[0])], i2, md = 1 + (int) vh_below(r, vh_chance(r, 1, 2) ? 3 : 63);
            if (vh_chance(r, 1, 3)) putc_(s, '-');
            for (i2 = 0; i2 < md; i2++) putc_(s, '0' + (int) vh_below(r, 10));
            if (vh_chance(r, 3, 4)) putc_(s, ' ');
            putc_(s, vh_chance(r, 1, 2) ? 'E' : 'e');
            if (vh_chance(r, 1, 2)) putc_(s, ' ');
            if (vh_chance(r, 1, 2)) putc_(s, vh_chance(r, 1, 2) ? '+' : '-');
            for (i2 = 0; i2 < z; i2++) putc_(s, '0');
            putc_(s, '0' + (int) vh_below(r, 10));
            vh_count("numbers.exponent_zero_padded_to_many_digits", 1);
            return;
        }
        nd = target - 1 - el - (vh_chance(r, 1, 2) ? 1 : 0); if (nd < 1) nd = 1;
        if (vh_chance(r, 1, 3)) putc_(s, '-');
        for (i = 0; i < nd; i++) { if (i == nd / 2 && vh_chance(r, 1, 2)) putc_(s, '.'); putc_(s, '0' + (int) vh_below(r, 10)); }
        if (vh_chance(r, 2, 3)) putc_(s, ' ');
        putc_(s, vh_chance(r, 1, 2) ? 'E' : 'e');
        if (vh_chance(r, 1, 2)) putc_(s, ' ');
        puts_(s, e);
        if (vh_chance(r, 1, 3)) puts_(s, sufs[vh_below(r, sizeof sufs / sizeof sufs[0])]);
        return;
    }
    puts_(s, nums[vh_below(r, sizeof nums / sizeof nums[0])]);
    if (vh_chance(r, 1, 3)) puts_(s, sufs[vh_below(r, sizeof sufs / sizeof sufs[0])]);
}
static void gen_string(vh_rng_t * r, stream_t * s) {
    char q = vh_chance(r, 1, 2) ? '"' : '\''; size_t m = vh_below(r, 14), i;
    putc_(s, q);
    for (i = 0; i < m; i++) { uint32_t k = vh_below(r, 12); int c = k == 0 ? q : k == 1 ? '\n' : k == 2 ? ';' : k == 3 ? 0x80 + (int) vh_below(r, 128) : k == 4 ? (int) vh_below(r, 32) : 'a' + (int) vh_below(r, 26); putc_(s, c); if (c == q && vh_chance(r, 4, 5)) putc_(s, q); }
    if (vh_chance(r, 7, 8)) putc_(s, q);
}
static void gen_block(vh_rng_t * r, stream_t * s) {
    size_t m = vh_below(r, 20), i; char h[24]; int n;
    switch (vh_below(r, 8)) {
        case 0: n = snprintf(h, sizeof h, "#9%09zu", m); break;
        case 1: n = snprintf(h, sizeof h, "#%zu", m % 10); break;                 /* length digits missing */
        case 2: n = snprintf(h, sizeof h, "#9999999999"); break;                   /* huge announced length */
        case 3: n = snprintf(h, sizeof h, "#0"); break;
        case 4: n = snprintf(h, sizeof h, "#2%02zu", m + 3); break;               /* longer than the data */
        default: n = snprintf(h, sizeof h, "#%d%zu", m >= 10 ? 2 : 1, m); break;
    }
    put(s, h, (size_t) n);
    for (i = 0; i < m; i++) putc_(s, (int) (vh_rand(r) & 0xff));
}
static void gen_expr(vh_rng_t * r, stream_t * s) {
    static const char * const ex[] = { "(1,2,3)", "(1:2)", "(@1!2!3!4!5!6:7!8!9!1!2!3,4)", "(@1,2:3)", "(", "()", "(@)", "(1:)", "(@1!)", "(1,,2)", "(-1.5e3:+.5)", "(@1:2!3)", "(1 2)", "(((", "(a)", "(@999999999999!1)" };
    puts_(s, ex[vh_below(r, sizeof ex / sizeof ex[0])]);
}
static void gen_data(vh_rng_t * r, stream_t * s) {
    switch (vh_below(r, 9)) {
        case 0: case 1: gen_number(r, s); break;
        case 2: gen_string(r, s); break;
        case 3: gen_block(r, s); break;
        case 4: gen_expr(r, s); break;
        case 5: { static const char * const mn[] = { "MIN", "MAXimum", "ON", "OFF", "LOW", "HIGH", "abc_1", "INF", "NAN", "DEF", "X" }; puts_(s, mn[vh_below(r, 11)]); break; }
        case 6: break; /* empty */
        case 7: { int k = 1 + (int) vh_below(r, 4); while (k--) putc_(s, (int) (vh_rand(r) & 0xff)); break; }
        default: { int k = 1 + (int) vh_below(r, 6); while (k--) { gen_number(r, s); if (k) putc_(s, ','); } break; }
    }
}
static void gen_stream(vh_rng_t * r, stream_t * s) {
    int nm = 1 + (int) vh_below(r, 5), m, u, p;
    s->n = 0;
    for (m = 0; m < nm && s->n < MAXS - 200; m++) {
        int nu = 1 + (int) vh_below(r, 3);
        for (u = 0; u < nu; u++) {
            int np = (int) vh_below(r, 5);
            if (u) puts_(s, vh_chance(r, 1, 5) ? " ; " : ";");
            if (vh_chance(r, 1, 8)) putc_(s, vh_chance(r, 1, 2) ? ' ' : '\t');
            if (vh_chance(r, 1, 10)) putc_(s, ':');
            puts_(s, headers[vh_below(r, NH)]);
            if (np) { putc_(s, vh_chance(r, 1, 10) ? '\t' : ' '); for (p = 0; p < np; p++) { if (p) puts_(s, vh_chance(r, 1, 4) ? " , " : ","); gen_data(r, s); } }
        }
        switch (vh_below(r, 7)) { case 0: puts_(s, "\r\n"); break; case 1: putc_(s, '\r'); break; case 2: break; default: putc_(s, '\n'); }
    }
}
static void mutate(vh_rng_t * r, stream_t * s) {
    int k = 1 + (int) vh_below(r, 4);
    static const unsigned char cls[] = { 0, ' ', '\t', '\n', '\r', '"', '\'', '#', '(', ')', ',', ';', ':', '*', '?', '+', '-', '.', 'e', 'E', '0', '9', 'a', 'Z', '_', '/', '!', '@', 0x7f, 0x80, 0xff };
    while (k-- && s->n > 0) {
        size_t p = vh_below(r, (uint32_t) s->n);
        switch (vh_below(r, 6)) {
            case 0: s->b[p] = cls[vh_below(r, sizeof cls)]; break;
            case 1: s->b[p] = (unsigned char) vh_rand(r); break;
            case 2: memmove(s->b + p, s->b + p + 1, s->n - p - 1); s->n--; break;
            case 3: if (s->n < MAXS - 1) { memmove(s->b + p + 1, s->b + p, s->n - p); s->b[p] = cls[vh_below(r, sizeof cls)]; s->n++; } break;
            case 4:
                    /* duplicate a slice at the end */ { size_t l = vh_below(r, 16); if (p + l <= s->n && s->n + l < MAXS) { memmove(s->b + s->n, s->b + p, l); s->n += l; } } break;
            default: s->n = p; break;
        }
    }
}

static void cfg_random(vh_rng_t * r, c01_cfg_t * c, size_t n) {
    uint32_t k = vh_below(r, 10);
    c->bufsize = k < 3 ? 2 + vh_below(r, 30) : k < 6 ? n + 1 + vh_below(r, 3) : k < 8 ? 2 + vh_below(r, 319) : 256;
    c->queue_len = 1 + (int) vh_below(r, 4); c->heap_len = 2 + vh_below(r, 63);
    c->seg_seed = vh_rand(r); c->sig_seed = vh_rand(r); c->mode = (int) vh_below(r, 3);
}
static void one(const stream_t * s, const c01_cfg_t * c, const char * what) {
    const char * bad;
    vh_case_desc("%s: stream \"%s\" (%zu bytes) buffer %zu queue %d heap %zu mode %d", what, vh_esc(s->b, s->n), s->n, c->bufsize, c->queue_len, c->heap_len, c->mode);
    vh_watchdog(20);
    bad = c01_execute(s->b, s->n, c);
    vh_eval(1);
    if (bad) { char key[64]; snprintf(key, sizeof key, "C01:%s", bad); vh_violation(key, "%s: stream \"%s\" buffer %zu mode %d", what, vh_esc(s->b, s->n), c->bufsize, c->mode); }
    { char cn[32]; snprintf(cn, sizeof cn, "mode.%d", c->mode); vh_count(cn, 1); }
    if (c->bufsize <= s->n) vh_count("geometry.stream_longer_than_buffer", 1);
    if (c->bufsize == s->n + 1) vh_count("geometry.stream_ends_at_physical_end_of_buffer", 1);
}

#if VH_ASAN
#define SC(q, t) vh_scaled((thorough) ? (t) : (q))
#else
#define SC(q, t) vh_scaled((thorough) ? (t) / 4 : (q) / 4)
#endif
static uint64_t p0_count(int thorough) { return SC(60000, 1500000); }
static void p0_run(uint64_t idx, vh_rng_t * r) {
    static stream_t s; c01_cfg_t c;
    (void) idx;
    gen_stream(r, &s);
    if (vh_chance(r, 1, 3)) { mutate(r, &s); vh_count("streams.mutated", 1); } else vh_count("streams.grammar", 1);
    cfg_random(r, &c, s.n);
    one(&s, &c, "generated stream");
    vh_distinct(vh_hash(s.b, s.n, 1));
    if (vh_want_sample()) vh_sample("stream \"%s\" buffer %zu queue %d mode %d", vh_esc(s.b, s.n), c.bufsize, c.queue_len, c.mode);
}
/* truncation at every byte position, the cut stream ending exactly at the physical end of the buffer */
static uint64_t p1_count(int thorough) { return SC(3000, 60000); }
static void p1_run(uint64_t idx, vh_rng_t * r) {
    static stream_t s, t; c01_cfg_t c; size_t cut;
    (void) idx;
    gen_stream(r, &s);
    if (s.n > 160) s.n = 160;
    for (cut = 0; cut <= s.n; cut++) {
        t = s; t.n = cut;
        cfg_random(r, &c, cut); c.bufsize = cut + 1 < 2 ? 2 : cut + 1; c.mode = (int) (cut % 3);
        vh_sub = cut;
        one(&t, &c, "truncated stream");
    }
    vh_count("truncation.streams", 1);
    vh_distinct(vh_hash(s.b, s.n, 2));
}
/* complete NUL-terminated line handed straight to SCPI_Parse */
static uint64_t p2_count(int thorough) { return SC(30000, 600000); }
static void p2_run(uint64_t idx, vh_rng_t * r) {
    static stream_t s; c01_cfg_t c;
    (void) idx;
    gen_stream(r, &s);
    if (vh_chance(r, 1, 3)) mutate(r, &s);
    cfg_random(r, &c, s.n); c.mode = 3;
    one(&s, &c, "direct line parse");
    vh_distinct(vh_hash(s.b, s.n, 3));
}
/* sequences of messages on ONE context with a tiny queue: overflow, heap wrap-around, status queries */
static uint64_t p3_count(int thorough) { return SC(10000, 200000); }
static void p3_run(uint64_t idx, vh_rng_t * r) {
    static stream_t s, part; c01_cfg_t c; int k, n = 4 + (int) vh_below(r, 10);
    (void) idx;
    s.n = 0;
    for (k = 0; k < n && s.n < MAXS - 120; k++) {
        gen_stream(r, &part); if (part.n > 60) part.n = 60;
        put(&s, part.b, part.n); putc_(&s, '\n');
        if (vh_chance(r, 1, 3)) puts_(&s, "SYST:PUSH 7,\"some device dependent text\"\n");
        if (vh_chance(r, 1, 3)) puts_(&s, "SYST:ERR?;*ESR?;*STB?\n");
    }
    cfg_random(r, &c, s.n); c.bufsize = 64 + vh_below(r, 64); c.queue_len = 1 + (int) vh_below(r, 3); c.heap_len = 2 + vh_below(r, 40);
    one(&s, &c, "long history");
    vh_count("history.sequences", 1);
    vh_distinct(vh_hash(s.b, s.n, 4));
}

/* error-queue geometry at the limits of its int16_t size: ring indices near 32767, overflow after the ring has rotated */
static uint64_t p4_count(int thorough) { return thorough ? 32 : 8; }
static void p4_run(uint64_t idx, vh_rng_t * r) {
    static const int sizes[] = { 32767, 16385, 30000, 16384, 20000, 32766, 255, 256 };
    int C = sizes[idx % 8]; long rot, i; vh_ctx_t * v; scpi_error_t e; char t[16];
    vh_case_desc("error queue of %d entries: rotate, fill, overflow, query, clear", C);
    vh_watchdog(60);
    c01_gen_sigs(vh_rand(r));
    v = vh_ctx_new(c01_cmds, 128, C, 64); v->sigs = c01_sigs; v->nsigs = C01_NSIG; v->log_enabled = 0;
    rot = C > 16384 ? (32769 - C) + (long) vh_below(r, 40) : (long) vh_below(r, (uint32_t) C);
    if (rot > C) rot = C;
    for (i = 0; i < rot; i++) SCPI_ErrorPush(v->ctx, (int16_t) (-100 - (i & 63)));
    for (i = 0; i < rot; i++) { SCPI_ErrorPop(v->ctx, &e); }
    for (i = 0; i < C + 3; i++) { if ((i & 15) == 0) { int n = snprintf(t, sizeof t, "x%ld", i); SCPI_ErrorPushEx(v->ctx, (int16_t) (i & 0x3fff), t, (size_t) n); } else SCPI_ErrorPush(v->ctx, (int16_t) -(i & 0x1ff)); }
    vh_input(v, "SYST:ERR?;SYST:ERR:COUN?;FOO\n", 29);
    vh_input(v, "SYST:ERR?\n*CLS\nSYST:ERR?\n", 26);
    vh_eval((uint64_t) (2 * rot + C + 5));
    vh_count("queue_boundary.cases", 1);
    vh_ctx_free(v);
}

/* SIZES: nothing bounds the length of a unit, and a unit that is rejected travels on as the text of its error. Units and pushed texts of
 * 150..300 characters with a quote (or two, or another special character) at EVERY offset around the places where a 255-character limit,
 * the description and the separator meet; the error is then reported through the error query, counted, cleared. */
static uint64_t p5_count(int thorough) { (void) thorough; return vh_scaled(6 * 150); }
static void p5_run(uint64_t idx, vh_rng_t * r) {
    static stream_t s; c01_cfg_t c; size_t q = 150 + (size_t) (idx % 150), tail, i, start; int variant = (int) (idx / 150) % 6;
    static const char * const codes[] = { "-100", "7", "-363", "-230", "0", "-32768", "32767", "-350" };
    static const char special[] = { '"', '"', '\'', ';', '\n', '"' };
    s.n = 0;
    tail = (idx & 1) ? 1 + vh_below(r, 3) : 20 + vh_below(r, 60);
    if (variant < 3) { puts_(&s, variant == 2 ? "XYZ:UNDEFINED " : "XYZ "); putc_(&s, variant == 1 ? '"' : '\''); }
    else { puts_(&s, "SYST:PUSH "); puts_(&s, codes[vh_below(r, 8)]); puts_(&s, variant == 4 ? ",\"" : ",'"); }
    start = (variant < 3) ? 0 : s.n; /* offsets are counted in the text that becomes the error's device-dependent part */
    while (s.n - start < q) putc_(&s, 'a' + (int) ((s.n * 7) % 26));
    putc_(&s, special[variant]); if (variant == 1 || variant == 4) putc_(&s, '"'); /* inside "..." a quote is written doubled */
    if (variant == 5) { putc_(&s, 'b'); putc_(&s, '"'); putc_(&s, '"'); }
    for (i = 0; i < tail; i++) putc_(&s, 'A' + (int) (i % 26));
    putc_(&s, (variant == 1 || variant == 4) ? '"' : '\'');
    puts_(&s, vh_chance(r, 1, 2) ? "\nSYST:ERR?\n" : ";:SYST:ERR:COUN?;:SYST:ERR?\r\n");
    puts_(&s, "SYST:ERR?;*CLS\n");
    cfg_random(r, &c, s.n); c.bufsize = s.n + 1 + vh_below(r, 40); c.queue_len = 1 + (int) vh_below(r, 3); c.heap_len = vh_chance(r, 1, 3) ? 2 + vh_below(r, 300) : 300 + vh_below(r, 200); c.mode = (int) (idx % 3);
    vh_sub = q;
    one(&s, &c, "long unit reported as error text");
    vh_count("sizes.long_units_reported_through_the_error_query", 1);
    vh_distinct(vh_hash(s.b, s.n, 6));
}

int main(int argc, char ** argv) {
    static const vh_phase_t phases[] = { { "generated and mutated streams", p0_count, p0_run }, { "truncation at every byte", p1_count, p1_run }, { "direct line parse", p2_count, p2_run }, { "long histories", p3_count, p3_run }, { "error queue at its size limits", p4_count, p4_run }, { "long units reported as error texts", p5_count, p5_run } };
    vh_require("mode.0"); vh_require("mode.1"); vh_require("mode.2"); vh_require("mode.3"); vh_require("geometry.stream_longer_than_buffer");
    vh_require("geometry.stream_ends_at_physical_end_of_buffer"); vh_require("streams.mutated"); vh_require("truncation.streams"); vh_require("history.sequences");
    vh_require("queue_boundary.cases"); vh_require("sizes.long_units_reported_through_the_error_query"); vh_require("numbers.exponent_zero_padded_to_many_digits");
    return vh_main(argc, argv, "C01", phases, 6);
}
