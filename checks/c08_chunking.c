/* C08 - behaviour depends on the byte stream, not on how it is cut into input calls.
 * Differential monitor: byte-at-a-time reference run vs other segmentations of the same stream. */
#include "vh_scpi.h"
#include <stdio.h>
#include <stdlib.h>
#include <string.h>

#define NSIG 10
static vh_sig_t sigs[NSIG];
static const scpi_command_t cmds[] = {
    { "T1", vh_handler, 1 }, { "TXT", vh_handler, 2 }, { "BLK", vh_handler, 3 }, { "NUM", vh_handler, 4 }, { "Q?", vh_handler, 5 },
    { "ARR", vh_handler, 6 }, { "EXP", vh_handler, 7 }, { "SYSTem:CH", vh_handler, 8 }, { "SYSTem:Q2?", vh_handler, 9 }, { "*IDN?", vh_handler, 10 },
    SCPI_CMD_LIST_END
};
static const char blk_out[] = "x\ny;z\r\n";

static void init_sigs(void) {
    memset(sigs, 0, sizeof sigs);
    sigs[0].nsteps = 2; sigs[0].steps[0] = (vh_step_t) { VR_RAW, 1, 0 }; sigs[0].steps[1] = (vh_step_t) { VR_RAW, 0, 0 };
    sigs[1].nsteps = 1; sigs[1].steps[0] = (vh_step_t) { VR_COPYTEXT, 1, 40 };
    sigs[2].nsteps = 2; sigs[2].steps[0] = (vh_step_t) { VR_BLOCK, 1, 0 }; sigs[2].steps[1] = (vh_step_t) { VR_INT32, 0, 0 };
    sigs[3].nsteps = 2; sigs[3].steps[0] = (vh_step_t) { VR_NUMBER, 1, 9 }; sigs[3].steps[1] = (vh_step_t) { VR_DOUBLE, 0, 0 };
    sigs[4].nsteps = 1; sigs[4].steps[0] = (vh_step_t) { VR_CHARS, 0, 0 };
    sigs[4].nouts = 3; sigs[4].outs[0].kind = VO_INT32; sigs[4].outs[0].u = 42; sigs[4].outs[1].kind = VO_TEXT; sigs[4].outs[1].data = "a\"b"; sigs[4].outs[1].len = 3;
    sigs[4].outs[2].kind = VO_BLOCK; sigs[4].outs[2].data = blk_out; sigs[4].outs[2].len = sizeof blk_out - 1;
    sigs[5].nsteps = 1; sigs[5].steps[0] = (vh_step_t) { VR_ARR_INT32, 1, 4 };
    sigs[6].nsteps = 1; sigs[6].steps[0] = (vh_step_t) { VR_EXPR, 1, 2 };
    sigs[7].nsteps = 2; sigs[7].steps[0] = (vh_step_t) { VR_CHARS, 1, 0 }; sigs[7].steps[1] = (vh_step_t) { VR_BOOL, 0, 0 };
    sigs[8].nouts = 1; sigs[8].outs[0].kind = VO_DOUBLE; sigs[8].outs[0].d = 1.5; sigs[8].verdict = VV_OK;
    sigs[9].nouts = 2; sigs[9].outs[0].kind = VO_MNEM; sigs[9].outs[0].data = "VERIF"; sigs[9].outs[0].len = 5; sigs[9].outs[1].kind = VO_UINT32; sigs[9].outs[1].base = 16; sigs[9].outs[1].u = 0xBEEF;
}

/* ---- stream generation ------------------------------------------------------------------------------- */
#define MAXS 760
typedef struct { unsigned char b[MAXS]; size_t n; unsigned char flush_before[MAXS + 1]; int has_nl_in_string, has_block_nl, has_flush, mutated, has_expr_nesting, has_lookahead_data; } stream_t;

static void put(stream_t * s, const void * d, size_t n) { if (s->n + n <= MAXS - 8) { memcpy(s->b + s->n, d, n); s->n += n; } }
static void puts_(stream_t * s, const char * t) { put(s, t, strlen(t)); }

static void gen_string(vh_rng_t * rng, stream_t * s) {
    char q = vh_chance(rng, 1, 2) ? '"' : '\''; size_t m = vh_below(rng, 12), i;
    put(s, &q, 1);
    for (i = 0; i < m; i++) {
        uint32_t r = vh_below(rng, 12); char c;
        if (r == 0) { c = '\n'; s->has_nl_in_string = 1; } else if (r == 1) { c = '\r'; s->has_nl_in_string = 1; } else if (r == 2) c = ';'; else if (r == 3) c = ','; else if (r == 4) c = q; else if (r == 5) c = (char) vh_below(rng, 128); else c = (char) ('a' + vh_below(rng, 26));
        if (c == 0) c = ' ';
        if (c == '\n' || c == '\r') s->has_nl_in_string = 1;
        put(s, &c, 1); if (c == q) put(s, &c, 1);
    }
    put(s, &q, 1);
}
static void gen_block(vh_rng_t * rng, stream_t * s) {
    size_t m = vh_below(rng, 14), i; char h[8]; int k = snprintf(h, sizeof h, "%zu", m);
    char hd[12]; int hl = snprintf(hd, sizeof hd, "#%d%s", k, h);
    put(s, hd, (size_t) hl);
    for (i = 0; i < m; i++) { uint32_t r = vh_below(rng, 8); unsigned char c = r == 0 ? '\n' : r == 1 ? ';' : r == 2 ? '\r' : r == 3 ? '"' : (unsigned char) vh_rand(rng); if (c == '\n' || c == '\r') s->has_block_nl = 1; put(s, &c, 1); }
}
static void gen_unit(vh_rng_t * rng, stream_t * s) {
    static const char * const nums[] = { "1", "-2.5", "3e2", "1 E3", "10 V", "2.5MV", "MIN", "#HFF", "#B101", ".5", "7 FOO" };
    switch (vh_below(rng, 15)) {
        case 0: puts_(s, "T1 "); gen_string(rng, s); if (vh_chance(rng, 1, 2)) { puts_(s, ","); puts_(s, nums[vh_below(rng, 11)]); } break;
        case 1: puts_(s, "TXT "); gen_string(rng, s); break;
        case 2: puts_(s, "BLK "); gen_block(rng, s); if (vh_chance(rng, 1, 3)) puts_(s, ",12"); break;
        case 3: puts_(s, "NUM "); puts_(s, nums[vh_below(rng, 11)]); if (vh_chance(rng, 1, 3)) { puts_(s, " , "); puts_(s, nums[vh_below(rng, 5)]); } break;
        case 4: puts_(s, vh_chance(rng, 1, 2) ? "Q?" : "q? abc"); break;
        case 5: puts_(s, "ARR 1,2,3"); if (vh_chance(rng, 1, 2)) puts_(s, ",4,5"); break;
        case 6:
            if (vh_chance(rng, 1, 3)) {
                /* what 488.2 7.7.7 also allows inside an expression: nested parentheses and string data (whose content may be a terminator) */
                int k = 1 + (int) vh_below(rng, 3);
                puts_(s, vh_chance(rng, 1, 2) ? "EXP (@1" : "EXP (1");
                while (k--) { puts_(s, ","); switch (vh_below(rng, 4)) { case 0: puts_(s, "(2:4)"); break; case 1: gen_string(rng, s); break; case 2: puts_(s, "(("); gen_string(rng, s); puts_(s, "))"); break; default: puts_(s, "7"); } }
                puts_(s, ")");
                s->has_expr_nesting = 1;
                break;
            }
            puts_(s, vh_chance(rng, 1, 2) ? "EXP (1,2:3)" : "EXP (@1!2,3!4:5!6)"); break;
        case 7: puts_(s, "SYST:CH "); gen_string(rng, s); puts_(s, ",ON"); break;
        case 8: puts_(s, vh_chance(rng, 1, 2) ? "SYST:Q2?" : ":SYSTEM:Q2?"); break;
        case 9: puts_(s, "*IDN?"); break;
        case 10: puts_(s, vh_chance(rng, 1, 2) ? "FOO:BAR 1" : "Q2?"); break; /* undefined, or relative to a SYSTem: predecessor */
        case 11: break; /* empty unit */
        case 13: {
            /* data whose tokenisation depends on bytes still to come (#H before its first digit, an expression before its ')'), followed in the
             * same unit by data that may contain a terminator */
            static const char * const first[] = { "#H1F", "#Q17", "#B101", "(1:2)", "(@1,2)", "#h0" };
            puts_(s, "T1 "); puts_(s, first[vh_below(rng, 6)]); puts_(s, vh_chance(rng, 1, 3) ? " , " : ",");
            if (vh_chance(rng, 1, 2)) gen_string(rng, s); else gen_block(rng, s);
            s->has_lookahead_data = 1;
            break;
        }
        default: puts_(s, "T1 "); gen_block(rng, s); puts_(s, ","); gen_string(rng, s); break;
    }
}
static void gen_stream(vh_rng_t * rng, stream_t * s) {
    int nm = vh_chance(rng, 1, 8) ? 9 + (int) vh_below(rng, 24) : 1 + (int) vh_below(rng, 8), m, u; /* some streams leave more than 256 and 512 bytes behind a unit */
    memset(s, 0, sizeof *s);
    for (m = 0; m < nm && s->n < MAXS - 120; m++) {
        int nu = 1 + (int) vh_below(rng, 3);
        for (u = 0; u < nu; u++) { if (u) puts_(s, vh_chance(rng, 1, 4) ? " ; " : ";"); gen_unit(rng, s); }
        switch (vh_below(rng, 8)) { case 0: puts_(s, "\r\n"); break; case 1: puts_(s, "\r"); break; case 2: s->flush_before[s->n] = 1; s->has_flush = 1; break; default: puts_(s, "\n"); }
    }
    if (vh_chance(rng, 1, 4)) { /* unterminated tail */ gen_unit(rng, s); }
    if (vh_chance(rng, 1, 5)) {
        /* mutations: flips, deletion, truncation */
        int k = 1 + (int) vh_below(rng, 3);
        s->mutated = 1;
        while (k-- && s->n > 1) {
            size_t p = vh_below(rng, (uint32_t) s->n);
            switch (vh_below(rng, 4)) {
                case 0: s->b[p] = (unsigned char) vh_rand(rng); break;
                case 1: s->b[p] = (unsigned char) "\"'#;,\n(): "[vh_below(rng, 10)]; break;
                case 2: memmove(s->b + p, s->b + p + 1, s->n - p - 1); s->n--; memmove(s->flush_before + p, s->flush_before + p + 1, MAXS - p); break;
                default: s->n = p + 1; { size_t i; for (i = p + 2; i <= MAXS; i++) s->flush_before[i] = 0; } break;
            }
        }
        /* mutated streams may contain new line characters inside what used to be strings: recompute the classification conservatively */
        s->has_nl_in_string = 2;
    }
}

/* ---- one run over a segmentation ----------------------------------------------------------------------- */
typedef struct { vh_buf_t log, out, rem, fin; int any_false, n_calls; size_t pos_after[MAXS + 1]; } run_t;

static void run_free(run_t * r) { vh_buf_free(&r->log); vh_buf_free(&r->out); vh_buf_free(&r->rem); vh_buf_free(&r->fin); }

/* cuts[i] = 1: a chunk boundary before byte i */
/* history applied identically to every context before the stream itself is fed: the stream's behaviour may depend on the
 * state it meets, but not on how the stream is cut */
static int g_prehistory;
static void apply_prehistory(vh_ctx_t * v, size_t bufsize) {
    static const char pend[] = "T1 1;NUM 2;TXT 'x';T";
    switch (g_prehistory) {
        case 1: /* complete units pending, then a chunk that does not fit: -363, buffer discarded */
            if (bufsize > sizeof pend + 2) { char * big = (char *) malloc(bufsize + 8); memset(big, 'A', bufsize + 8); vh_input(v, pend, sizeof pend - 1); vh_input(v, big, bufsize + 8); free(big); }
            break;
        case 2: if (bufsize > sizeof pend + 2) { vh_input(v, pend, sizeof pend - 1); vh_input(v, NULL, 0); } break;
        case 3: if (bufsize > 24) { vh_input(v, "Q?;*IDN?\nFOO\n", 13); } break;
        case 5: /* complete units pending, then the application discards the pending input (device clear) */
            if (bufsize > sizeof pend + 2) { vh_input(v, pend, sizeof pend - 1); vh_device_clear(v); vh_count("history.pending_units_then_device_clear", 1); } break;
        case 6: /* complete units pending, then the application installs another input buffer of the same size */
            if (bufsize > sizeof pend + 2) { vh_input(v, pend, sizeof pend - 1); vh_swap_input_buffer(v, bufsize); vh_count("history.pending_units_then_buffer_swapped", 1); } break;
        case 4: /* overrun on an empty buffer */ { char * big = (char *) malloc(bufsize + 3); memset(big, ';', bufsize + 3); vh_input(v, big, bufsize + 3); free(big); } break;
        default: break;
    }
    SCPI_ErrorClear(v->ctx);
    vh_ctx_clear_capture(v);
}

static void run_stream(const stream_t * s, const unsigned char * cuts, size_t bufsize, run_t * r, int record_pos) {
    vh_ctx_t * v = vh_ctx_new(cmds, bufsize, 16, 256);
    size_t a = 0, i;
    v->sigs = sigs; v->nsigs = NSIG;
    apply_prehistory(v, bufsize);
    r->any_false = 0; r->n_calls = 0;
    if (record_pos) r->pos_after[0] = 0;
    for (i = 0; i <= s->n; i++) {
        int boundary = (i == s->n) || cuts[i] || s->flush_before[i];
        if (boundary && i > a) { if (!vh_input(v, s->b + a, i - a)) r->any_false = 1; r->n_calls++; a = i; }
        if (record_pos && i > 0 && i <= s->n) r->pos_after[i] = v->ctx->buffer.position; /* only meaningful in the byte-at-a-time run */
        if (i < s->n && s->flush_before[i]) { if (!vh_input(v, NULL, 0)) r->any_false = 1; r->n_calls++; if (record_pos) r->pos_after[i] = v->ctx->buffer.position; }
    }
    if (s->flush_before[s->n]) { if (!vh_input(v, NULL, 0)) r->any_false = 1; }
    vh_buf_reset(&r->log); vh_buf_add(&r->log, v->log.p, v->log.len);
    vh_buf_reset(&r->out); vh_buf_add(&r->out, v->out.p, v->out.len);
    vh_unpoison_input(v);
    vh_buf_reset(&r->rem); vh_buf_add(&r->rem, v->inbuf, v->ctx->buffer.position);
    /* behavioural view of the remainder: what a final flush makes of it */
    vh_ctx_clear_capture(v);
    vh_input(v, NULL, 0);
    vh_buf_reset(&r->fin); vh_buf_add(&r->fin, v->log.p, v->log.len); vh_buf_adds(&r->fin, "|"); vh_buf_add(&r->fin, v->out.p, v->out.len);
    SCPI_ErrorClear(v->ctx);
    vh_ctx_free(v);
}

static int same(const vh_buf_t * a, const vh_buf_t * b) { return a->len == b->len && (a->len == 0 || memcmp(a->p, b->p, a->len) == 0); }

static const char * compare(const stream_t * s, const run_t * ref, const run_t * r) {
    (void) s;
    if (!same(&ref->log, &r->log)) return "events";
    if (!same(&ref->out, &r->out)) return "output-bytes";
    if (!same(&ref->rem, &r->rem)) return "unconsumed-remainder";
    if (!same(&ref->fin, &r->fin)) return "flush-of-remainder";
    if (!ref->any_false && r->any_false) return "return-false-without-failing-message";
    if (ref->any_false && !r->any_false && r->n_calls >= ref->n_calls) return "return-true-everywhere-with-failing-message";
    return NULL;
}

static void report(const stream_t * s, const run_t * ref, const run_t * r, const char * what, const char * segname, const unsigned char * cuts) {
    char key[128]; vh_buf_t cs = { 0, 0, 0 }; size_t i;
    const char * cls = s->mutated ? "mutated-stream" : (s->has_nl_in_string == 1 ? "terminator-inside-quoted-string" : (s->has_block_nl ? "terminator-inside-block" : "plain-stream"));
    for (i = 1; i < s->n; i++) if (cuts[i]) vh_buf_printf(&cs, "%zu ", i);
    snprintf(key, sizeof key, "C08:%s:%s", what, cls);
    vh_violation(key, "stream \"%s\" (%zu bytes%s) segmentation %s cuts [%s]: reference(byte-at-a-time) events [%s] out \"%s\" remainder \"%s\"; this segmentation events [%s] out \"%s\" remainder \"%s\"",
                 vh_esc(s->b, s->n), s->n, s->has_flush ? ", with flush calls" : "", segname, vh_buf_cstr(&cs), vh_esc(ref->log.p, ref->log.len), vh_esc(ref->out.p, ref->out.len), vh_esc(ref->rem.p, ref->rem.len),
                 vh_esc(r->log.p, r->log.len), vh_esc(r->out.p, r->out.len), vh_esc(r->rem.p, r->rem.len));
    vh_buf_free(&cs);
}

/* tight-buffer family: no chunk may be larger than the free space at the time it is delivered (statement's precondition) */
static void enforce_caps(const stream_t * s, unsigned char * cuts, size_t bufsize, const run_t * ref) {
    size_t a = 0, j;
    for (j = 1; j < s->n; j++) {
        if (cuts[j] || s->flush_before[j]) { a = j; continue; }
        if (j + 1 - a > bufsize - 1 - ref->pos_after[a]) { cuts[j] = 1; a = j; }
    }
}

static uint64_t p0_count(int thorough) {
#if VH_ASAN
    return vh_scaled(thorough ? 30000 : 1200);
#else
    return vh_scaled(thorough ? 300000 : 6000);
#endif
}

static void p0_run(uint64_t idx, vh_rng_t * rng) {
    static stream_t s; static run_t ref, r; static unsigned char cuts[MAXS + 2];
    size_t i, bufsize; int k; const char * what; int small = (idx % 4 == 3);
    if (!sigs[0].nsteps) init_sigs();
    g_prehistory = (idx % 3 == 1 && !small) ? 1 + (int) vh_below(rng, 6) : 0; /* not in the tight-buffer family: the history itself must not depend on the buffer size */
    gen_stream(rng, &s);
    vh_case_desc("stream \"%s\"", vh_esc(s.b, s.n));
    bufsize = s.n + 2;
    /* reference: one byte per call */
    for (i = 0; i <= s.n; i++) cuts[i] = 1;
    run_stream(&s, cuts, bufsize, &ref, 1);
    if (small) {
        /* second family: the smallest buffer that never overruns in the reference run, chunks capped to the free space */
        size_t need = 2; for (i = 0; i <= s.n; i++) if (ref.pos_after[i] + 2 > need) need = ref.pos_after[i] + 2;
        bufsize = need + vh_below(rng, 4);
        { run_t ref2; memset(&ref2, 0, sizeof ref2); for (i = 0; i <= s.n; i++) cuts[i] = 1; run_stream(&s, cuts, bufsize, &ref2, 1);
          what = compare(&s, &ref, &ref2);
          if (what) { memset(cuts, 0, sizeof cuts); report(&s, &ref, &ref2, what, "byte-at-a-time with a tight buffer", cuts); }
          run_free(&ref2); }
        vh_count("family.tight_buffer", 1);
    }
    vh_eval(1);
    /* all at once (respecting flush markers) */
    {
        memset(cuts, 0, sizeof cuts);
        if (small) enforce_caps(&s, cuts, bufsize, &ref);
        run_stream(&s, cuts, bufsize, &r, 0); vh_eval(1);
        what = compare(&s, &ref, &r); if (what) report(&s, &ref, &r, what, "all-at-once", cuts);
        vh_count("seg.all_at_once", 1);
    }
    /* every single split point */
    for (i = 1; i < s.n; i++) {
        memset(cuts, 0, sizeof cuts); cuts[i] = 1;
        if (small) enforce_caps(&s, cuts, bufsize, &ref);
        run_stream(&s, cuts, bufsize, &r, 0); vh_eval(1);
        what = compare(&s, &ref, &r); if (what) { report(&s, &ref, &r, what, "single-split", cuts); break; }
        vh_count("seg.single_split", 1);
    }
    /* random multi-way splits */
    for (k = 0; k < 20; k++) {
        uint32_t dens = 2 + vh_below(rng, 12);
        memset(cuts, 0, sizeof cuts);
        for (i = 1; i < s.n; i++) cuts[i] = vh_below(rng, dens) == 0;
        if (small) enforce_caps(&s, cuts, bufsize, &ref);
        run_stream(&s, cuts, bufsize, &r, 0); vh_eval(1);
        what = compare(&s, &ref, &r); if (what) { report(&s, &ref, &r, what, "random-multiway", cuts); break; }
        vh_count("seg.random_multiway", 1);
    }
    vh_count("streams", 1);
    if (g_prehistory == 1) vh_count("history.pending_units_then_overrun", 1);
    if (g_prehistory) vh_count("history.context_with_history", 1);
    if (s.has_nl_in_string == 1) vh_count("stream.terminator_inside_string", 1);
    if (s.has_block_nl) vh_count("stream.terminator_inside_block", 1);
    if (s.has_flush) vh_count("stream.with_flush_calls", 1);
    if (s.mutated) vh_count("stream.mutated", 1);
    if (s.has_lookahead_data) vh_count("stream.nondecimal_or_expression_followed_by_string_or_block", 1);
    if (s.has_expr_nesting) vh_count("stream.expression_with_nested_parentheses_or_strings", 1);
    if (s.n > 258) vh_count("stream.longer_than_258_bytes", 1);
    if (s.n > 514) vh_count("stream.longer_than_514_bytes", 1);
    if (ref.rem.len) vh_count("stream.leaves_remainder", 1);
    if (ref.out.len) vh_count("stream.produces_output", 1);
    if (strstr(vh_buf_cstr(&ref.log), "E -")) vh_count("stream.raises_errors", 1);
    vh_distinct(vh_hash(s.b, s.n, vh_hash(s.flush_before, s.n + 1, 8)));
    if (vh_want_sample()) vh_sample("stream \"%s\" -> %d handler/err events, %zu output bytes, remainder %zu bytes; identical under %zu segmentations", vh_esc(s.b, s.n), (int) ref.log.len, ref.out.len, ref.rem.len, s.n + 20);
}

int main(int argc, char ** argv) {
    static const vh_phase_t phases[] = { { "streams", p0_count, p0_run } };
    vh_scribble_chunk_in_callbacks(1); vh_decoy_enable(11); vh_require("decoy.messages_run_on_a_second_context"); vh_require("history.pending_units_then_overrun"); vh_require("history.pending_units_then_device_clear"); vh_require("history.pending_units_then_buffer_swapped"); vh_require("seg.all_at_once"); vh_require("seg.single_split"); vh_require("seg.random_multiway"); vh_require("stream.terminator_inside_block");
    vh_require("stream.terminator_inside_string"); vh_require("stream.with_flush_calls"); vh_require("stream.leaves_remainder"); vh_require("stream.produces_output");
    vh_require("stream.raises_errors"); vh_require("family.tight_buffer"); vh_require("stream.longer_than_258_bytes"); vh_require("stream.nondecimal_or_expression_followed_by_string_or_block"); vh_require("stream.expression_with_nested_parentheses_or_strings"); vh_require("stream.longer_than_514_bytes");
    return vh_main(argc, argv, "C08", phases, 1);
}
