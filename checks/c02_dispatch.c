/* C02 - each message unit runs exactly the first command matching its effective header.
 * Oracle: reference resolver written from the statement (effective-header rule + first match by kit/ref_match). */
#include "vh_scpi.h"
#include "ref_match.h"
#include <stdio.h>
#include <stdlib.h>
#include <string.h>
#include <ctype.h>

#define MAXT 14
#define MAXU 6
#define HLEN 160

static const char * const vocab[] = { "ALPHa", "BETa", "GAMma", "DELta", "UP", "SYSTem", "Voltage", "X" };
#define NV (sizeof vocab / sizeof vocab[0])
static const char * const commons[] = { "*IDN?", "*RST", "*CLS", "*OPC?", "*OPC", "*TST?" };

typedef struct {
    int n; char pat[MAXT][80]; scpi_command_t cmds[MAXT + 1];
} table_t;
typedef struct {
    char written[HLEN]; char effective[HLEN]; int tag; /* 0 = undefined */
    int relative, prev_kind; /* prev_kind: 0 none, 1 defined compound, 2 undefined compound, 3 common (defined or not) */
    char other[HLEN]; /* a header accepted by another entry but not by the expected one ("" = none) */
    int has_param;
} unit_t;

static table_t T; static unit_t U[MAXU]; static int NU;
static vh_buf_t expect_log;
static int g_inv; static int g_iscmd_self_false, g_iscmd_other_true; static char g_isc_detail[200];
static int g_expected_order[MAXU]; static int g_nexp;
static int Tnull[MAXT]; /* entry without a handler: accepts its header, runs nothing, still shadows later entries */

static void gen_pattern(vh_rng_t * rng, char * out, size_t cap, int root) {
    /* root: index of a preferred first keyword so that tables have families sharing a path */
    int nk = 1 + (int) vh_below(rng, 3), k; size_t n = 0;
    int tries = 0;
    do {
        n = 0; out[0] = 0;
        for (k = 0; k < nk; k++) {
            const char * kw = (k == 0 && vh_chance(rng, 3, 4)) ? vocab[root] : vocab[vh_below(rng, NV)];
            int opt = vh_chance(rng, 1, 4), suf = vh_chance(rng, 1, 5);
            if (nk == 1) opt = 0;
            if (k == 0) n += (size_t) snprintf(out + n, cap - n, opt ? "[:%s%s]" : "%s%s", kw, suf ? "#" : "");
            else n += (size_t) snprintf(out + n, cap - n, opt ? "[:%s%s]" : ":%s%s", kw, suf ? "#" : "");
        }
        if (vh_chance(rng, 1, 2)) n += (size_t) snprintf(out + n, cap - n, "?");
    } while ((!ref_pattern_unambiguous(out)) && ++tries < 50);
    if (tries >= 50) snprintf(out, cap, "%s:%s", vocab[root], vocab[(root + 1) % NV]);
}

/* patterns shipped with the library's tests and examples (test_parser.c, test_scpi_utils.c, examples/common/scpi-def.c) */
static const char * const shipped[] = {
    "*CLS", "*ESE", "*ESE?", "*ESR?", "*IDN?", "*OPC", "*OPC?", "*RST", "*SRE", "*SRE?", "*STB?", "*TST?", "*WAI",
    "SYSTem:ERRor[:NEXT]?", "SYSTem:ERRor:COUNt?", "SYSTem:VERSion?", "STATus:QUEStionable[:EVENt]?", "STATus:QUEStionable:ENABle", "STATus:QUEStionable:ENABle?",
    "STATus:OPERation[:EVENt]?", "STATus:OPERation:CONDition?", "STATus:OPERation:ENABle", "STATus:PRESet", "MEASure:VOLTage:DC?", "CONFigure:VOLTage:DC", "MEASure:VOLTage:DC:RATio?",
    "MEASure:VOLTage:AC?", "MEASure:CURRent:DC?", "MEASure:CURRent:AC?", "MEASure:RESistance?", "MEASure:FRESistance?", "MEASure:FREQuency?", "MEASure:PERiod?",
    "SYSTem:COMMunication:TCPIP:CONTROL?", "TEST:BOOL", "TEST:CHOice?", "TEST#:NUMbers#", "TEST:TEXT", "TEST:ARBitrary?", "TEST:CHANnellist", "TEST:TREEA?", "TEST:TREEB?",
    "TEXTfunction?", "STUB", "STUB?", "SAMple", "MEASure[:SCALar]:CURRent[:DC]?", "OUTPut#[:MODulation#]:FM#", "ABcc[:BCCdddd]:CDEFGeeeee", "[:ABcc]:BCCdddd[:CDEFGeeeee]?" };
#define NSHIP (sizeof shipped / sizeof shipped[0])
static void gen_table(vh_rng_t * rng) {
    int n = 6 + (int) vh_below(rng, MAXT - 6 + 1), i, root1 = (int) vh_below(rng, NV), root2 = (int) vh_below(rng, NV);
    T.n = n;
    if (vh_below(rng, 4) == 0) { /* a table drawn from the shipped patterns, in shipped order shuffled */
        for (i = 0; i < n; i++) snprintf(T.pat[i], sizeof T.pat[i], "%s", shipped[vh_below(rng, NSHIP)]);
        vh_count("tables.from_shipped_patterns", 1);
        return;
    }
    for (i = 0; i < n; i++) {
        if (vh_chance(rng, 1, 6)) snprintf(T.pat[i], sizeof T.pat[i], "%s", commons[vh_below(rng, 6)]);
        else gen_pattern(rng, T.pat[i], sizeof T.pat[i], vh_chance(rng, 1, 2) ? root1 : root2);
    }
}

/* header text for pattern p: random accepted spelling, or a near miss */
static void gen_header_for(vh_rng_t * rng, const char * pat, char * out, size_t cap, int allow_miss) {
    ref_pattern_t p; int j; size_t n = 0; int first = 1;
    out[0] = 0;
    if (!ref_parse_pattern(pat, &p)) { snprintf(out, cap, "X"); return; }
    if (p.common) {
        n += (size_t) snprintf(out + n, cap - n, "%s", p.s[0].raw);
        if (vh_chance(rng, 1, 2)) for (j = 0; out[j]; j++) out[j] = (char) tolower((unsigned char) out[j]);
        if (p.query != (allow_miss && vh_chance(rng, 1, 12))) n += (size_t) snprintf(out + n, cap - n, "?");
        return;
    }
    if (vh_chance(rng, 1, 3)) n += (size_t) snprintf(out + n, cap - n, ":");
    for (j = 0; j < p.n; j++) {
        const ref_slot_t * s = &p.s[j]; char kw[64]; int k, lower = vh_chance(rng, 1, 2);
        if (s->optional && vh_chance(rng, 1, 2)) continue;
        snprintf(kw, sizeof kw, "%s", vh_chance(rng, 1, 2) ? s->sht : s->lng);
        if (allow_miss && vh_chance(rng, 1, 25)) { size_t l = strlen(kw); if (vh_chance(rng, 1, 2) && l > 1) kw[l - 1] = 0; else { kw[l] = 'Q'; kw[l + 1] = 0; } }
        if (lower) for (k = 0; kw[k]; k++) kw[k] = (char) tolower((unsigned char) kw[k]);
        n += (size_t) snprintf(out + n, cap - n, "%s%s", first ? "" : ":", kw);
        if ((s->suffix && vh_chance(rng, 2, 3)) || (allow_miss && !s->suffix && vh_chance(rng, 1, 30))) { /* the suffix VALUE ranges over what the number type reported to the handler can hold: small numbers mostly, and the decimal and binary boundaries up to 2147483647 */
            static const unsigned edge[] = { 0, 1, 9, 10, 99, 100, 255, 256, 32767, 32768, 65535, 65536, 99999999u, 100000000u, 999999999u, 1000000000u, 2147483639u, 2147483640u, 2147483646u, 2147483647u };
            unsigned val = vh_chance(rng, 1, 8) ? edge[vh_below(rng, sizeof edge / sizeof edge[0])] : (unsigned) vh_below(rng, 130);
            if (val > 65536) vh_count("headers.numeric_suffix_above_65536", 1);
            n += (size_t) snprintf(out + n, cap - n, vh_chance(rng, 1, 6) ? "%014u" : "%u", val); } /* zero padding is legal and unlimited */
        first = 0;
    }
    if (first) n += (size_t) snprintf(out + n, cap - n, "%s", p.s[p.n - 1].sht); /* all optional keywords skipped: write the last one */
    if (p.query != (allow_miss && vh_chance(rng, 1, 15))) n += (size_t) snprintf(out + n, cap - n, "?");
}

static int first_match(const char * h) {
    int i;
    for (i = 0; i < T.n; i++) if (ref_match(T.pat[i], h, strlen(h), NULL, 0, 0, NULL)) return i + 1;
    return 0;
}

/* strip the first k mnemonics of a (non-common) header to make it relative */
static const char * strip_mnemonics(const char * h, int k) {
    const char * p = h;
    if (*p == ':') p++;
    while (k-- > 0) { const char * c = strchr(p, ':'); if (!c) return NULL; p = c + 1; }
    return p;
}

static int g_trailing_empty;
static void gen_message(vh_rng_t * rng, vh_buf_t * msg) {
    int u; char full[HLEN];
    NU = 1 + (int) vh_below(rng, MAXU);
    vh_buf_reset(msg);
    for (u = 0; u < NU; u++) {
        unit_t * x = &U[u]; const char * pat = T.pat[vh_below(rng, (uint32_t) T.n)];
        memset(x, 0, sizeof *x);
        gen_header_for(rng, pat, full, sizeof full, 1);
        if (vh_chance(rng, 1, 12)) { static const char * const und[] = { "FOO", "FOO:BAR", ":ZED:ALPHa?", "*FOO", "*XYZ?", "NOPE:UP" }; snprintf(full, sizeof full, "%s", und[vh_below(rng, 6)]); }
        snprintf(x->written, sizeof x->written, "%s", full);
        if (u > 0 && full[0] != '*' && vh_chance(rng, 2, 3)) {
            /* try to write it relative to the previous unit's path: drop as many leading mnemonics as the previous path has */
            const char * pe = U[u - 1].effective; int depth = 0; const char * c; const char * rel;
            for (c = pe + (pe[0] == ':'); (c = strchr(c, ':')) != NULL; c++) depth++;
            if (U[u - 1].effective[0] == '*') depth = 0;
            if (vh_chance(rng, 1, 5)) depth = (int) vh_below(rng, 3);
            rel = strip_mnemonics(full, depth);
            if (rel && *rel) snprintf(x->written, sizeof x->written, "%s", rel);
        }
        /* reference resolution, exactly as the statement says */
        x->relative = !(x->written[0] == ':' || x->written[0] == '*');
        if (u == 0) x->prev_kind = 0; else if (U[u - 1].effective[0] == '*') x->prev_kind = 3; else x->prev_kind = U[u - 1].tag ? 1 : 2;
        if (!x->relative || u == 0 || U[u - 1].effective[0] == '*') snprintf(x->effective, sizeof x->effective, "%s", x->written);
        else {
            const char * pe = U[u - 1].effective; const char * lc = strrchr(pe, ':'); size_t pl = lc ? (size_t) (lc - pe) + 1 : 0;
            snprintf(x->effective, sizeof x->effective, "%.*s%s", (int) pl, pe, x->written);
        }
        x->tag = first_match(x->effective);
        if (x->tag) {
            int f, t;
            for (t = 0; t < 4 && !x->other[0]; t++) {
                f = (int) vh_below(rng, (uint32_t) T.n);
                if (f + 1 == x->tag) continue;
                gen_header_for(rng, T.pat[f], full, sizeof full, 0);
                if (ref_match(T.pat[f], full, strlen(full), NULL, 0, 0, NULL) && !ref_match(T.pat[x->tag - 1], full, strlen(full), NULL, 0, 0, NULL)) snprintf(x->other, sizeof x->other, "%s", full);
            }
        }
        if (u) vh_buf_addc(msg, ';');
        /* empty message units (488.2 7.3.3 lets a unit be bypassed): in front of the first unit, and in the middle where the next header is
         * written absolute - there the statement leaves no doubt about the path whatever an empty unit does to it */
        if ((u == 0 || x->written[0] == ':' || x->written[0] == '*') && vh_chance(rng, 1, 10)) { if (vh_chance(rng, 1, 3)) vh_buf_addc(msg, ' '); vh_buf_addc(msg, ';'); vh_count(u ? "units.empty_unit_in_the_middle" : "units.empty_unit_in_front", 1); }
        if (vh_chance(rng, 1, 6)) vh_buf_addc(msg, ' ');
        vh_buf_adds(msg, x->written);
        if (!(x->tag && Tnull[x->tag - 1]) && vh_chance(rng, 1, 5)) { x->has_param = 1; vh_buf_adds(msg, vh_chance(rng, 1, 2) ? " 12" : " MIN"); }
    }
    /* ... and behind the last one: "A:B;" is a complete message, the next message starts with an empty path like any other */
    if (vh_chance(rng, 1, 6)) { vh_buf_addc(msg, ';'); if (vh_chance(rng, 1, 4)) vh_buf_addc(msg, ' '); g_trailing_empty = 1; vh_count("units.empty_unit_at_the_end", 1); } else g_trailing_empty = 0;
    vh_buf_adds(msg, vh_chance(rng, 1, 4) ? "\r\n" : "\n");
}

static scpi_result_t handler(scpi_t * c) {
    vh_ctx_t * v = VH_OF(c);
    int k = g_inv++;
    scpi_parameter_t p;
    int tag = (int) SCPI_CmdTag(c);
    vh_buf_printf(&v->log, "H %d ", tag);
    vh_buf_add_escaped(&v->log, c->param_list.cmd_raw.data, c->param_list.cmd_raw.length);
    vh_buf_addc(&v->log, '\n');
    SCPI_Parameter(c, &p, FALSE);
    if (k < g_nexp) {
        unit_t * x = &U[g_expected_order[k]];
        if (tag == x->tag) {
            if (!SCPI_IsCmd(c, x->effective)) { g_iscmd_self_false++; snprintf(g_isc_detail, sizeof g_isc_detail, "pattern %s header %s", T.pat[x->tag - 1], x->effective); }
            if (x->other[0] && SCPI_IsCmd(c, x->other)) { g_iscmd_other_true++; snprintf(g_isc_detail, sizeof g_isc_detail, "pattern %s other header %s", T.pat[x->tag - 1], x->other); }
            vh_count("handler.iscmd_checks", 1 + (x->other[0] != 0));
        }
    }
    return SCPI_RES_OK;
}

static const char * prevkind_name(int k) { return k == 0 ? "at-message-start" : k == 1 ? "after-defined-compound" : k == 2 ? "after-undefined-compound" : "after-common"; }

static void table_text(vh_buf_t * b) { int i; for (i = 0; i < T.n; i++) vh_buf_printf(b, "%s%s", i ? " | " : "", T.pat[i]); }

static uint64_t p0_count(int thorough) {
#if VH_ASAN
    return vh_scaled(thorough ? 500000 : 50000);
#else
    return vh_scaled(thorough ? 5000000 : 200000);
#endif
}
static void p0_run(uint64_t idx, vh_rng_t * rng) {
    static vh_buf_t msg, got_err, tt;
    vh_ctx_t * v; int i, u, first_diff_unit = -1; int line_unit[MAXU], nlines = 0, nmsg, mi;
    char key[120];
    gen_table(rng);
    {
        /* the callback column is part of the table too: an entry may have none */
        int some = vh_chance(rng, 1, 5);
        for (i = 0; i < T.n; i++) Tnull[i] = some && vh_chance(rng, 1, 3);
    }
    for (i = 0; i < T.n; i++) { T.cmds[i].pattern = T.pat[i]; T.cmds[i].callback = Tnull[i] ? NULL : handler; T.cmds[i].tag = i + 1; }
    T.cmds[T.n].pattern = NULL; T.cmds[T.n].callback = NULL; T.cmds[T.n].tag = 0;
    vh_buf_reset(&tt); table_text(&tt);
    /* one context serves 1..3 messages; a message ends with its terminator or - without one - with a zero-length input call. The path is
     * empty at the start of EVERY message, and nothing of an earlier message may decide whether or when a later one is executed */
    nmsg = (idx % 3 == 2) ? 2 + (int) vh_below(rng, 2) : 1;
    v = vh_ctx_new(T.cmds, 600, 16, 256);
    for (mi = 0; mi < nmsg; mi++) {
    int via_flush = nmsg > 1 && vh_chance(rng, 1, 2);
    if (mi > 0 && vh_chance(rng, 1, 2)) {
        /* the application installs another command table on the live context (language / compatibility mode): the table array is rewritten
         * in place or the other of two arrays is assigned to context->cmdlist - registers, errors and the context itself stay */
        static scpi_command_t other[MAXT + 1]; scpi_command_t * dst = (v->ctx->cmdlist == T.cmds && vh_chance(rng, 1, 2)) ? other : T.cmds;
        int some = vh_chance(rng, 1, 5);
        gen_table(rng);
        for (i = 0; i < T.n; i++) Tnull[i] = some && vh_chance(rng, 1, 3);
        for (i = 0; i < T.n; i++) { dst[i].pattern = T.pat[i]; dst[i].callback = Tnull[i] ? NULL : handler; dst[i].tag = i + 1; }
        dst[T.n].pattern = NULL; dst[T.n].callback = NULL; dst[T.n].tag = 0;
        v->ctx->cmdlist = dst;
        vh_buf_reset(&tt); table_text(&tt);
        vh_count("tables.installed_on_a_live_context", 1);
    }
    gen_message(rng, &msg);
    nlines = 0; first_diff_unit = -1;
    vh_ctx_clear_capture(v);
    vh_case_desc("table {%s} message \"%s\"", vh_buf_cstr(&tt), vh_esc(msg.p, msg.len));
    /* expected event log */
    vh_buf_reset(&expect_log); g_nexp = 0; nlines = 0;
    for (u = 0; u < NU; u++) {
        if (U[u].tag && Tnull[U[u].tag - 1]) { int later = 0; for (i = U[u].tag; i < T.n; i++) if (!Tnull[i] && ref_match(T.pat[i], U[u].effective, strlen(U[u].effective), NULL, 0, 0, NULL)) later = 1; vh_count(later ? "unit.first_match_without_handler_shadows_later_handler" : "unit.first_match_without_handler", 1); }
        else if (U[u].tag) { line_unit[nlines++] = u; vh_buf_printf(&expect_log, "H %d ", U[u].tag); vh_buf_add_escaped(&expect_log, U[u].effective, strlen(U[u].effective)); vh_buf_addc(&expect_log, '\n'); g_expected_order[g_nexp++] = u; }
        else { line_unit[nlines++] = u; vh_buf_adds(&expect_log, "E -113\n"); }
    }
    g_inv = 0; g_iscmd_self_false = g_iscmd_other_true = 0;
    if (via_flush) { size_t n = msg.len; while (n && (msg.p[n - 1] == '\n' || msg.p[n - 1] == '\r')) n--; vh_deliver(v, msg.p, msg.len, msg.len - n, 1 + (int) (idx + (uint64_t) mi) % 2); vh_count("messages.ended_by_zero_length_input_call", 1);
        if (g_trailing_empty && mi + 1 < nmsg) vh_count("messages.ended_by_separator_and_zero_length_call_followed_by_another_message", 1); }
    else vh_input(v, msg.p, msg.len);
    if (mi > 0) vh_count("messages.on_a_context_that_served_earlier_messages", 1);
    vh_eval(1);
    /* compare event sequences (flush/write events are not produced: handlers emit nothing) */
    if (strcmp(vh_buf_cstr(&v->log), vh_buf_cstr(&expect_log)) != 0) {
        /* locate the first differing line -> unit */
        const char * a = vh_buf_cstr(&v->log), * b = vh_buf_cstr(&expect_log); int line = 0;
        while (*a && *b) { const char * ea = strchr(a, '\n'), * eb = strchr(b, '\n'); size_t la = ea ? (size_t) (ea - a) : strlen(a), lb = eb ? (size_t) (eb - b) : strlen(b); if (la != lb || memcmp(a, b, la) != 0) break; a += la + 1; b += lb + 1; line++; }
        first_diff_unit = line < nlines ? line_unit[line] : NU - 1;
        {
            unit_t * x = &U[first_diff_unit]; const char * what;
            int got_h = a[0] == 'H', exp_h = b[0] == 'H';
            if (!*a) what = "event-missing"; else if (!*b) what = "extra-event";
            else if (got_h && exp_h) { int gt = atoi(a + 2), et = atoi(b + 2); what = gt == et ? "effective-header-text" : (strcmp(strchr(a + 2, ' '), strchr(b + 2, ' ')) == 0 || 1) && ref_match(T.pat[gt > 0 && gt <= T.n ? gt - 1 : 0], x->effective, strlen(x->effective), NULL, 0, 0, NULL) ? "not-first-matching-entry" : "wrong-command-run"; }
            else if (got_h && !exp_h) what = "undefined-header-dispatched";
            else if (!got_h && exp_h) what = "defined-header-rejected";
            else what = "error-code";
            snprintf(key, sizeof key, "C02:%s:%s:%s", what, x->relative ? "relative" : "absolute", prevkind_name(x->prev_kind));
            vh_violation(key, "table {%s}; message \"%s\"; unit %d written \"%s\" effective \"%s\" expected %s; events got [%s] expected [%s]", vh_buf_cstr(&tt), vh_esc(msg.p, msg.len), first_diff_unit,
                         x->written, x->effective, x->tag ? T.pat[x->tag - 1] : "-113", vh_esc(v->log.p, v->log.len), vh_esc(expect_log.p, expect_log.len));
        }
    } else {
        if (g_iscmd_self_false) vh_violation("C02:iscmd-false-for-own-effective-header", "%s; message \"%s\"", g_isc_detail, vh_esc(msg.p, msg.len));
        if (g_iscmd_other_true) vh_violation("C02:iscmd-true-for-foreign-header", "%s; message \"%s\"", g_isc_detail, vh_esc(msg.p, msg.len));
        /* error queue: one -113 per undefined unit, carrying the offending text */
        vh_buf_reset(&got_err); vh_drain_errors(v, &got_err);
        {
            const char * q = vh_buf_cstr(&got_err); int nund = 0;
            for (u = 0; u < NU; u++) if (!U[u].tag) {
                const char * end = strchr(q, ';'); /* entries are "code[:text];" with ';' inside text escaped? no: find next "-113" entry start instead */
                (void) end;
                nund++;
            }
            /* count entries and check texts */
            {
                int cnt = 0; const char * p = q; u = 0;
                while (*p) {
                    const char * e = p; int code = atoi(p); const char * text = NULL; size_t tl = 0;
                    /* entry ends at ';' that is followed by '-', digit or end (texts never contain ";-1" here: headers have no ';') */
                    while (*e && *e != ';') e++;
                    if (code == -113) {
                        cnt++;
                        while (u < NU && U[u].tag) u++;
                        if (u < NU) {
                            const char * colon = memchr(p, ':', (size_t) (e - p));
                            if (colon) { text = colon + 1; tl = (size_t) (e - text); }
#if USE_DEVICE_DEPENDENT_ERROR_INFORMATION
                            {
                                /* header as written may contain characters that vh_drain_errors escapes (none: headers are alnum : * ?) */
                                char tmp[400]; size_t n = tl < sizeof tmp - 1 ? tl : sizeof tmp - 1; if (text) memcpy(tmp, text, n); tmp[text ? n : 0] = 0;
                                if (!text || !strstr(tmp, U[u].written)) { snprintf(key, sizeof key, "C02:undefined-header-text-missing"); vh_violation(key, "message \"%s\": -113 for unit \"%s\" carries \"%s\"", vh_esc(msg.p, msg.len), U[u].written, text ? tmp : "(no text)"); }
                                else vh_count("undefined.text_contains_header", 1);
                            }
#else
                            (void) tl;
                            if (text) vh_violation("C02:undefined-header-text-in-noinfo", "text present although the configuration stores none");
#endif
                            u++;
                        }
                    } else if (code != 0) { vh_violation("C02:unexpected-error-queued", "message \"%s\": error %d queued (queue %s)", vh_esc(msg.p, msg.len), code, q); }
                    p = *e ? e + 1 : e;
                }
                if (cnt != nund) vh_violation("C02:undefined-header-error-count", "message \"%s\": %d undefined units but %d -113 entries (%s)", vh_esc(msg.p, msg.len), nund, cnt, q);
            }
        }
    }
    /* observations */
    vh_count("messages", 1); vh_count("units", (uint64_t) NU);
    for (u = 0; u < NU; u++) {
        char cn[64];
        snprintf(cn, sizeof cn, "unit.%s.%s.%s", U[u].tag ? "defined" : "undefined", U[u].relative ? "relative" : "absolute", prevkind_name(U[u].prev_kind));
        vh_count(cn, 1);
        if (U[u].tag) { int later = 0; for (i = U[u].tag; i < T.n; i++) if (ref_match(T.pat[i], U[u].effective, strlen(U[u].effective), NULL, 0, 0, NULL)) later = 1; if (later) vh_count("unit.overlap_first_match_matters", 1); }
    }
    vh_distinct(vh_hash(msg.p, msg.len, vh_hash(tt.p, tt.len, 2)));
    SCPI_ErrorClear(v->ctx);
    } /* messages of this context */
    /* several messages completed by ONE input call: each of them starts with an empty path, whatever the message in front of it ended with */
    if (idx % 4 == 1) {
        static vh_buf_t two, e2; int k2;
        vh_buf_reset(&two); vh_buf_reset(&e2);
        for (k2 = 0; k2 < 2 + (int) (idx % 8 == 5); k2++) {
            gen_message(rng, &msg);
            vh_buf_add(&two, msg.p, msg.len);
            for (u = 0; u < NU; u++) {
                if (U[u].tag && Tnull[U[u].tag - 1]) continue;
                if (U[u].tag) { vh_buf_printf(&e2, "H %d ", U[u].tag); vh_buf_add_escaped(&e2, U[u].effective, strlen(U[u].effective)); vh_buf_addc(&e2, '\n'); }
                else vh_buf_adds(&e2, "E -113\n");
            }
        }
        vh_ctx_clear_capture(v);
        g_nexp = 0; g_inv = 0; /* the handler's own IsCmd probes refer to one message's unit list: not used here */
        vh_case_desc("table {%s} messages in one input call \"%s\"", vh_buf_cstr(&tt), vh_esc(two.p, two.len));
        if (two.len + 2 < 600) {
            vh_input(v, two.p, two.len);
            vh_eval(1);
            if (strcmp(vh_buf_cstr(&v->log), vh_buf_cstr(&e2)) != 0)
                vh_violation("C02:messages-in-one-input-call", "table {%s}; \"%s\" in ONE input call: events got [%s] expected [%s] (each message starts with an empty path)", vh_buf_cstr(&tt), vh_esc(two.p, two.len), vh_esc(v->log.p, v->log.len), vh_esc(e2.p, e2.len));
            vh_count("messages.several_completed_by_one_input_call", 1);
        }
        SCPI_ErrorClear(v->ctx);
    }
    if (NU >= 3 && vh_want_sample()) vh_sample("table {%s} message \"%s\" -> %s", vh_buf_cstr(&tt), vh_esc(msg.p, msg.len), vh_esc(expect_log.p, expect_log.len));
    vh_ctx_free(v);
}

int main(int argc, char ** argv) {
    static const vh_phase_t phases[] = { { "messages", p0_count, p0_run } };
    vh_scribble_chunk_in_callbacks(1); vh_decoy_enable(7); vh_require("decoy.messages_run_on_a_second_context"); vh_require("unit.defined.relative.after-defined-compound"); vh_require("unit.defined.relative.after-undefined-compound");
    vh_require("unit.defined.relative.after-common"); vh_require("unit.undefined.relative.after-defined-compound");
    vh_require("unit.defined.absolute.after-defined-compound"); vh_require("unit.overlap_first_match_matters");
    vh_require("handler.iscmd_checks"); vh_require("messages.ended_by_zero_length_input_call"); vh_require("tables.installed_on_a_live_context"); vh_require("messages.on_a_context_that_served_earlier_messages"); vh_require("unit.first_match_without_handler_shadows_later_handler"); vh_require("tables.from_shipped_patterns"); vh_require("headers.numeric_suffix_above_65536"); vh_require("messages.several_completed_by_one_input_call"); vh_require("units.empty_unit_at_the_end"); vh_require("units.empty_unit_in_front"); vh_require("units.empty_unit_in_the_middle"); vh_require("messages.ended_by_separator_and_zero_length_call_followed_by_another_message");
    return vh_main(argc, argv, "C02", phases, 1);
}
