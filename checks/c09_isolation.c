/* C09 - messages and units are isolated: nothing but status and errors carries over.
 * Differential monitor: trace of B on a fresh context vs trace of B after A1..An on a used context. */
#include "vh_scpi.h"
#include <stdio.h>
#include <stdlib.h>
#include <string.h>

#define NSIG 19
static vh_sig_t sigs[NSIG];
static const scpi_command_t cmds[] = {
    { "T1", vh_handler, 1 }, { "TXT", vh_handler, 2 }, { "BLK", vh_handler, 3 }, { "NUM", vh_handler, 4 }, { "Q?", vh_handler, 5 },
    { "QF?", vh_handler, 6 }, { "QP?", vh_handler, 7 }, { "QE?", vh_handler, 8 }, { "QUB?", vh_handler, 9 }, { "QOB?", vh_handler, 10 },
    { "SYSTem:Q2?", vh_handler, 11 }, { "SYSTem:CH", vh_handler, 12 }, { "*IDN?", vh_handler, 13 }, { "CERR", vh_handler, 14 }, { "QS?", vh_handler, 15 },
    { "SYSTem:SUB:Q3?", vh_handler, 16 }, { "QD?", vh_handler, 17 },
    /* overlapping entries: `TEST:CHAN?` is accepted by both, the first one wins whatever ran before */
    { "TEST:CHANnel?", vh_handler, 18 }, { "TEST:CHANnel#?", vh_handler, 19 }, { "Q?", vh_handler, 19 },
    SCPI_CMD_LIST_END
};
static const char blk[] = "0123456789;\n\"x";

static void init_sigs(void) {
    memset(sigs, 0, sizeof sigs);
    sigs[0].nsteps = 2; sigs[0].steps[0] = (vh_step_t) { VR_RAW, 1, 0 }; sigs[0].steps[1] = (vh_step_t) { VR_RAW, 0, 0 };
    sigs[1].nsteps = 1; sigs[1].steps[0] = (vh_step_t) { VR_COPYTEXT, 1, 40 };
    sigs[2].nsteps = 2; sigs[2].steps[0] = (vh_step_t) { VR_BLOCK, 1, 0 }; sigs[2].steps[1] = (vh_step_t) { VR_INT32, 0, 0 };
    sigs[3].nsteps = 2; sigs[3].steps[0] = (vh_step_t) { VR_NUMBER, 1, 9 }; sigs[3].steps[1] = (vh_step_t) { VR_DOUBLE, 0, 0 };
    sigs[4].nsteps = 1; sigs[4].steps[0] = (vh_step_t) { VR_CHARS, 0, 0 };
    sigs[4].nouts = 3; sigs[4].outs[0].kind = VO_INT32; sigs[4].outs[0].u = 42; sigs[4].outs[1].kind = VO_TEXT; sigs[4].outs[1].data = "a\"b"; sigs[4].outs[1].len = 3; sigs[4].outs[2].kind = VO_DOUBLE; sigs[4].outs[2].d = 2.5;
    sigs[5].nouts = 2; sigs[5].outs[0].kind = VO_INT32; sigs[5].outs[0].u = 1; sigs[5].outs[1] = sigs[5].outs[0]; sigs[5].verdict = VV_ERR; sigs[5].fail_after = 0;
    sigs[6].nouts = 3; sigs[6].outs[0].kind = VO_INT32; sigs[6].outs[0].u = 7; sigs[6].outs[1].kind = VO_BOOL; sigs[6].outs[1].u = 1; sigs[6].outs[2] = sigs[6].outs[0]; sigs[6].verdict = VV_ERR; sigs[6].fail_after = 2;
    sigs[7].nouts = 1; sigs[7].outs[0].kind = VO_MNEM; sigs[7].outs[0].data = "WARN"; sigs[7].outs[0].len = 4; sigs[7].verdict = VV_OWNERR_OK; sigs[7].own_err = -222; sigs[7].fail_after = 1;
    sigs[8].nouts = 2; sigs[8].outs[0].kind = VO_INT32; sigs[8].outs[0].u = 3; sigs[8].outs[1].kind = VO_BLOCK_STREAM; sigs[8].outs[1].data = blk; sigs[8].outs[1].len = 6; sigs[8].outs[1].announce_delta = 5; sigs[8].outs[1].split[0] = 2;
    sigs[9].nouts = 2; sigs[9].outs[0].kind = VO_BLOCK_STREAM; sigs[9].outs[0].data = blk; sigs[9].outs[0].len = 8; sigs[9].outs[0].announce_delta = -3; sigs[9].outs[0].split[0] = 3; sigs[9].outs[1].kind = VO_INT32; sigs[9].outs[1].u = 9;
    sigs[10].nouts = 1; sigs[10].outs[0].kind = VO_DOUBLE; sigs[10].outs[0].d = 1.5;
    sigs[11].nsteps = 2; sigs[11].steps[0] = (vh_step_t) { VR_CHARS, 1, 0 }; sigs[11].steps[1] = (vh_step_t) { VR_BOOL, 0, 0 };
    sigs[12].nouts = 2; sigs[12].outs[0].kind = VO_MNEM; sigs[12].outs[0].data = "VERIF"; sigs[12].outs[0].len = 5; sigs[12].outs[1].kind = VO_UINT32; sigs[12].outs[1].base = 16; sigs[12].outs[1].u = 0xBEEF;
    sigs[13].verdict = VV_OWNERR_ERR; sigs[13].own_err = -221;
    sigs[14].nouts = 2; sigs[14].outs[0].kind = VO_BLOCK_STREAM; sigs[14].outs[0].data = blk; sigs[14].outs[0].len = sizeof blk - 1; sigs[14].outs[0].split[0] = 4; sigs[14].outs[0].split[1] = 0; sigs[14].outs[1].kind = VO_INT32; sigs[14].outs[1].u = 5;
    /* block data without a header must be refused whatever an earlier unit left announced */
    sigs[16].nouts = 3; sigs[16].outs[0].kind = VO_INT32; sigs[16].outs[0].u = 1; sigs[16].outs[1].kind = VO_BLOCK_DATA_ONLY; sigs[16].outs[1].data = blk; sigs[16].outs[1].len = 3; sigs[16].outs[2].kind = VO_INT32; sigs[16].outs[2].u = 2;
    sigs[17].nouts = 1; sigs[17].outs[0].kind = VO_MNEM; sigs[17].outs[0].data = "ALL"; sigs[17].outs[0].len = 3;
    sigs[18].want_numbers = 1; sigs[18].nouts = 1; sigs[18].outs[0].kind = VO_INT32; sigs[18].outs[0].u = 19;
    sigs[15].nouts = 1; sigs[15].outs[0].kind = VO_UINT64; sigs[15].outs[0].base = 2; sigs[15].outs[0].u = 5;
}

static void gen_str(vh_rng_t * rng, vh_buf_t * b) {
    char q = vh_chance(rng, 1, 2) ? '"' : '\''; size_t m = vh_below(rng, 8), i;
    vh_buf_addc(b, q);
    for (i = 0; i < m; i++) { uint32_t r = vh_below(rng, 10); char c = r == 0 ? '\n' : r == 1 ? ';' : r == 2 ? q : r == 3 ? ',' : (char) ('a' + vh_below(rng, 26)); vh_buf_addc(b, c); if (c == q) vh_buf_addc(b, c); }
    vh_buf_addc(b, q);
}
static void gen_blk(vh_rng_t * rng, vh_buf_t * b) {
    size_t m = vh_below(rng, 12), i; vh_buf_printf(b, "#%d%zu", m >= 10 ? 2 : 1, m);
    for (i = 0; i < m; i++) { uint32_t r = vh_below(rng, 6); vh_buf_addc(b, r == 0 ? '\n' : r == 1 ? ';' : r == 2 ? '"' : (int) (vh_rand(rng) & 0xff)); }
}
/* kind of unit; 'bad' units raise errors or leave things unfinished */
static void gen_unit(vh_rng_t * rng, vh_buf_t * b, int * flags) {
    static const char * const nums[] = { "1", "-2.5", "3e2", "10 V", "2.5MV", "MIN", "#HFF", "7 FOO", "\"str\"" };
    switch (vh_below(rng, 26)) {
        case 0: vh_buf_adds(b, "T1 "); gen_str(rng, b); if (vh_chance(rng, 1, 2)) { vh_buf_adds(b, ", "); vh_buf_adds(b, nums[vh_below(rng, 9)]); } break;
        case 1: vh_buf_adds(b, "TXT "); gen_str(rng, b); break;
        case 2: vh_buf_adds(b, "BLK "); gen_blk(rng, b); if (vh_chance(rng, 1, 3)) vh_buf_adds(b, ",12"); break;
        case 3: vh_buf_adds(b, "NUM "); vh_buf_adds(b, nums[vh_below(rng, 9)]); break;
        case 4: vh_buf_adds(b, vh_chance(rng, 1, 2) ? "Q?" : "q? abc"); *flags |= 1; break;
        case 5: vh_buf_adds(b, "QF?"); *flags |= 2; break;
        case 6: vh_buf_adds(b, "QP?"); *flags |= 2 | 1; break;
        case 7: vh_buf_adds(b, "QE?"); *flags |= 2 | 1; break;
        case 8: vh_buf_adds(b, "QUB?"); *flags |= 4 | 1; break;
        case 9: vh_buf_adds(b, "QOB?"); *flags |= 4 | 1; break;
        case 10: vh_buf_adds(b, vh_chance(rng, 1, 2) ? "SYST:Q2?" : ":SYSTEM:Q2?"); *flags |= 1 | 8; break;
        case 11: vh_buf_adds(b, "SYST:CH "); gen_str(rng, b); vh_buf_adds(b, ",ON"); *flags |= 8; break;
        case 12: vh_buf_adds(b, "*IDN?"); *flags |= 1; break;
        case 13: vh_buf_adds(b, "CERR"); *flags |= 2; break;
        case 14: vh_buf_adds(b, "QS?"); *flags |= 1; break;
        case 15: vh_buf_adds(b, vh_chance(rng, 1, 2) ? "Q2?" : "SUB:Q3?"); *flags |= 16; break; /* relative: defined only after a SYSTem: unit of the SAME message */
        case 16: vh_buf_adds(b, "FOO:BAR 1"); *flags |= 2; break;
        case 17: vh_buf_adds(b, "T1 1,2,3"); *flags |= 2; break; /* -108 */
        case 18: vh_buf_adds(b, "TXT"); *flags |= 2; break;      /* -109 */
        case 19: vh_buf_adds(b, vh_chance(rng, 1, 2) ? "$" : "T1 1,,2"); *flags |= 2; break; /* -101 */
        case 20: vh_buf_adds(b, vh_chance(rng, 1, 2) ? "SYST:" : "*"); *flags |= 2 | 8; break; /* incomplete header */
        case 21: vh_buf_adds(b, "QD?"); *flags |= 1 | 2 | 32; break;
        case 23: vh_buf_adds(b, vh_chance(rng, 1, 2) ? "TEST:CHAN?" : ":test:channel?"); *flags |= 1 | 8 | 64; break;                       /* accepted by two entries */
        case 24: vh_buf_printf(b, "TEST:CHAN%u?", 1 + vh_below(rng, 9)); *flags |= 1 | 8 | 128; break;                                          /* accepted by the later one only */
        case 25: vh_buf_adds(b, "CHAN?"); *flags |= 16; break;                                                                                   /* relative: defined only after a TEST: unit */
        default: vh_buf_adds(b, "SYST:SUB:Q3?"); *flags |= 1 | 8; break;
    }
}
static size_t g_termlen; /* terminator length of the message generated last */
static void gen_msg(vh_rng_t * rng, vh_buf_t * b, int * flags) {
    int nu = 1 + (int) vh_below(rng, 4), u;
    for (u = 0; u < nu; u++) { if (u) vh_buf_addc(b, ';'); if (vh_chance(rng, 1, 6)) vh_buf_addc(b, ' '); gen_unit(rng, b, flags); }
    { int crlf = vh_chance(rng, 1, 5); vh_buf_adds(b, crlf ? "\r\n" : "\n"); g_termlen = crlf ? 2 : 1; }
}

static void capture(vh_ctx_t * v, vh_buf_t * into) {
    /* service-request events depend on the registers the history left behind and are not compared */
    const char * p = vh_buf_cstr(&v->log);
    vh_buf_reset(into);
    while (*p) { const char * e = strchr(p, '\n'); size_t n = e ? (size_t) (e - p) + 1 : strlen(p); if (p[0] != 'S') vh_buf_add(into, p, n); p += n; }
    vh_buf_adds(into, "|OUT|"); vh_buf_add(into, v->out.p, v->out.len);
}

static uint64_t p0_count(int thorough) {
#if VH_ASAN
    return vh_scaled(thorough ? 1000000 : 80000);
#else
    return vh_scaled(thorough ? 5000000 : 300000);
#endif
}
static void p0_run(uint64_t idx, vh_rng_t * rng) {
    static vh_buf_t A[6], B, alone, after, all;
    int na = (idx % 3 == 0) ? 1 + (int) vh_below(rng, 6) : 1, i, fa = 0, fb = 0, overrun = 0, zero_flush = 0, reinit = 0, mixed = 0;
    vh_ctx_t * v; size_t bufsize = 512, btl = 1; char key[128]; int joined = 0, bn = 1;
    if (!sigs[0].nsteps) init_sigs();
    vh_buf_reset(&all);
    for (i = 0; i < na; i++) { vh_buf_reset(&A[i]); gen_msg(rng, &A[i], &fa); vh_buf_add(&all, A[i].p, A[i].len); }
    vh_buf_reset(&B); gen_msg(rng, &B, &fb);
    if (vh_chance(rng, 1, 6)) { int k = 1 + (int) vh_below(rng, 2); bn += k; while (k--) gen_msg(rng, &B, &fb); } /* B may be several messages */
    btl = g_termlen;
    if (vh_chance(rng, 1, 12)) overrun = 1;
    if (vh_chance(rng, 1, 10)) zero_flush = 1;
    vh_case_desc("A = \"%s\" (%d messages%s) then B = \"%s\"", vh_esc(all.p, all.len), na, overrun ? " + overrunning chunk" : "", vh_esc(B.p, B.len));
    if (idx % 4 == 2) {
        /* the same comparison through the line parser itself: the application hands complete lines to SCPI_Parse, re-using ONE
         * line buffer (same address; B is also tried padded to A's length, so that address and length of consecutive lines agree) */
        static char * line; int pad = vh_chance(rng, 1, 2);
        if (!line) line = (char *) malloc(4096);
        if (pad && na == 1 && A[0].len > B.len && B.len > 0 && B.p[B.len - 1] == '\n' && !strchr(vh_buf_cstr(&B), '\r')) { /* white space before the terminator is legal */
            size_t add = A[0].len - B.len; B.len--; while (add--) vh_buf_addc(&B, ' '); vh_buf_addc(&B, '\n');
        }
        if (all.len < 4000 && B.len < 4000) {
            v = vh_ctx_new(cmds, bufsize, 64, 1024); v->sigs = sigs; v->nsigs = NSIG;
            memcpy(line, B.p, B.len); line[B.len] = 0; SCPI_Parse(v->ctx, line, (int) B.len);
            capture(v, &alone);
            vh_ctx_free(v);
            v = vh_ctx_new(cmds, bufsize, 64, 1024); v->sigs = sigs; v->nsigs = NSIG;
            for (i = 0; i < na; i++) { memcpy(line, A[i].p, A[i].len); line[A[i].len] = 0; SCPI_Parse(v->ctx, line, (int) A[i].len); }
            vh_ctx_clear_capture(v);
            memcpy(line, B.p, B.len); line[B.len] = 0; SCPI_Parse(v->ctx, line, (int) B.len);
            capture(v, &after);
            vh_eval(2);
            if (alone.len != after.len || memcmp(alone.p, after.p, alone.len) != 0) {
                snprintf(key, sizeof key, "C09:trace-of-B-differs:direct-line-parse%s", (na == 1 && A[0].len == B.len) ? ":same-length-lines" : "");
                vh_violation(key, "SCPI_Parse on one re-used line buffer: A = \"%s\"; B = \"%s\": B alone -> [%s]; B after A -> [%s]", vh_esc(all.p, all.len), vh_esc(B.p, B.len), vh_esc(alone.p, alone.len), vh_esc(after.p, after.len));
            }
            vh_ctx_free(v);
            vh_count("pairs.direct_line_parse", 1);
            if (na == 1 && A[0].len == B.len) vh_count("pairs.direct_line_parse_same_length", 1);
        }
        return;
    }
    /* one case in sixteen: the last message of A and B - without its terminator - arrive in ONE input call, and B is ended by a zero-length
     * (flush) call. A is executed by that call, B stays pending behind it and must then behave as B ended by a flush does on a new context */
    joined = (idx % 16 == 1) && bn == 1 && !overrun && !zero_flush && B.len > btl && A[na - 1].len + B.len + 2 < bufsize;
    /* B alone */
    v = vh_ctx_new(cmds, bufsize, 64, 1024); v->sigs = sigs; v->nsigs = NSIG;
    if (joined) { vh_input(v, B.p, B.len - btl); vh_input(v, NULL, 0); } else
    vh_input(v, B.p, B.len);
    capture(v, &alone);
    vh_ctx_free(v);
    /* B after A */
    v = vh_ctx_new(cmds, bufsize, 64, 1024); v->sigs = sigs; v->nsigs = NSIG;
    if (joined) {
        static vh_buf_t J;
        for (i = 0; i + 1 < na; i++) vh_input(v, A[i].p, A[i].len);
        vh_buf_reset(&J); vh_buf_add(&J, A[na - 1].p, A[na - 1].len); vh_buf_add(&J, B.p, B.len - btl);
        vh_input(v, J.p, J.len);
        vh_ctx_clear_capture(v);
        vh_input(v, NULL, 0);
        capture(v, &after);
        vh_count("pairs.B_pending_behind_A_in_one_call_then_flushed", 1);
        goto compare;
    }
    for (i = 0; i < na; i++) { if (vh_chance(rng, 1, 3)) { size_t h = A[i].len / 2; vh_input(v, A[i].p, h); vh_input(v, A[i].p + h, A[i].len - h); } else vh_input(v, A[i].p, A[i].len); }
    if (overrun) {
        /* what is pending when the overrunning chunk arrives: an unfinished string, or complete ';'-terminated units of a message whose
         * terminator has not arrived yet (delivered in one or two calls) */
        static vh_buf_t P; int dummy = 0; size_t fill;
        vh_buf_reset(&P);
        if (vh_chance(rng, 1, 2)) vh_buf_add(&P, "T1 \"pend", 8);
        else {
            gen_msg(rng, &P, &dummy);
            while (P.len && (P.p[P.len - 1] == '\n' || P.p[P.len - 1] == '\r')) P.len--;
            vh_buf_addc(&P, ';');
            if (vh_chance(rng, 1, 2)) { gen_msg(rng, &P, &dummy); while (P.len && (P.p[P.len - 1] == '\n' || P.p[P.len - 1] == '\r')) P.len--; vh_buf_addc(&P, ';'); }
            if (P.len + 2 >= bufsize) { vh_buf_reset(&P); vh_buf_add(&P, "Q1?;Q1?;", 8); }
            vh_count("A.overrun_with_pending_complete_units", 1);
        }
        if (P.len > 3 && vh_chance(rng, 1, 2)) { size_t h = 1 + vh_below(rng, (uint32_t) P.len - 1); vh_input(v, P.p, h); vh_input(v, P.p + h, P.len - h); } else vh_input(v, P.p, P.len);
        fill = bufsize + 10;
        { char * big = (char *) malloc(fill); memset(big, 'A', fill); vh_input(v, big, fill); free(big); }
    }
    if (zero_flush) vh_input(v, NULL, 0);
    /* a deferred result: the application writes a result item (and its own terminator) outside any command callback, between two messages -
     * the result writers are public and the library's own tests use them that way */
    if (idx % 16 == 9) { SCPI_ResultInt32(v->ctx, 5); if (vh_chance(rng, 1, 2)) SCPI_ResultText(v->ctx, "late"); vh_count("history.result_written_outside_a_command", 1); }
    /* the application may initialise the same context object and buffers again: then NOTHING of A is left, not even status and errors */
    if (idx % 8 == 5) { vh_ctx_reinit(v); v->sigs = sigs; v->nsigs = NSIG; reinit = 1; }
    vh_ctx_clear_capture(v);
    if (idx % 8 == 7 && B.len >= 2) {
        /* two sources feed one context: B arrives through the input function in two pieces, and between the pieces the application hands a
         * complete message of its own (front panel, macro) straight to the line parser. That message is a history like any other. */
        static vh_buf_t M; int dummy = 0; size_t h = 1 + vh_below(rng, (uint32_t) B.len - 1), ol, ll; char * line; unsigned nf, ne;
        vh_input(v, B.p, h);
        ol = v->out.len; ll = v->log.len; nf = v->nflush; ne = (unsigned) v->nerrs;
        vh_buf_reset(&M); gen_msg(rng, &M, &dummy); if (vh_chance(rng, 1, 2)) { M.len--; while (M.len && M.p[M.len - 1] == '\r') M.len--; vh_buf_addc(&M, ';'); gen_msg(rng, &M, &dummy); }
        line = (char *) malloc(M.len + 1); memcpy(line, M.p, M.len); line[M.len] = 0;
        SCPI_Parse(v->ctx, line, (int) M.len);
        free(line);
        v->out.len = ol; v->log.len = ll; v->nflush = nf; v->nerrs = (int) ne; /* its own events are not B's */
        vh_input(v, B.p + h, B.len - h);
        vh_count("pairs.line_parsed_directly_between_two_pieces_of_B", 1);
        mixed = 1;
    } else
    vh_input(v, B.p, B.len);
    capture(v, &after);
    if (reinit) {
        int i2; uint16_t regs_fresh[10], regs_re[10]; vh_ctx_t * w = vh_ctx_new(cmds, bufsize, 64, 1024); w->sigs = sigs; w->nsigs = NSIG;
        vh_input(w, B.p, B.len);
        for (i2 = 0; i2 < 10; i2++) { regs_fresh[i2] = SCPI_RegGet(w->ctx, (scpi_reg_name_t) i2); regs_re[i2] = SCPI_RegGet(v->ctx, (scpi_reg_name_t) i2); }
        if (memcmp(regs_fresh, regs_re, sizeof regs_fresh) != 0 || SCPI_ErrorCount(w->ctx) != SCPI_ErrorCount(v->ctx))
            vh_violation("C09:reinitialised-context-differs-from-a-new-one:status-or-errors", "A = \"%s\"; SCPI_Init again; B = \"%s\": registers/error count after B differ from a new context (STB 0x%02x vs 0x%02x, ESR 0x%02x vs 0x%02x, errors %d vs %d)", vh_esc(all.p, all.len), vh_esc(B.p, B.len), regs_re[0], regs_fresh[0], regs_re[2], regs_fresh[2], (int) SCPI_ErrorCount(v->ctx), (int) SCPI_ErrorCount(w->ctx));
        vh_ctx_free(w);
        vh_count("pairs.context_initialised_again_between_A_and_B", 1);
    }
compare:
    vh_eval(2);
    if (alone.len != after.len || memcmp(alone.p, after.p, alone.len) != 0) {
        const char * cls = (fa & 4) ? "after-unfinished-or-overlong-block" : (fa & 2) ? "after-failing-message" : "after-succeeding-message";
        const char * bcls = (fb & 16) ? "B-starts-relative" : (fb & 1) ? "B-responds" : "B-silent";
        snprintf(key, sizeof key, "C09:trace-of-B-differs:%s:%s%s%s", cls, bcls, overrun ? ":after-overrun" : "", reinit ? ":after-SCPI_Init-again" : mixed ? ":line-parsed-directly-in-between" : joined ? ":pending-behind-A-in-one-call-then-flushed" : "");
        vh_violation(key, "A = \"%s\"%s%s; B = \"%s\": B alone -> [%s]; B after A -> [%s]", vh_esc(all.p, all.len), overrun ? " + pending bytes and an overrunning chunk" : "", zero_flush ? " + flush" : "", vh_esc(B.p, B.len), vh_esc(alone.p, alone.len), vh_esc(after.p, after.len));
    }
    vh_ctx_free(v);
    vh_count("pairs", 1);
    if (na > 1) vh_count("A.sequence_of_messages", 1);
    if (fa & 2) vh_count("A.raises_errors", 1);
    if (fa & 4) vh_count("A.leaves_block_unfinished_or_overlong", 1);
    if (fa & 8) vh_count("A.ends_with_compound_path", 1);
    if (fa & 1) vh_count("A.responds", 1);
    if (overrun) vh_count("A.overrun_with_pending_bytes", 1);
    if (fb & 16) vh_count("B.uses_relative_header", 1);
    if ((fa & 128) && (fb & 64)) vh_count("pairs.A_ran_the_later_of_two_overlapping_entries_B_is_accepted_by_both", 1);
    if (fb & 1) vh_count("B.responds", 1);
    if (fb & 4) vh_count("B.streams_block", 1);
    if ((fa & 4) && (fb & 32)) vh_count("B.block_data_without_header_after_unfinished_block", 1);
    vh_distinct(vh_hash(all.p, all.len, vh_hash(B.p, B.len, 9 + (uint64_t) overrun * 2 + (uint64_t) zero_flush)));
    if (na > 1 && vh_want_sample()) vh_sample("A = \"%s\"; B = \"%s\" -> B's trace identical on fresh and used context (%zu bytes of trace)", vh_esc(all.p, all.len), vh_esc(B.p, B.len), alone.len);
}

/* ---- phase 1: unit-level isolation inside one message -------------------------------------------------------
 * "X;U" on a fresh context must behave like "X" and "U" sent as two messages (U written with an absolute header):
 * same handler/parameter/error events, and the response is the two responses joined by ';' under one terminator. */
static void strip_flush_lines(const vh_buf_t * log, vh_buf_t * into) {
    const char * p = log->len ? log->p : ""; size_t left = log->len;
    while (left) { const char * e = memchr(p, '\n', left); size_t n = e ? (size_t) (e - p) + 1 : left; if (p[0] != 'F' && p[0] != 'S') vh_buf_add(into, p, n); p += n; left -= n; }
}
static uint64_t p1_count(int thorough) {
#if VH_ASAN
    return vh_scaled(thorough ? 500000 : 50000);
#else
    return vh_scaled(thorough ? 3000000 : 200000);
#endif
}
static void p1_run(uint64_t idx, vh_rng_t * rng) {
    static vh_buf_t X, U, m1, ev1, ev2, out2, expect;
    int fx = 0, fu = 0; vh_ctx_t * v; size_t le = strlen(SCPI_LINE_ENDING), rx, ru; char key[128];
    (void) idx;
    if (!sigs[0].nsteps) init_sigs();
    vh_buf_reset(&X); vh_buf_reset(&U); vh_buf_reset(&m1); vh_buf_reset(&ev1); vh_buf_reset(&ev2); vh_buf_reset(&out2); vh_buf_reset(&expect);
    gen_unit(rng, &X, &fx);
    if (vh_chance(rng, 1, 3)) { vh_buf_addc(&X, ';'); gen_unit(rng, &X, &fx); } /* X may itself be two units */
    gen_unit(rng, &U, &fu);
    if (U.len == 0 || (U.p[0] != '*' && U.p[0] != ':')) { vh_buf_t t = { 0, 0, 0 }; vh_buf_addc(&t, ':'); vh_buf_add(&t, U.p, U.len); vh_buf_reset(&U); vh_buf_add(&U, t.p, t.len); vh_buf_free(&t); }
    vh_buf_add(&m1, X.p, X.len); vh_buf_addc(&m1, ';'); vh_buf_add(&m1, U.p, U.len); vh_buf_addc(&m1, '\n');
    vh_case_desc("units X = \"%s\" and U = \"%s\"", vh_esc(X.p, X.len), vh_esc(U.p, U.len));
    /* one message */
    v = vh_ctx_new(cmds, 512, 64, 1024); v->sigs = sigs; v->nsigs = NSIG;
    vh_input(v, m1.p, m1.len);
    strip_flush_lines(&v->log, &ev1);
    /* two messages */
    {
        vh_ctx_t * w = vh_ctx_new(cmds, 512, 64, 1024); vh_buf_t t = { 0, 0, 0 };
        w->sigs = sigs; w->nsigs = NSIG;
        vh_buf_add(&t, X.p, X.len); vh_buf_addc(&t, '\n'); vh_input(w, t.p, t.len);
        strip_flush_lines(&w->log, &ev2); rx = w->out.len; vh_buf_add(&out2, w->out.p, w->out.len);
        vh_ctx_clear_capture(w);
        vh_buf_reset(&t); vh_buf_add(&t, U.p, U.len); vh_buf_addc(&t, '\n'); vh_input(w, t.p, t.len);
        strip_flush_lines(&w->log, &ev2); ru = w->out.len;
        /* expected joined response */
        if (rx >= le) vh_buf_add(&expect, out2.p, rx - le);
        if (rx >= le && ru >= le) vh_buf_addc(&expect, ';');
        if (ru >= le) vh_buf_add(&expect, w->out.p, ru - le);
        if (rx >= le || ru >= le) vh_buf_adds(&expect, SCPI_LINE_ENDING);
        vh_buf_free(&t); vh_ctx_free(w);
    }
    vh_eval(2);
    if (ev1.len != ev2.len || (ev1.len && memcmp(ev1.p, ev2.p, ev1.len) != 0)) {
        snprintf(key, sizeof key, "C09:unit-trace-differs:%s", (fx & 4) ? "after-unit-with-unfinished-block" : (fx & 2) ? "after-failing-unit" : "after-succeeding-unit");
        vh_violation(key, "\"%s\" as one message -> events [%s]; as two messages -> [%s]", vh_esc(m1.p, m1.len), vh_esc(ev1.p, ev1.len), vh_esc(ev2.p, ev2.len));
    } else if (v->out.len != expect.len || (expect.len && memcmp(v->out.p, expect.p, expect.len) != 0)) {
        snprintf(key, sizeof key, "C09:unit-output-differs:%s", (fx & 4) ? "after-unit-with-unfinished-block" : (fx & 2) ? "after-failing-unit" : "after-succeeding-unit");
        vh_violation(key, "\"%s\" wrote \"%s\"; the same units as two messages join to \"%s\"", vh_esc(m1.p, m1.len), vh_esc(v->out.p, v->out.len), vh_esc(expect.p, expect.len));
    }
    vh_ctx_free(v);
    vh_count("unitpairs", 1);
    if (fx & 2) vh_count("unit.X_raises_errors", 1);
    if (fx & 4) vh_count("unit.X_leaves_block_unfinished", 1);
    if ((fx & 4) && (fu & 32)) vh_count("unit.block_data_without_header_after_unfinished_block", 1);
    if ((fx & 2) && (fu & 2)) vh_count("unit.both_units_raise_errors", 1);
    vh_distinct(vh_hash(m1.p, m1.len, 12));
}

int main(int argc, char ** argv) {
    static const vh_phase_t phases[] = { { "pairs", p0_count, p0_run }, { "units within one message", p1_count, p1_run } };
    vh_scribble_chunk_in_callbacks(1); vh_decoy_enable(7); vh_require("decoy.messages_run_on_a_second_context"); vh_require("pairs.direct_line_parse_same_length"); vh_require("unit.X_raises_errors"); vh_require("unit.block_data_without_header_after_unfinished_block"); vh_require("unit.both_units_raise_errors");
    vh_require("A.sequence_of_messages"); vh_require("A.raises_errors"); vh_require("A.leaves_block_unfinished_or_overlong"); vh_require("A.ends_with_compound_path");
    vh_require("A.overrun_with_pending_bytes"); vh_require("history.result_written_outside_a_command"); vh_require("pairs.line_parsed_directly_between_two_pieces_of_B"); vh_require("pairs.context_initialised_again_between_A_and_B"); vh_require("pairs.A_ran_the_later_of_two_overlapping_entries_B_is_accepted_by_both"); vh_require("A.overrun_with_pending_complete_units"); vh_require("B.uses_relative_header"); vh_require("B.responds"); vh_require("A.responds"); vh_require("B.block_data_without_header_after_unfinished_block");
    return vh_main(argc, argv, "C09", phases, 2);
}
