/* C14 - integer-to-text conversion is exact for every value, base and buffer size.
 * Oracle: independent formatter (digits from the least significant end with % and /). */
#include "vh_scpi.h"
#include <stdio.h>
#include <stdlib.h>
#include <string.h>

/* ---- reference -------------------------------------------------------------------- */
static int ref_fmt(uint64_t val, int bits, int base, int sign, char * out) {
    /* bits: 32 or 64; base: any (not 2/8/16 means 10); sign: treat as signed (only matters for decimal) */
    char tmp[80]; int n = 0, k = 0, neg = 0;
    uint64_t mag;
    if (base != 2 && base != 8 && base != 16) base = 10;
    if (bits == 32) val &= 0xffffffffULL;
    mag = val;
    if (sign && base == 10) {
        if (bits == 32) { if (val & 0x80000000ULL) { neg = 1; mag = (0x100000000ULL - val); } }
        else { if (val & 0x8000000000000000ULL) { neg = 1; mag = (~val) + 1; } }
    }
    if (mag == 0) tmp[n++] = '0';
    while (mag) { tmp[n++] = "0123456789ABCDEF"[mag % (uint64_t) base]; mag /= (uint64_t) base; }
    if (neg) out[k++] = '-';
    while (n) out[k++] = tmp[--n];
    out[k] = 0;
    return k;
}

/* ---- functions under test ----------------------------------------------------------- */
enum { F_INT32, F_UINT32BASE, F_INT64, F_UINT64BASE, F_W32, F_W64, F__N };
static const char * const fnames[F__N] = { "SCPI_Int32ToStr", "SCPI_UInt32ToStrBase", "SCPI_Int64ToStr", "SCPI_UInt64ToStrBase", "UInt32ToStrBaseSign", "UInt64ToStrBaseSign" };

static size_t call(int f, uint64_t v, char * buf, size_t len, int base, int sign) {
    switch (f) {
        case F_INT32: return SCPI_Int32ToStr((int32_t) (uint32_t) v, buf, len);
        case F_UINT32BASE: return SCPI_UInt32ToStrBase((uint32_t) v, buf, len, (int8_t) base);
        case F_INT64: return SCPI_Int64ToStr((int64_t) v, buf, len);
        case F_UINT64BASE: return SCPI_UInt64ToStrBase(v, buf, len, (int8_t) base);
        case F_W32: return UInt32ToStrBaseSign((uint32_t) v, buf, len, (int8_t) base, sign ? TRUE : FALSE);
        default: return UInt64ToStrBaseSign(v, buf, len, (int8_t) base, sign ? TRUE : FALSE);
    }
}
static int fbits(int f) { return (f == F_INT32 || f == F_UINT32BASE || f == F_W32) ? 32 : 64; }
static int fsign(int f, int sign) { return f == F_INT32 || f == F_INT64 ? 1 : (f == F_UINT32BASE || f == F_UINT64BASE ? 0 : sign); }
static int fbase(int f, int base) { return (f == F_INT32 || f == F_INT64) ? 10 : base; }

#define GUARD 16
/* one call with buffer length L; checks text prefix, NUL, return value and that nothing outside the buffer is written */
static void check_one(int f, uint64_t v, int base, int sign, size_t L) {
    char exp[80]; int n = ref_fmt(v, fbits(f), fbase(f, base), fsign(f, sign), exp);
    size_t want = (size_t) n < L ? (size_t) n : L, ret, i;
    vh_eval(1);
#if VH_ASAN
    {
        char * buf = (char *) malloc(L); /* exact size: one byte too far traps */
        if (L) memset(buf, 0xA5, L);
        ret = call(f, v, buf, L, base, sign);
        if (ret != want) vh_violation("C14:return-value", "%s(val=0x%llx base=%d sign=%d len=%zu) returned %zu, expected %zu (text %s)", fnames[f], (unsigned long long) v, base, sign, L, ret, want, exp);
        else if (memcmp(buf, exp, want) != 0) vh_violation("C14:digits", "%s(val=0x%llx base=%d sign=%d len=%zu) wrote \"%s\", expected prefix of \"%s\"", fnames[f], (unsigned long long) v, base, sign, L, vh_esc(buf, want), exp);
        else if ((size_t) n < L && buf[n] != 0) vh_violation("C14:nul-missing", "%s(val=0x%llx base=%d len=%zu): no NUL after %d characters", fnames[f], (unsigned long long) v, base, L, n);
        /* bytes of the caller's buffer behind the terminator are the function's to use (the statement promises "nothing beyond the buffer"); a
         * formatter that pads them, strncpy-fashion, is fine (round 7, benign change C14-H) */
        (void) i;
        free(buf);
    }
#else
    {
        char area[GUARD + 96 + GUARD]; char * buf = area + GUARD;
        memset(area, 0xA5, sizeof area);
        ret = call(f, v, buf, L, base, sign);
        if (ret != want) vh_violation("C14:return-value", "%s(val=0x%llx base=%d sign=%d len=%zu) returned %zu, expected %zu (text %s)", fnames[f], (unsigned long long) v, base, sign, L, ret, want, exp);
        else if (memcmp(buf, exp, want) != 0) vh_violation("C14:digits", "%s(val=0x%llx base=%d sign=%d len=%zu) wrote \"%s\", expected prefix of \"%s\"", fnames[f], (unsigned long long) v, base, sign, L, vh_esc(buf, want), exp);
        else if ((size_t) n < L && buf[n] != 0) vh_violation("C14:nul-missing", "%s(val=0x%llx base=%d len=%zu): no NUL after %d characters", fnames[f], (unsigned long long) v, base, L, n);
        else {
            for (i = 0; i < GUARD; i++) if ((unsigned char) area[i] != 0xA5) { vh_violation("C14:underrun", "%s(val=0x%llx base=%d len=%zu) wrote before the buffer", fnames[f], (unsigned long long) v, base, L); break; }
            for (i = L; i < 96 + GUARD; i++) if ((unsigned char) buf[i] != 0xA5) { vh_violation("C14:overrun", "%s(val=0x%llx base=%d len=%zu) modified byte %zu", fnames[f], (unsigned long long) v, base, L, i); break; }
        }
    }
#endif
}

static const int bases4[4] = { 2, 8, 10, 16 };
static const int odd_bases[6] = { 0, 1, 7, 36, -1, 3 };

/* fast path for the sweep: big buffer, plain compare */
static inline void sweep_value(uint32_t v) {
    int b;
    char exp[80], got[80]; int n; size_t r;
    for (b = 0; b < 4; b++) {
        n = ref_fmt(v, 32, bases4[b], 0, exp);
        got[n + 1] = 0x5A;
        r = SCPI_UInt32ToStrBase(v, got, 70, (int8_t) bases4[b]);
        if (r != (size_t) n || memcmp(got, exp, (size_t) n + 1) != 0 || got[n + 1] != 0x5A) check_one(F_UINT32BASE, v, bases4[b], 0, 70);
        n = ref_fmt(v, 32, bases4[b], 1, exp);
        got[n + 1] = 0x5A;
        r = UInt32ToStrBaseSign(v, got, 70, (int8_t) bases4[b], TRUE);
        if (r != (size_t) n || memcmp(got, exp, (size_t) n + 1) != 0 || got[n + 1] != 0x5A) check_one(F_W32, v, bases4[b], 1, 70);
    }
    n = ref_fmt(v, 32, 10, 1, exp);
    r = SCPI_Int32ToStr((int32_t) v, got, 70);
    if (r != (size_t) n || memcmp(got, exp, (size_t) n + 1) != 0) check_one(F_INT32, v, 10, 1, 70);
    vh_eval(9);
}

/* values that are "sparse" in decimal: a few non-zero digits, long runs of zeros (k*10^18 + c, 10^a + 10^b, ...) */
static uint64_t sparse_decimal(vh_rng_t * rng) {
    uint64_t v = 0; int terms = 1 + (int) vh_below(rng, 3), t;
    for (t = 0; t < terms; t++) {
        uint64_t p = 1, d = 1 + vh_below(rng, 18); int e = (int) vh_below(rng, 20);
        while (e--) p *= 10;
        if (vh_chance(rng, 1, 3)) d = vh_below(rng, 1000000000u); /* a whole group of up to nine digits */
        v += d * p; /* wraps modulo 2^64 for the largest ones, still a legal value */
    }
    return vh_chance(rng, 1, 4) ? (uint64_t) (0 - v) : v;
}
/* a 32-bit word that is round in binary or in decimal (a converter working in words / in groups of digits compares words with such constants) */
static uint32_t round_word(vh_rng_t * rng) {
    uint32_t w;
    switch (vh_below(rng, 5)) {
        case 0: { w = 1; int k = (int) vh_below(rng, 10); while (k--) w *= 10; break; }          /* 10^k, k = 0..9 */
        case 1: w = 1u << vh_below(rng, 32); break;
        case 2: w = vh_chance(rng, 1, 2) ? 0xffffffffu : 0u; break;
        case 3: { static const uint32_t c[] = { 999999999u, 99999999u, 4294967295u / 10, 429496729u, 2147483647u, 65535u, 65536u, 10000u, 9999u }; w = c[vh_below(rng, sizeof c / sizeof c[0])]; break; }
        default: return (uint32_t) vh_rand(rng);
    }
    return w + (uint32_t) ((int32_t) vh_below(rng, 3) - 1);
}
/* values made of round words, and values whose quotient by a power of ten is a round word (the edges of a conversion done in chunks) */
static uint64_t word_structured(vh_rng_t * rng) {
    uint64_t v;
    if (vh_chance(rng, 1, 2)) v = ((uint64_t) round_word(rng) << 32) | (vh_chance(rng, 1, 2) ? round_word(rng) : (uint32_t) vh_rand(rng));
    else { uint64_t p = 1; int k = 1 + (int) vh_below(rng, 10); while (k--) p *= 10; v = (uint64_t) round_word(rng) * p + vh_rand(rng) % p; }
    return vh_chance(rng, 1, 4) ? (uint64_t) (0 - v) : v;
}
static uint64_t biased64(vh_rng_t * rng) {
    uint64_t r = vh_rand(rng);
    if (vh_below(rng, 6) == 0) return word_structured(rng);
    if (vh_below(rng, 5) == 0) return sparse_decimal(rng);
    if (vh_below(rng, 6) == 0) { /* round in decimal plus round in binary: d*10^e + c*2^k (remainders that are multiples of 2^32, 2^16, ...) */
        uint64_t p10 = 1, v; int e = (int) vh_below(rng, 20); while (e--) p10 *= 10;
        v = (1 + vh_below(rng, 18)) * p10 + ((uint64_t) (1 + vh_below(rng, 9)) << (8 * (1 + vh_below(rng, 7))));
        if (vh_chance(rng, 1, 4)) v += (uint64_t) (1 + vh_below(rng, 9)) << 32;
        return vh_chance(rng, 1, 4) ? (uint64_t) (0 - v) : v;
    }
    switch (vh_below(rng, 10)) {
        case 0: return r;
        case 1: return r >> vh_below(rng, 64);
        case 2: { uint64_t p = 1ULL << vh_below(rng, 64); return p + (uint64_t) ((int64_t) vh_below(rng, 5) - 2); }
        case 3: { uint64_t p = 1; int k = (int) vh_below(rng, 20); while (k--) p *= 10; return p + (uint64_t) ((int64_t) vh_below(rng, 5) - 2); }
        case 4: { uint64_t p = 1; int k = (int) vh_below(rng, 20); while (k--) p *= 10; return (uint64_t) (-(int64_t) p) + (uint64_t) ((int64_t) vh_below(rng, 5) - 2); }
        case 5: return (uint64_t) ((int64_t) vh_below(rng, 2001) - 1000);
        case 6: return 0x8000000000000000ULL + (uint64_t) ((int64_t) vh_below(rng, 5) - 2);
        case 7: return (r & 0xffffffffULL) | ((uint64_t) (vh_below(rng, 3)) << 32);
        case 8: { uint64_t p = 1ULL << (3 * vh_below(rng, 22)); return p + (uint64_t) ((int64_t) vh_below(rng, 3) - 1); }
        default: return ~(r >> vh_below(rng, 64));
    }
}

/* ---- phase 0: 32-bit sweep (plain build): block = one value of the high 16 bits ----- */
static const uint16_t quick_hi[] = { 0, 1, 2, 3, 7, 8, 9, 10, 15, 16, 99, 100, 127, 128, 152, 153, 255, 256, 1525, 1526, 15258, 15259, 0x3b9a, 0x3b9b,
    0x7ffe, 0x7fff, 0x8000, 0x8001, 0xc465, 0xc466, 0xfffe, 0xffff };
static uint64_t p0_count(int thorough) {
#if VH_ASAN
    (void) thorough; return 0;
#else
    return 65536;
#endif
}
static void p0_run(uint64_t idx, vh_rng_t * rng) {
    uint32_t hi = (uint32_t) idx << 16; uint32_t lo;
    int full = vh_args.thorough && (VH_FLAVOUR_DEFAULT || (idx & 31) == 7); /* all 2^32 values in the default flavour, every 32nd block plus the boundary blocks in the others */
    size_t i;
    vh_case_desc("32-bit sweep block hi=0x%04x", (unsigned) idx);
    if (!full) {
        for (i = 0; i < sizeof quick_hi / sizeof quick_hi[0]; i++) if (quick_hi[i] == idx) full = 1;
        if (!full && vh_below(rng, 256) < 1) full = 1; /* ~256 random blocks, seed dependent */
    }
    if (full) {
        for (lo = 0; lo < 65536; lo++) { vh_sub = hi | lo; sweep_value(hi | lo); }
        vh_count("sweep32.full_blocks", 1);
        vh_count("sweep32.values", 65536);
        for (lo = 0; lo < 65536; lo += 4099) vh_distinct(vh_hash_u64(hi | lo, 11));
    } else {
        static const uint16_t los[] = { 0, 1, 2, 9, 10, 99, 100, 999, 1000, 9999, 10000, 0x7fff, 0x8000, 0xfffe, 0xffff };
        for (i = 0; i < sizeof los / sizeof los[0]; i++) { vh_sub = hi | los[i]; sweep_value(hi | los[i]); }
        for (i = 0; i < 17; i++) { lo = vh_below(rng, 65536); vh_sub = hi | lo; sweep_value(hi | lo); }
        vh_count("sweep32.values", 32);
        vh_distinct(vh_hash_u64(hi, 12));
    }
    if (idx == 0x8000 && vh_want_sample()) { char t[40]; SCPI_Int32ToStr((int32_t) 0x80000000u, t, sizeof t); vh_sample("SCPI_Int32ToStr(INT32_MIN) -> \"%s\"", t); }
}

/* ---- phase 1: every buffer length 0..70 ------------------------------------------------ */
static uint64_t p1_count(int thorough) { return vh_scaled(thorough ? 40000 : 4000); }
static void p1_run(uint64_t idx, vh_rng_t * rng) {
    uint64_t v = idx < 8 ? (uint64_t[]) { 0, 1, 0x7fffffffULL, 0x80000000ULL, 0xffffffffULL, 0x7fffffffffffffffULL, 0x8000000000000000ULL, 0xffffffffffffffffULL }[idx] : biased64(rng);
    int f = (int) (idx % F__N), sign = (int) vh_below(rng, 2);
    int base = vh_chance(rng, 1, 6) ? odd_bases[vh_below(rng, 6)] : bases4[vh_below(rng, 4)];
    size_t L; char exp[80];
    int n = ref_fmt(v, fbits(f), fbase(f, base), fsign(f, sign), exp);
    vh_case_desc("%s val=0x%llx base=%d sign=%d all lengths 0..70", fnames[f], (unsigned long long) v, base, sign);
    for (L = 0; L <= 70; L++) { vh_sub = L; check_one(f, v, base, sign, L); }
    if (v) vh_distinct(vh_hash_u64(v, (uint64_t) (f * 64 + (base & 63) * 2 + sign)));
    vh_count("lensweep.cases", 1);
    if ((size_t) n >= 1) vh_count("lensweep.truncated_calls", (uint64_t) n);      /* L < n for n lengths */
    vh_count(fsign(f, sign) && fbase(f, base) == 10 && exp[0] == '-' ? "lensweep.negative_decimal" : "lensweep.other", 1);
    if (vh_want_sample()) vh_sample("%s(0x%llx, base %d, sign %d) = \"%s\"; lengths 0..70 checked", fnames[f], (unsigned long long) v, base, sign, exp);
}

/* ---- phase 2: 64-bit and odd bases, big buffer ------------------------------------------ */
static uint64_t p2_count(int thorough) {
#if VH_ASAN
    return vh_scaled(thorough ? 2000000 : 200000);
#else
    return vh_scaled(thorough ? 100000000 : 4000000);
#endif
}
static void p2_run(uint64_t idx, vh_rng_t * rng) {
    uint64_t v = biased64(rng);
    int f, b;
    (void) idx;
    vh_case_desc("64-bit value 0x%llx, all functions and bases", (unsigned long long) v);
    for (b = 0; b < 4; b++) {
        check_one(F_UINT64BASE, v, bases4[b], 0, 70);
        check_one(F_W64, v, bases4[b], 1, 70);
        check_one(F_UINT32BASE, v, bases4[b], 0, 70);
    }
    check_one(F_INT64, v, 10, 1, 70);
    check_one(F_INT32, v, 10, 1, 70);
    b = odd_bases[vh_below(rng, 6)];
    f = (int) vh_below(rng, F__N);
    check_one(f, v, b, (int) vh_below(rng, 2), 70);
    vh_count("wide.values", 1);
    if ((int64_t) v < 0) vh_count("wide.negative_as_signed", 1);
    if ((idx & 15) == 0) vh_distinct(vh_hash_u64(v, 99));
}

int main(int argc, char ** argv) {
    static const vh_phase_t phases[] = {
        { "sweep32", p0_count, p0_run },
        { "lensweep", p1_count, p1_run },
        { "wide64", p2_count, p2_run },
    };
    vh_require("lensweep.negative_decimal");
    vh_require("lensweep.truncated_calls");
    return vh_main(argc, argv, "C14", phases, 3);
}
