add("C16", "checks/c16_floattext.c", ["default-plain", "dtostre-plain", "dtostre-asan"], ["default-plain", "default-asan", "dtostre-plain", "dtostre-asan"],
    "TODO",
    post="py/c16_decimal.py",
    technique="TODO", level_text="TODO", level_note="TODO", assumptions=["TODO"])
