add("C16", "checks/c16_floattext.c", ["default-plain", "dtostre-plain", "dtostre-asan", "c89-plain"], ["default-plain", "default-asan", "dtostre-plain", "dtostre-asan", "c89-plain", "optall-plain"],
    "evaluations = texts produced by the library and judged (per value: SCPI_DoubleToStr, SCPI_FloatToStr on the nearest float, SCPI_dtostre at each "
    "precision 1..15; one value in ~24-32 additionally SCPI_ResultDouble/SCPI_ResultFloat through a real context). Values: enumerated = every power of "
    "ten 1e-323..1e308 with neighbours, negatives, p nines that carry into it (p = 1..16) and float versions; d*10^k + 10^(k-z) for d 1..9, every k, "
    "z 1..17 (a zero run at every mantissa position); integers 0..4095; ~150 hand-picked switch points/ties/extremes, NaNs, infinities, zeros; "
    "boundaries = random d.ddd5 decimals (p = 1..16 digits before the 5, doubles and floats) with both neighbours and exactly representable ties; "
    "random = bit patterns over the full exponent range, subnormals, short decimals, integers, float bit patterns, everyday magnitudes. The same phases "
    "run in every build with a per-build salt; the -O2 builds carry 8x the random workload of the ASan+UBSan builds (exact-size 40..64 byte heap output "
    "buffers). distinct_nontrivial counts distinct value bit patterns on a 1/8 subsample (lower bound). offline_rechecked_records = stratified sample "
    "of (value bits, site, precision, text) re-decided by py/c16_decimal.py with integer arithmetic only",
    post="py/c16_decimal.py",
    exhaustive=dict(quick=False, thorough=False),
    rule_more="ThreadSanitizer stage (checks/tsan_contexts.c): four threads, each on its own context, run every formatter, reader, the error queue and the registers - the library may keep no state outside the scpi_t; all powers of two with neighbours; the last six values re-emitted as one ASCII array behind two scalars; decoy context answering from inside the write callback; flavours c89, optall",
    tsan=dict(source="checks/tsan_contexts.c", configs=["default", "dtostre", "noinfo", "heap"], rounds=300),
    technique="differential runtime monitor: every text the real formatter emits is compared with the correctly rounded decimal (glibc %.*e digits + own %g layout rule, "
              "exact 128-bit distance in units of the last requested digit) in-process; a stratified record stream is re-decided offline from the bit pattern with integer arithmetic only",
    level_text="exploration by execution: ~1.4 M values x 17 texts (quick), ~55 M values (thorough) over all enumerable boundary classes plus random bit patterns; the universal claim over 2^64 doubles x 15 precisions is sampled, not enumerated",
    level_note="trusted in-process: glibc snprintf(\"%.*e\") correct rounding and strtod for building inputs; not trusted for the sampled records (exact integer re-check). "
               "dtostre oracle is the one-unit tolerance of DESIGN.md measured against the correctly rounded p-digit decimal (at exact ties against the nearer neighbour); a text one unit off that is "
               "shorter than the rounded decimal is accepted (indistinguishable from a one-unit-low digit generator whose digits end in zeros). Keys: C16:dtostre-ecvt-accuracy = precision 15 only, "
               "2..6 units of the 15th digit (measured tail: 4 units 3.5e-7 of precision-15 texts, 5 units 5 in 3e8 extreme-exponent values, 6 never; precisions 1..14 never 2 units off in 7.6e8 texts); "
               "C16:dtostre-trim-drops-digits = text denotes zero for a non-zero value, or is the rounded decimal cut short by more than the tolerance; anything else C16:dtostre-value-far/-syntax/-sign. "
               "Layout (%g shape, exponent width) of SCPI_dtostre output is observed (counters dtostre.shape_*), not asserted: the statement only requires it to parse back. held means held on the values executed",
    assumptions=["glibc snprintf(\"%.*e\") rounds correctly (half-even on the exact value) - cross-checked on the recorded sample by exact integer arithmetic in py/c16_decimal.py",
                 "%g layout rule in checks/c16_floattext.c and py/c16_decimal.py (written twice from C11 7.21.6.1) is right",
                 "output buffers of 40..64 bytes (smaller buffers are C15's subject)",
                 "gcc -O2 / clang -O1 ASan+UBSan builds of the working tree; x86-64 double arithmetic (no x87 excess precision) for scpi_ecvt"])
