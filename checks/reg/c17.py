add("C17", "checks/c17_blocks.c", ["default-asan", "default-plain", "c89-plain", "os-plain", "c89os-plain", "optnum-plain", "noinfo-plain", "heap-plain"], ["default-asan", "default-plain", "c89-plain", "os-plain", "os-asan", "c89os-plain", "optnum-plain", "isa-plain", "mcu-plain", "noinfo-plain", "heap-plain"],
    "cases = scripted query responses executed by the real library through a handler of the check: a script is a sequence of "
    "result calls (SCPI_ResultArray<T> in NORMAL/SWAPPED format, SCPI_ResultArbitraryBlock, SCPI_ResultArbitraryBlockHeader + "
    "SCPI_ResultArbitraryBlockData, SCPI_ResultInt32 before/between/after) and every call's captured bytes are compared with an "
    "independent encoder. Phase 0 enumerates all 10 element types x 2 formats x counts 0..300 (4 scripts each), phase 1 draws "
    "random pairs of arrays (counts 0..300 plus byte counts around 10, 100, 1000, 10^4, 10^5; boundary-biased element values; "
    "about 2x10^5 arrays in quick, 5x10^6 in thorough), phase 2 whole blocks of every length 0..1199 plus lengths around 10^4, 2^16, "
    "10^5, 10^6, phase 3 every split of 0..20 data bytes into 1..4 data calls (zero-length calls included) x 6 variants "
    "(complete, complete after another item, one byte too many in the last call, too much at some call, extra call after "
    "completion, announced length larger than the data), phase 4 random splits of 0..300 and 9..10001 bytes, phase 5 header-only "
    "calls for 10^e-1, 10^e, 10^e+1 (e = 0..8), 10^9-1 and random lengths of every digit count, phase 6 a few ASCII-format calls "
    "without assertions. evaluations = scripts (queries) executed; distinct_nontrivial = distinct (type, format, count, first "
    "8 element values) of non-empty arrays, (length, first 64 bytes) of blocks, (length, split) of streams, header lengths",
    exhaustive=dict(quick=False, thorough=False),
    rule_more="arrays windowed at an element offset (misaligned); header-only lengths behind a delimiter; payloads of 65535..1000000 bytes in one call; flavours c89, os, c89os; decoy context",
    technique="differential runtime monitor: captured write-callback bytes of the real result functions vs an independent block "
              "encoder (header digits by % and /, element bytes by shifts from the element values, never from the host "
              "representation); item accounting observed through the delimiter of the next result of the same response; "
              "exact-size heap inputs under ASan+UBSan and a gcc -O2 build",
    level_text="exploration by execution: all element types, both binary formats and every count 0..300 are executed (values "
               "sampled, boundary-biased); all splits of up to 20 bytes into up to 4 data calls are enumerated; larger lengths, "
               "element values and header lengths below 10^9 are sampled, so the universal claim over values and lengths is "
               "sampled, not enumerated; only a little-endian host is executed (NORMAL is the swapping path here)",
    level_note="trusted: the 15-line reference encoder in checks/c17_blocks.c, the capture interface of kit/vh_scpi.c, the "
               "compilers' sanitizer runtimes. Counted but not asserted because the statement is silent: return values of "
               "successful calls, what calls after a refused call do, the exact refusal code (-310 counted), Header(0) with no "
               "data call at all, the ending of a response whose block stays incomplete, ASCII format. Asserted from the clause "
               "'counts as one result item only once it is complete': an item emitted while an announced block still lacks "
               "bytes, with no complete item before it, is not preceded by ','.",
    assumptions=["reference encoder in checks/c17_blocks.c is correct",
                 "a complete response of a successful query is the result items separated by ',' followed by the configured line ending \\r\\n and one flush",
                 "host is little-endian: the big-endian-host paths (SWAPPED swapping, NORMAL pass-through) are not executed",
                 "lengths stay below 10^9 bytes (the statement's domain)",
                 "gcc -O2 / clang -O1 ASan+UBSan builds of the working tree"])
