add("C11", "checks/c11_c12_status.c", ["default-asan", "default-plain"], ["default-asan", "default-plain"],
    "placeholder",
    exhaustive=dict(quick=True, thorough=True),
    technique="placeholder", level_text="placeholder", level_note="placeholder", assumptions=[])
