add("C11", "checks/c11_c12_status.c", ["default-asan", "noinfo-plain", "c89-plain", "custreg-plain", "custreg89-plain", "custreg34-plain", "custchain-plain", "heap-plain"], ["default-asan", "default-plain", "noinfo-plain", "noinfo-asan", "c89-plain", "custreg-plain", "custreg-asan", "custreg89-plain", "custreg34-plain", "custchain-plain", "heap-plain"],
    "cases = single operations executed on the real library, each followed by SCPI_RegGet of all ten registers + SCPI_ErrorCount and "
    "an evaluation of the five clauses of the statement (evaluations = transitions). Phase bfs: breadth-first search from a fresh "
    "context over every state reachable with a bounded operation alphabet (a slice: SCPI_RegSet/SetBits/ClearBits with every subset "
    "of the slice's representative bits on SRE and on every event, enable and condition register - never on STB -, SCPI_ErrorPush of "
    "one code per standard-event class inside the slice + one code of no class, SCPI_ErrorPop, SCPI_ErrorClear, and 19 commands "
    "(*CLS *ESR? *ESE[?] *SRE[?] *STB? *OPC STAT:OPER[:EVEN]? :COND? :ENAB[?] STAT:QUES... STAT:PRES SYST:ERR? SYST:ERR:COUN?) "
    "through SCPI_Input with a table of the library's own handlers; queue capacity 2); state = registers[] + queue count, "
    "snapshot/restore = byte copy of scpi_t and queue storage; every reachable state is expanded with every operation "
    "(bfs.states / bfs.transitions). quick: 16 slices = each register group alone with three bits {0x40,0x0200,0x01} (ESR also "
    "{0x20,0x10,0x08} and {0x04,0x80,0x02}) x SRE{group bit,0x04,0x40} x queue, and all groups together with one bit each x "
    "SRE{0x20,0x80,0x08,0x04,0x40} (9 bit assignments covering every ESR class bit) plus two with idle SRE bits; thorough (gcc build) "
    "adds 16 slices with two of the three bits on all nine registers at once. Phase walk: random walks of 500 operations over full "
    "16-bit values, queue capacity 1-4, three spellings per command. distinct_nontrivial = distinct (registers, count) states "
    "(all BFS states, every 16th walk state); a clause broken by an operation is reported once, states in which the invariant is "
    "already broken are counted and not expanded",
    exhaustive=dict(quick=True, thorough=True),
    rule_more="control-callback answers rotated; contexts without error callback; device-owned status-byte bits 0, 1, 8..15; a service-request handler that services the request on the same context; user register groups cascaded into parent bits 0 and 9 (flavour custreg); C90 library",
    technique="runtime invariant monitor over an explicit-state breadth-first exploration of the real library (snapshot/restore by memory copy) "
              "plus random walks; oracle = the five iff-clauses of the statement on values read back through the public API",
    level_text="exploration by execution: the bounded state spaces named in the rule are enumerated completely on the compiled library "
               "(quick 16 slices, 3-5e5 states / 5-9e7 transitions per build; thorough +16 slices of 0.8-1.5e6 states each, 1.7-3.2e9 transitions; the larger figures once a full queue sets the device-specific bit); "
               "16-bit values outside the representative bits and longer queues are sampled by random walks (quick 2.5e6, thorough 1.1e8 steps)",
    level_note="exhaustive refers to the bounded alphabets (three representative bits per register, queue capacity 2, listed operations), "
               "not to all 16-bit values; direct writes to STB are excluded by the statement; state identity ignores queue contents "
               "(they never feed back into registers); trusted: the monitor's 30 lines, memcpy snapshots of scpi_t at quiescent points",
    assumptions=["a byte copy of scpi_t plus the queue storage is an exact snapshot when errors carry no text (default configuration, text-less pushes only)",
                 "states are identified by registers[] and queue count; queue contents and fifo indices do not influence register evolution",
                 "custom registers (USE_CUSTOM_REGISTERS) are not configured",
                 "gcc -O2 and clang -O1 ASan+UBSan builds of the working tree"])
