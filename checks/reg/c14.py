add("C14", "checks/c14_itoa.c", ["default-plain", "default-asan", "c89-plain", "c89os-plain", "isa-plain"], ["default-plain", "default-asan", "c89-plain", "os-plain", "c99-plain", "c89os-plain", "isa-plain", "mcu-plain", "mcu89-plain"],
    "cases = (function, value, base, sign, buffer length) calls of the six integer formatters compared with an independent "
    "formatter; sweep32 enumerates 32-bit values in blocks of 2^16 (all 2^32 in thorough; 32 boundary blocks + ~256 seed-chosen "
    "blocks + 32 values of every other block in quick), lensweep runs every buffer length 0..70 on exact-size heap cells, wide64 "
    "draws boundary-biased 64-bit values; distinct_nontrivial counts distinct non-zero (value,function,base) keys on a 1/4099 "
    "(sweep), 1/1 (lensweep), 1/16 (wide64) subsample, i.e. a lower bound",
    exhaustive=dict(quick=False, thorough=True),
    rule_more="sparse-decimal, decimal+binary-round and word-structured values; bases other than 2/8/10/16; flavours c89, c99, os, c89os",
    technique="differential runtime monitor: library formatter vs independent formatter over enumerated/boundary-biased values, exact-size heap buffers under ASan+UBSan, guard bytes in the -O2 build",
    level_text="exploration by execution: thorough enumerates all 2^32 32-bit values x signed/unsigned x 4 bases on the real code and 10^8 64-bit values; quick a stratified 2x10^7-value sample plus every buffer length 0..70; a universal claim over 64-bit values is sampled, not enumerated",
    level_note="trusted: the 20-line reference formatter, the compilers' sanitizer runtimes; held means held on the values executed",
    assumptions=["reference formatter in checks/c14_itoa.c (digits by repeated % and /) is correct", "gcc -O2 / clang -O1 ASan+UBSan builds of the working tree"])
