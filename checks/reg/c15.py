add("C15", "checks/c15_bounds.c", ["default-asan", "dtostre-asan", "default-plain", "c89-plain", "optall-plain"], ["default-asan", "dtostre-asan", "default-plain", "dtostre-plain", "c89-plain", "optall-plain", "optall-asan"],
    "cases = one value/text formatted into caller buffers of EVERY length 0..40 (exact-size malloc under ASan, guard bytes in the "
    "gcc build): SCPI_NumberToStr over every unit-table row and special-number name, SCPI_DoubleToStr/FloatToStr, SCPI_dtostre with "
    "precision 1..15 and all flag combinations, SCPI_ParamCopyText through real dispatch on quoted texts with doubled quotes around the "
    "cut, integer formatters; distinct_nontrivial = distinct untruncated result texts (hash of the text, per function family)",
    rule_more="application unit table with 6..17-character names; copy_len NULL; numbers of base 16/8/2; flavour optall (every default-off option switched on, including options a change adds)",
    technique="sanitizer monitoring (ASan exact-size heap cells, UBSan) plus post-condition monitor for termination and returned length; guard bytes in the uninstrumented build",
    level_text="exploration by execution: every buffer length 0..40 for a few thousand (quick) / few hundred thousand (thorough) values per function family, in the printf and the built-in-formatter configurations; memory safety is decided by ASan red zones on exact-size allocations, so a write that lands inside another live object would be missed (not possible here: each buffer is its own allocation)",
    level_note="trusted: ASan/UBSan runtimes, the rule 'fits (n<L) => terminated; returned length == characters before the NUL; never more than L bytes touched'; content equality is deliberately left to C07/C16",
    assumptions=["untruncated result text is taken from the same function called with a 160-byte buffer"])
