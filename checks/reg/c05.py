add("C05", "checks/c05_params.c", ["default-asan", "default-plain", "noinfo-plain", "c89-plain", "ndebug-plain", "heap-plain"], ["default-asan", "default-plain", "noinfo-asan", "noinfo-plain", "c89-plain", "uchar-plain", "c99-plain", "optall-plain", "ndebug-plain", "mcu-plain", "heap-plain"],
    "cases = one message unit pairing a random handler signature (0..4 typed readers out of 13 kinds, mandatory/optional, handler verdict "
    "OK/ERR) with a parameter list of 0..5 items generated from the 488.2 program-data grammar (13 item classes incl. suffixes, unknown "
    "suffixes, known/unknown mnemonics, strings, blocks, expressions) with white space in every legal place; plus malformed data fragments "
    "after a well-formed prefix (before a terminator and at end of input + flush); plus input calls carrying 1..3 messages, partial tails and "
    "overruns for the return-value clause; distinct_nontrivial = distinct (signature, unit text) pairs",
    rule_more="two unit tables alternating between contexts; numeric items padded to 15..640 characters; choice names ending in digits; several units per message; pending input discarded by the application (device clear) before the unit; decoy context; 0..130 blanks around the exponent mark of decimal items; units ended by a flush call / behind an empty line; the six numeric conversions may not claim success on string, block or expression tokens",
    technique="reference-model monitor (parameter-protocol model from the statement) over handler step records, error-callback events and the return value of SCPI_Input",
    level_text="exploration by execution over generated (signature, parameter list) pairs; every error-code clause of the statement is counted and required to be exercised",
    level_note="trusted: the generator's knowledge of the item structure (units are built from items, never re-parsed), the outcome table reader x item class written from the statement; integer readers on literals with fraction/exponent and bool readers on non-decimal numbers are not asserted beyond 'failure queues an error'",
    assumptions=["array readers are exercised by C01 and round-tripped by C07, not modelled here"])
