add("C13", "checks/c13_lexer.c", ["default-plain", "default-asan", "uchar-plain", "c89-plain", "lf-plain", "cr-plain", "mcu-plain", "noinfo-plain"], ["default-plain", "default-asan", "uchar-plain", "uchar-asan", "c89-plain", "c89-asan", "os-plain", "lf-plain", "cr-plain", "mcu-plain", "mcu89-plain", "ndebug-plain", "noinfo-plain"],
    "a case is a block of 4096 consecutive strings (enum-class, enum-union), one (seed token, position) pair with all 256 byte values "
    "substituted/inserted (bytesweep), or one generated input (long, random); every string is handed to the recogniser once per placement "
    "(exact-size heap cell and end of a larger cell under ASan; inside a longer buffer with state.len cut at EVERY offset 0..L in both "
    "flavours, the text continuing after the cut) and each such call is one evaluation: return value, token type, token offset, token "
    "length, cursor displacement and buffer <= pos <= buffer+len are compared with kit/ref_lex.c. enum-class: ALL strings of length "
    "<= 6 (quick) / 7 (thorough) [ASan build: 5 / 6] over the recogniser's class alphabet plus one foreign symbol (4-10 symbols) for the 14 "
    "scpiLex_* recognisers; enum-union: ALL strings of length <= 5 / 6 [ASan: 4 / 5] over the 16 symbols ' ,;\\n:*?EH1.-#\"()' for "
    "parseProgramData, parseAllProgramData and detectProgramMessageUnit; long: grammar-generated tokens/lists/units with 300..1000 digit, "
    "character or byte bodies (8-bit and NUL bytes included), optionally truncated/corrupted; random: byte strings up to 32 bytes. "
    "distinct_nontrivial counts distinct (recogniser, text) pairs at whose start the reference recognises a token (or an incomplete block / "
    "a well-formed unit), on a 1/16 (enumerations), 1/4 (random), 1/1 (bytesweep, long) hash subsample, i.e. a lower bound. Not asserted, "
    "only counted: token ptr of a rejected input, cursor/return of parseProgramData after a rejection beyond 'at the start or after the "
    "leading white space', a string whose closing quote is followed by the same quote and never terminated (both readings accepted), a "
    "list ending in a comma (rejected or the list before the comma), units without header or with an INCOMPLETE_* header, "
    "numberOfParameters 0 vs -1 for header + white space only",
    extra_sources=["kit/ref_lex.c"],
    exhaustive=dict(quick=True, thorough=True),
    rule_more="uchar and C90 flavours; 1..1200 parameters per unit; run lengths at multiples of 256; well-formed units through the input function cut in two at every position; line ending LF / CR flavours",
    technique="differential runtime monitor: the 17 recognisers of the real library against table-driven longest-match automata written from "
              "IEEE 488.2 section 7 / DESIGN.md, bounded-exhaustive string enumeration with every end-of-input cut, tokens pre-filled with 0x5A, "
              "exact-size heap cells under ASan+UBSan",
    level_text="exploration by execution, bounded-exhaustive: every string up to the stated length over one representative per character "
               "class (quick ~5.7e7, thorough ~1e9 recogniser calls), every byte value at every position of 38 seed tokens, plus ~4e5 generated "
               "long and random inputs; longer inputs and other representatives of a class are sampled, not enumerated",
    level_note="trusted: kit/ref_lex.c (edge lists of 11 small automata + block counter + composite rules, about 250 lines), the choice of class "
               "representatives, the sanitizer runtimes; held means no disagreement on the inputs executed",
    assumptions=["kit/ref_lex.c encodes the C13 grammar of DESIGN.md correctly (relaxed suffix, definite-length blocks only, flat expressions, "
                 "doubled quote = inserted quote)",
                 "one representative per character class is enough inside the enumeration; class boundaries are covered by the 256-value byte sweep",
                 "recognisers are called directly with a token pre-filled with 0x5A bytes; gcc -O2 and clang -O1 ASan+UBSan builds of the working tree"])
