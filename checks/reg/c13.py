add("C13", "checks/c13_lexer.c", ["default-plain", "default-asan"], ["default-plain", "default-asan"],
    "placeholder",
    extra_sources=["kit/ref_lex.c"],
    exhaustive=dict(quick=True, thorough=True),
    technique="differential runtime monitor", level_text="x", level_note="x", assumptions=[])
