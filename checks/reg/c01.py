add("C01", "checks/c01_memsafe.c", ["default-asan", "noinfo-asan", "heap-asan", "dtostre-asan"], ["default-asan", "noinfo-asan", "heap-asan", "dtostre-asan", "uchar-asan"],
    "cases = one byte stream executed on a fresh context with random geometry (input buffer 2..320 bytes or exactly stream length + 1, error queue "
    "1..4 entries, info heap 2..64 bytes) and random handler signatures applying every SCPI_Param*/ParamTo*/ParamArray*/Expr*/Result*/ResultArray* "
    "API plus the library's own IEEE 488.2 / SYSTem / STATus handlers: grammar streams over 56 header spellings and all program-data kinds with "
    "hostile variants (huge block lengths, unterminated quotes, 8-bit bytes, NUL, out-of-range numbers), byte mutations into every character class, "
    "truncation at EVERY byte position with the cut ending at the physical end of the buffer, random segmentation / byte-at-a-time / all-at-once "
    "/ zero-length flush calls / chunks larger than the free space, direct SCPI_Parse of an exact-size NUL-terminated line, long message histories "
    "on one context with tiny queue and heap; distinct_nontrivial = distinct streams",
    deps=["checks/c01_core.h"],
    fuzz=dict(entry="fuzz/c01_fuzz.c", corpus="fuzz/corpus", dict="fuzz/scpi.dict", runs=400000, jobs=4, configs=["default", "noinfo", "heap", "dtostre"], timeout=2400),
    valgrind=dict(config="default", scale=0.02, shards=16, timeout=2400),
    rule_more="long numeric tokens around 16/32/64/128 characters; error queues of 255..32767 entries; a handler announcing response blocks of up to 2^32-1 bytes; exact-size SCPI_Match calls; optional callbacks removed; identification strings of 0..139 characters or NULL; units and pushed texts of 150..300 characters with a quote / doubled quote / new line at every offset, reported through the error query",
    tsan=dict(source="checks/tsan_contexts.c", configs=["default", "heap"], rounds=200),
    technique="sanitizer monitoring: clang AddressSanitizer + UndefinedBehaviorSanitizer + LeakSanitizer with exact-size heap allocations for every buffer, ASan manual poisoning of the unused input-buffer tail through the SCPI_PARSER_VERIF hook, per-case watchdog, termination rule after flush",
    level_text="exploration by execution in all four build configurations; memory safety is decided by ASan/UBSan on the paths the workload reaches (red-zone detection: intra-object overflows and reads of stale-but-addressable bytes other than the poisoned buffer tail are invisible)",
    level_note="trusted: sanitizer runtimes; the hook poisons [position+1, length) only, so a one-byte over-read of the terminator itself is visible only when the stream ends at the physical end of the buffer (those cases are generated deliberately)",
    assumptions=["MemorySanitizer is not used (uninstrumented libc/libm false positives)", "a watchdog firing is re-run once; only a reproducible hang counts"])
