add("C18", "checks/c18_errquery.c", ["default-asan", "heap-asan", "default-plain", "usererr-asan", "c89-plain"], ["default-asan", "heap-asan", "default-plain", "heap-plain", "usererr-asan", "c89-plain", "optmin-plain"],
    "cases = batches of (code, text, push path, queue situation) -> one SYST:ERR? query each, evaluations = queries judged. "
    "codes: every int16_t code once without text (256 blocks of 256; SCPI_ErrorPush / PushEx(NULL,0) / PushEx(NULL,n)), every 8th also with a text; "
    "lengths: every text length 0..400 x first quote at every position 0..length x 1..3 quotes (adjacent or scattered; thorough: 6 variants incl. punctuation); "
    "limit: codes with descriptions of different lengths (8 in quick, one per distinct length 8..44 + fallback in thorough) x description;text of every total length 236..268 x "
    "every set of <=3 quote positions in an 11 (thorough 14) wide window around the cut x 0..2 (3) earlier quotes x explicit/automatic length; "
    "random: random codes/lengths 0..1000/contents (7-bit incl. control characters and ; , ' space, 8-bit bytes, up to all-quote texts); "
    "exactsrc (heap configuration only): explicit-length pushes from exact-size unterminated buffers with the heap copy ending at / wrapping around the end of the heap. "
    "An entry is queried as the only one or behind two fillers (order, release of the predecessor; in the heap configuration the first filler is sized so that the stored text wraps "
    "around the end of the 1024-byte info heap at a chosen offset: at the cut, at a quote, anywhere). distinct_nontrivial counts case keys "
    "(block, length x variant, (code,total), first (code,text) of each random batch), a lower bound",
    exhaustive=dict(quick=False, thorough=False),
    rule_more="user error list with quotes and descriptions of 253..300 characters (flavour usererr); wrap position x quote position enumeration; errors pushed from the error(0) / write callback while the only entry is being reported; flavour optmin; decoy context",
    technique="runtime monitor: the real SYST:ERR? handler is driven through SCPI_Input on a capture interface; the captured bytes are read by an independent IEEE 488.2 "
              "string-response reader and compared with the longest prefix of description;text whose escaped form fits 255 characters (computed from the statement); "
              "own description table expanded from LIST_OF_ERRORS; exact-size source buffers under ASan+UBSan",
    level_text="exploration by execution: all 65536 codes, every text length 0..400 with a quote at every position, every <=3-subset of quote positions around the 255-character "
               "boundary for every description length, ~0.9 M queries per build in quick and ~13 M per build in thorough, in the malloc and static-heap configurations; "
               "texts with more than 3 quotes and arbitrary contents are sampled, not enumerated",
    level_note="trusted: the 30-line response reader and the prefix/limit computation in checks/c18_errquery.c, LIST_OF_ERRORS in scpi/error.h as the table of descriptions, the sanitizer runtimes. "
               "Not asserted (statement silent, counted only): number of flushes, whether an empty but non-NULL text yields `description` or `description;` "
               "(malloc build emits the ';', static-heap build does not), prefix/cut rules for texts with 8-bit bytes (they held on all executed cases). "
               "In the heap configuration all phases but `exactsrc` append one readable byte after explicit-length texts so that a one-byte over-read of scpiheap_strndup "
               "(found by this check, key asan:heap-buffer-overflow:scpiheap_strndup, repaired by repo commit 4fb12fa) is attributed to that phase instead of aborting every case of the build",
    assumptions=["response reader and expected-prefix computation in checks/c18_errquery.c are correct",
                 "LIST_OF_ERRORS in scpi/error.h is the authoritative code->description table; codes outside it share one non-empty fallback description",
                 "info heap of 1024 bytes and queue of 8 entries are large enough that every pushed text is stored (storage refusal is C20's subject)",
                 "texts contain no NUL byte (C strings); line ending is SCPI_LINE_ENDING of the build"])
