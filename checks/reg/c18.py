add("C18", "checks/c18_errquery.c", ["default-asan", "heap-asan", "default-plain"], ["default-asan", "heap-asan", "default-plain", "heap-plain"],
    "placeholder",
    technique="runtime monitor", level_text="x", level_note="x", assumptions=["x"])
