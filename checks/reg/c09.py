add("C09", "checks/c09_isolation.c", ["default-asan", "default-plain", "c89-plain", "noinfo-plain", "heap-plain"], ["default-asan", "default-plain", "heap-asan", "c89-plain", "noinfo-plain", "heap-plain"],
    "cases = (history A1..An, n = 1..6, then message(s) B): A drawn from 22 unit kinds incl. failing handlers, failure after partial output, "
    "own errors, streamed blocks left unfinished or over-long, undefined/relative/incomplete headers, syntax errors, surplus/missing "
    "parameters, compound paths, optionally followed by pending bytes + an overrunning chunk and/or a zero-length flush; B from the same "
    "kinds (never a status or error-queue query; error queue of 64 entries so no overflow). The handler/parameter/error/flush event log and "
    "output bytes of B on the used context are compared with B on a fresh context (SRQ events excluded); distinct_nontrivial = distinct (A, B) pairs",
    rule_more="units within one message; direct SCPI_Parse on one re-used line buffer; overlapping table entries; overrun with pending complete units; context initialised again between A and B; a line parsed directly between two pieces of B; decoy context",
    technique="differential runtime monitor across histories: trace of B after A on the same context vs trace of B alone on a fresh context",
    level_text="exploration by execution over generated ordered pairs and longer sequences (3x10^5 quick / 5x10^6 thorough per flavour); each kind of 'dirty' history (errors, unfinished block, compound path, overrun with pending bytes) is counted and required to occur",
    level_note="trusted: the fresh-context run as reference; effects flowing through status registers and the error queue are excluded by construction (no such queries in B, large queue)",
    assumptions=["A and B are terminated messages: strings and blocks inside them are complete"])
