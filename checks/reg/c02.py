add("C02", "checks/c02_dispatch.c", ["default-asan", "default-plain", "noinfo-plain", "c89-plain", "mcu-plain", "heap-plain"], ["default-asan", "default-plain", "noinfo-asan", "noinfo-plain", "c89-plain", "uchar-plain", "mcu-plain", "mcu89-plain", "ndebug-plain", "heap-plain"],
    "cases = (random command table of 6..14 entries from the pattern grammar with shared root keywords, optional keywords, numeric "
    "suffixes, queries and common commands, deliberately overlapping; program message of 1..6 units whose headers are spellings/near "
    "misses of table patterns, written absolute, relative to the previous unit's path, after undefined and after common units); the "
    "handler/error event trace, SCPI_CmdTag, cmd_raw, SCPI_IsCmd and the drained queue are compared with a reference resolver; "
    "distinct_nontrivial = distinct (table, message) pairs",
    extra_sources=["kit/ref_match.c"],
    rule_more="entries without callback (they still shadow later entries); suffixes zero-padded to 14 digits; 2..3 messages per context, half of them ended by a zero-length input call; another table installed on the live context between messages (in place or by pointer); decoy context; errno varied; empty message units in front, in the middle (before absolute headers) and at the end of a message; flush-terminated messages also travelling behind an empty line of the same input call",
    technique="reference-model monitor over the handler/error event trace (effective-header rule from the statement + independent pattern matcher, first match)",
    level_text="exploration by execution over randomly generated tables and messages; each combination (defined/undefined x absolute/relative x kind of preceding unit) is counted and the essential ones are required to occur",
    level_note="trusted: kit/ref_match.c (checked itself against the library by C03), the effective-header rule as worded in the statement",
    assumptions=["handlers take one optional parameter so that units with a parameter stay well formed", "generated patterns satisfy C03's unambiguity precondition"])
