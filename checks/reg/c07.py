add("C07", "checks/c07_roundtrip.c", ["default-plain", "default-asan", "dtostre-plain", "c89-plain", "c99-plain", "os-plain", "c89os-plain", "ndebug-plain"], ["default-plain", "default-asan", "dtostre-plain", "dtostre-asan", "c89-plain", "c99-plain", "os-plain", "c89os-plain", "ndebug-plain"],
    "cases = one value formatted by SCPI_Result*/SCPI_ResultArray*(ASCII) through a query, the captured response data sent back as the "
    "parameter of a command and decoded by the matching SCPI_Param*/SCPI_ParamArray* reader; all 2^8 and 2^16 values x 4 bases, 32-bit "
    "values (thorough: all 2^32 in bases 10 signed/unsigned and 16, 1/16 stratum in bases 8 and 2; quick: 32 values per 2^16 block), "
    "boundary-biased 64-bit values, all strings up to length 4 (quick) / 6 (thorough) over {a \" ' SP LF ; , DEL SOH} plus random 7-bit "
    "strings up to 250 characters, blocks of every length 0..1100, random/boundary floats and doubles, ASCII arrays of all ten element "
    "types; distinct_nontrivial = distinct non-empty values (hash of the value; integer sweeps count one per 2^16/2^8 block and 1/8 of the 64-bit "
    "values, i.e. a lower bound)",
    exhaustive=dict(quick=False, thorough=False),
    rule_more="sparse-decimal, decimal+binary-round and word-structured 64-bit values; powers of two; arrays of 32767..70000 items; full-range floating-point arrays; texts of 1000..100000 characters on a 96 KiB task stack; flavours c89, c99, os, c89os, optall; read-back lines ended by LF or by a flush call (also behind an empty line)",
    technique="round-trip differential monitor at the client boundary (format -> capture -> re-submit -> decode) under ASan+UBSan and in a fast uninstrumented build",
    level_text="exploration by execution: exhaustive for 8/16-bit integers and short strings in both tiers and for all 2^32 32-bit values in thorough; sampled for 64-bit integers, long strings, blocks and floating point",
    level_note="trusted: equality of the decoded value as oracle; for float/double the bound is half a unit of the 6th/15th significant digit plus one ulp for the reader's own rounding (the subtraction of the two close doubles is exact)",
    assumptions=["the round trip goes through SCPI_Input twice on one long-lived context per shard; a failed case clears the error queue"])
