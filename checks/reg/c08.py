add("C08", "checks/c08_chunking.c", ["default-asan", "default-plain", "heap-plain", "c89-plain", "noinfo-plain"], ["default-asan", "default-plain", "heap-asan", "heap-plain", "c89-plain", "c89-asan", "lf-plain", "cr-plain", "noinfo-plain"],
    "cases = byte streams of 1..8 messages (units with quoted strings containing every 7-bit byte incl. CR/LF/';', definite-length blocks with "
    "embedded terminators, numbers with suffixes and white space, expressions, arrays, queries with text/block output, undefined and relative "
    "headers, empty units, LF / CR LF / CR terminators, zero-length flush calls, unterminated tails, random byte mutations); each stream is run "
    "byte-at-a-time on a fresh context (reference) and again all-at-once, at EVERY single split point and under 20 random multi-way splits; a "
    "quarter of the streams additionally with the smallest buffer that never overruns and chunks capped to the free space; compared: handler/"
    "parameter/error/flush/SRQ event log, output bytes, unconsumed remainder, effect of a final flush; distinct_nontrivial = distinct streams",
    rule_more="pre-histories (pending units + overrun / flush / device clear / buffer swap, executed messages); streams of up to 760 bytes (256 and 512 bytes left behind a unit); nested expressions and strings inside expressions; #H/#Q/#B or expression followed by string/block data; flavours c89, lf, cr; decoy context",
    technique="differential runtime monitor across schedules (segmentations of the input stream): full observable trace of each run compared with the byte-at-a-time run",
    level_text="exploration by execution: every single split point is enumerated for each generated stream (exhaustive in the split position), multi-way splits and streams are sampled",
    level_note="trusted: the byte-at-a-time run as reference (an error common to all segmentations is invisible here; C02/C05/C06 look at absolute behaviour); return values are compared only in the direction that is independent of how many messages a call carries",
    assumptions=["streams never leave more pending data than the buffer holds (statement's precondition); chunk sizes in the tight-buffer family are capped with the reference run's own pending-byte counts"])
