add("C10", "checks/c10_queue.c", ["default-asan", "noinfo-asan", "default-plain"], ["default-asan", "noinfo-asan", "default-plain", "noinfo-plain"],
    "placeholder",
    extra_sources=["kit/ref_queue.c"], ldflags=["-Wl,--wrap=strndup", "-Wl,--wrap=free"])
