add("C10", "checks/c10_queue.c", ["default-asan", "noinfo-asan", "default-plain", "c89-plain"], ["default-asan", "noinfo-asan", "default-plain", "noinfo-plain", "c89-plain", "c99-plain", "optmin-plain"],
    "cases: phase 'enumerated' = one block per (capacity N in 1..4, 3-letter prefix) that runs EVERY history of length L over the 7-letter "
    "alphabet {push(-100), push(-200,\"xy\"), push(-100,'p\"q'), SCPI_ErrorPop, SYST:ERR?, SCPI_ErrorClear, count(API + SYST:ERR:COUN?)} with that "
    "prefix (L = 7 quick / 9 thorough in the gcc -O2 build, 7 / 8 under ASan; all shorter histories are prefixes and every operation is "
    "checked when it is executed), and re-runs each history once per text allocation with that allocation failing; phase 'random' = one "
    "history per case of up to 10^4 operations, capacity 1..64, 15 codes, texts of 0..300 characters (quotes, ';', any byte), four ways of "
    "passing the text (exact-size unterminated source, longer source, length beyond the terminator, automatic length), random allocation "
    "failures, client keeping 0..4 popped texts. evaluations = operations executed on the real library and compared with the model; "
    "distinct_nontrivial = 1/64 subsample of enumerated histories + one key per random history (lower bound)",
    extra_sources=["kit/ref_queue.c"], ldflags=["-Wl,--wrap=strndup", "-Wl,--wrap=free", "-Wl,--wrap=OUR_strndup"],
    level="fault_enumeration",
    exhaustive=dict(quick=False, thorough=False),
    rule_more="capacities 255..32767 (ring indices past the int16 limit) with LeakSanitizer's recoverable check; texts longer than 255 characters; queue storage replaced on the live context; C90 library (ledger also wraps OUR_strndup)",
    technique="model-based runtime monitor: real error queue vs kit/ref_queue (shifting-array reference FIFO with overflow marker) compared after "
              "every operation through SCPI_ErrorPop, SYST:ERR? (own IEEE 488.2 string-response reader), SCPI_ErrorCount and SYST:ERR:COUN?; "
              "ownership ledger on --wrap=strndup/--wrap=free with owner tracking, quarantine of released texts (poisoned under ASan, scribbled in "
              "the -O2 build) and conservation check after every operation; allocation-failure injection in __wrap_strndup; exact-size heap "
              "queue array and text sources under ASan+UBSan+LSan, guard entries around the queue array in the -O2 build",
    level_text="exhaustive enumeration by execution of all histories up to length 7 (quick) / 9 (thorough) over a 7-letter alphabet for capacities "
               "1..4, and for each enumerated history of every single failpoint (k-th strndup returns NULL, k = 1..number of text allocations of "
               "that history) - failpoints are enumerated exhaustively for the enumerated histories, singly, not in combination; multiple "
               "failures per history, long histories, long texts and larger capacities are sampled (random phase). The alphabet fixes 2 codes "
               "and 2 texts, so the universal claim over codes/texts/lengths is explored, not exhausted",
    level_note="trusted: kit/ref_queue.c (about 60 lines), the response reader, the ledger in the check, glibc strndup/free, the sanitizer "
               "runtimes. Error-callback events and the treatment of an EMPTY text (stored as \"\" or as no text) are counted, not asserted; for "
               "SYST:ERR? answers whose description;text exceeds the 255 characters of SCPI-99 21.8 only 'is a prefix' is asserted (the "
               "complete text is checked through SCPI_ErrorPop); with automatic length a text longer than 255 may come back cut at 255",
    assumptions=["kit/ref_queue.c implements the FIFO of the statement (push on full replaces the newest entry by -350, pop on empty gives 0)",
                 "the description in the SYST:ERR? answer is SCPI_ErrorTranslate(code) (taken from the library, not re-derived)",
                 "the library allocates texts only through strndup and releases them only through free (true for HAVE_STRNDUP builds; "
                 "ledger.strndup_calls is a required counter)",
                 "single-threaded use; the client releases popped texts with free()",
                 "gcc -O2 and clang -O1 ASan+UBSan builds of the working tree, glibc"])
