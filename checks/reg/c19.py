add("C19", "checks/c19_lists.c", ["default-plain", "default-asan", "c89-plain", "noinfo-plain"], ["default-plain", "default-asan", "c89-plain", "uchar-plain", "mcu-plain", "noinfo-plain"],
    "cases = expression bodies (enumerate: blocks of 243 bodies; grammar / mutate: one body each); every body is put as \"(\" body \")\" into an "
    "exact-size heap cell and queried with SCPI_ExprNumericListEntry, ...Int, ...Double at index 0..9 and SCPI_ExprChannelListEntry at index "
    "0..9 x capacity 0..4 (80 calls per body), each answer compared with a reference list parser (split at ',' ':' '!', every leaf a whole "
    "488.2 decimal numeric). enumerate = ALL bodies over {1 - . : , ! @ space a} of length <= 6 (quick, 597 871 bodies; the design asked for <= 5) / <= 7 (thorough, "
    "5 380 840 bodies) in the gcc -O2 flavour with guard words, length <= 5 / <= 6 in the ASan+UBSan flavour with exact-size value arrays; "
    "grammar = generated well-formed lists of 1..8 entries, 1..5 dimensions, multi-digit / signed / fractional / exponent values; mutate = "
    "1-2 near-miss edits of such lists. distinct_nontrivial counts distinct bodies with at least one entry the reference lets be OK",
    exhaustive=dict(quick=True, thorough=True),
    rule_more="rotation of bodies at one address; entries spelled with 40..320 characters; zero-padded numbers; two list parameters of one command decoded in lockstep; C90 library; two-list commands ended by LF, by a flush call, or behind an empty line and then flushed",
    technique="function-level differential runtime monitor: the four list accessors vs an independent reference list parser (SCPI-99 8.3.2/8.3.3, "
              "IEEE 488.2 7.7.2) over an exhaustive small-alphabet enumeration, grammar-generated lists and their mutations; value arrays are "
              "exact-size heap cells under ASan+UBSan and guarded stack cells in the -O2 build; error queue observed through a capture context",
    level_text="exploration by execution: the enumeration is complete for its bound (every body of length <= 6 quick / <= 7 thorough over the 9-letter "
               "alphabet x index 0..9 x capacity 0..4, 48 M / 430 M calls on the real code, plus <= 5 / <= 6 again under ASan+UBSan); longer lists, multi-digit values and up to 5 dimensions "
               "are sampled by a grammar (30 M / 300 M calls) and by mutations, not enumerated",
    level_note="trusted: the ~100-line reference parser in the check, libc strtod for the expected doubles (the library uses strtod too, so the "
               "double comparison checks which text is converted, not the conversion), the sanitizer runtimes; held means held on the calls executed",
    assumptions=["reference list parser in checks/c19_lists.c is correct; channel numbers that are not plain integers and white space around the exponent "
                 "letter are treated as 'nothing demanded' (neither OK nor an error is required)",
                 "well formed = no white space anywhere in the list; an entry is delimited by ',' or the end of the expression",
                 "Int accessor compared only for integer literals inside int32, Double accessor against strtod of the number's own text",
                 "for malformed NUMERIC lists only 'OK needs well-formed entries 0..i' is asserted; ERROR versus NO_MORE is counted",
                 "gcc -O2 / clang -O1 ASan+UBSan builds of the working tree, default configuration"])
