add("C12", "checks/c11_c12_status.c", ["default-asan", "noinfo-plain", "c89-plain", "custreg-plain", "optmin-plain", "custreg89-plain", "custreg34-plain", "custchain-plain", "heap-plain"], ["default-asan", "default-plain", "noinfo-plain", "noinfo-asan", "c89-plain", "custreg-plain", "custreg-asan", "optmin-plain", "custreg89-plain", "custreg34-plain", "custchain-plain", "heap-plain"],
    "cases = single operations executed on the real library with the registers read back before and after and the control callback "
    "recorded (value + status byte at the moment of the call). Phase sweep: all 65536 int16_t codes pushed on a fresh context "
    "(ESR = 0), on a context with ESR preset, and on a full queue (3 x 65536 pushes), ESR compared with the class computed as "
    "code/100 from the statement's table. Phases bfs and walk: the exploration of C11 (breadth-first over every reachable state of 16 "
    "(quick) / 32 (thorough, gcc build) bounded operation alphabets: register writes with every subset of three representative bits, "
    "error push/pop/clear, 19 status commands through SCPI_Input; random walks over full 16-bit values) with the monitors: "
    "classification of every push; latch: after a condition write event_after contains event_before | (cond_after & ~cond_before); hold: "
    "event bits disappear only in the register's own query, *CLS, STAT:PRES (QUES), or a write of that register; the own query and "
    "*CLS leave the register 0; service request: MSS 0->1 across an operation implies at least one control(SCPI_CTRL_SRQ) call, every "
    "call carries bit 6 and the status byte current at the call (or the final one), no call in an operation with MSS clear before and "
    "after. On a full queue the code the library queued in place (-350) must set its class bit; what the discarded code sets is not "
    "asserted. distinct_nontrivial = distinct (registers, count) states + a 1/97 subsample of swept codes",
    cflags=["-DCHECK_C12"],
    exhaustive=dict(quick=True, thorough=True),
    rule_more="same run as C11; user-group summary in the parent register; flavour optmin (minimal error list); every fifth walk with a service-request handler that reads the error queue or masks the request (newest entry of a push must be classified)",
    technique="runtime monitors (classification table by arithmetic, latch/hold transition relation, callback trace) over an exhaustive code sweep "
              "and an explicit-state breadth-first exploration of the real library plus random walks",
    level_text="exploration by execution: all 65536 error codes; every transition of the bounded state spaces of C11 with the callback observed "
               "(quick 5-9e7 per build, thorough 1.7-3.2e9 transitions); full 16-bit values and queue capacities 1-4 sampled by random walks",
    level_note="exhaustive refers to the code sweep and to the bounded alphabets of the breadth-first slices; repeated announcements while MSS "
               "stays set are counted, not judged (the statement allows them); the callback value is accepted if it equals the status byte "
               "read at the call or after the operation; a callback in an operation that ends with MSS cleared is only counted",
    assumptions=["every operation of the alphabet moves the status byte in one direction only, so MSS clear before and after an operation means clear throughout",
                 "the code queued on overflow is read from the queue storage (fifo write index - 1)",
                 "a byte copy of scpi_t plus the queue storage is an exact snapshot when errors carry no text",
                 "transition filters (PTR/NTR registers) are not configured: the latch is the plain positive-transition latch of the statement",
                 "gcc -O2 and clang -O1 ASan+UBSan builds of the working tree"])
