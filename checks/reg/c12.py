add("C12", "checks/c11_c12_status.c", ["default-asan", "default-plain"], ["default-asan", "default-plain"],
    "placeholder", cflags=["-DCHECK_C12"],
    exhaustive=dict(quick=True, thorough=True),
    technique="placeholder", level_text="placeholder", level_note="placeholder", assumptions=[])
