add("C20", "checks/c20_heap.c", ["heap-asan", "heap-plain"], ["heap-asan", "heap-plain"],
    "cases: phase 'enumerated' = one block per (heap size 2..12, capacity 1..4, 2-letter prefix) that runs EVERY history of length L over "
    "{push without text, push with a text of 1, H/2, H-1, H characters (duplicates removed), pop (SYST:ERR? / SCPI_ErrorPop alternating by "
    "position), clear} with that prefix (L = 6 quick, 8 thorough in the gcc -O2 build, 7 under ASan); phase 'enumerated_rich' = the same over "
    "{no text, 1, 2, H/2, H-2, H-1, H characters, SCPI_ErrorPop, SYST:ERR?, clear} with L = 5 quick / 6 thorough in both builds; all "
    "shorter histories are prefixes and every operation is checked when executed; queue overflow arises by construction (capacity < pushes). "
    "phase 'random' = one history per case of up to 10^4 operations on heaps of 2..600 bytes, capacity 1..32, text lengths from 0 to beyond "
    "the heap size, explicit / automatic / beyond-terminator length. Every push has its own code and letter pattern. evaluations = operations "
    "executed on the real library and compared with the model; distinct_nontrivial = 1/64 subsample of enumerated histories + one key per "
    "random history (lower bound)",
    extra_sources=["kit/ref_queue.c"],
    exhaustive=dict(quick=False, thorough=False),
    rule_more="stale bytes behind the terminator of the pushed text; heaps of 257+ bytes with texts of 256+ characters; texts taken with SCPI_ErrorPop and never given back",
    technique="model-based runtime monitor of the -DUSE_MEMORY_ALLOCATION_FREE=0 build: real queue + static text heap vs kit/ref_queue with the "
              "relaxed rule 'exactly the pushed text or none'; pops through SYST:ERR? (own IEEE 488.2 string reader) and through "
              "SCPI_ErrorPop + scpiheap_get_parts + scpiheap_free; text heap and queue array are exact-size mallocs under ASan+UBSan, "
              "surrounded by guard bytes in the gcc -O2 build; 'text must be stored' oracle for every fitting text pushed onto the empty queue",
    level_text="exploration by execution: exhaustive enumeration of all histories up to length 6 (quick) / 8 (thorough) over a 5..7-letter "
               "alphabet for every heap size 2..12 x capacity 1..4, plus a richer 10-letter alphabet at length 5 / 6, plus random long "
               "histories on heaps up to 600 bytes; text lengths are taken from a boundary set per heap size, not all lengths 0..H",
    level_note="trusted: kit/ref_queue.c, the response reader, sanitizer runtimes. Sources of explicit-length pushes carry one extra "
               "(non-NUL) byte after the text because scpiheap_strndup reads text[len] (reported separately by C18; reads are outside this "
               "statement, which speaks about writes). Texts are released by the client immediately and in pop order (what SYST:ERR? does); "
               "out-of-order release by an API client is outside the statement and not exercised. For SYST:ERR? answers beyond the 255 "
               "characters of SCPI-99 21.8 only 'is a prefix' is asserted; codes/order/count are compared with the model because the text "
               "oracle needs to know which push an entry belongs to",
    assumptions=["kit/ref_queue.c implements the FIFO with overflow marker of property C10; the text rule is relaxed to 'pushed text or none'",
                 "'completely reusable once the queue is empty' is read as: a text of 1..heap_size-1 characters pushed onto the empty queue "
                 "(all popped texts released) must be stored",
                 "with automatic length (info_len 0) a text longer than 255 characters may be stored cut at 255",
                 "gcc -O2 and clang -O1 ASan+UBSan builds of the working tree with -DUSE_MEMORY_ALLOCATION_FREE=0"])
