add("C20", "checks/c20_heap.c", ["heap-asan", "heap-plain"], ["heap-asan", "heap-plain"],
    "placeholder",
    extra_sources=["kit/ref_queue.c"])
