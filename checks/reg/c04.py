add("C04", "checks/c04_numeric.c", ["default-asan", "default-plain", "c89-plain", "c99-plain", "optall-plain", "ndebug-plain"], ["default-asan", "default-plain", "c89-plain", "uchar-plain", "c99-plain", "os-plain", "optall-plain", "ndebug-plain", "mcu-plain"],
    "cases = one literal sent as the parameter of a command and decoded by SCPI_ParamDouble/Float/Number/Int32/UInt32/Int64/UInt64/Bool: "
    "decimal literals from the 488.2 grammar (1..25 digits, every sign/point placement, exponents up to +-330, white space before the "
    "exponent mark and after it), exact midpoints between adjacent floats/doubles and their neighbours, boundary-biased integer literals in "
    "decimal and #H/#Q/#B form read by every integer width they fit, every row of an independent copy of the unit table x 3 letter cases "
    "x with/without white space x 5 numbers, every special mnemonic in short/long form and 3 letter cases; distinct_nontrivial = distinct literals",
    post="py/c04_exact.py",
    deps=["checks/c04_units.inc"],
    rule_more="literals of 26..600 digits; flavours c89 (no strtof), c99, optall (imperial units; reference table grouped by unit-group option); decoy context; each literal delivered in one of four ways (LF, CR LF, flush call, pending behind a complete message of the same input call and then flushed); runs of 3..130 blanks around the exponent mark",
    technique="reference-value monitor: decoded bit patterns compared in-process with glibc strtod/strtof on the white-space-free literal and exact integer arithmetic; a stratified sample of records re-decided offline with exact rational arithmetic (fractions.Fraction, own round-half-even)",
    level_text="exploration by execution over generated literals (5x10^5 quick / 1.2x10^7 thorough readings per flavour); the suffix table, special mnemonics and booleans are enumerated completely; about one literal in eight plus every literal with white space is re-checked without glibc",
    level_note="trusted: glibc strtod/strtof for the unsampled part, the 60-line exact-arithmetic checker, the independent unit-table copy (rows unknown to it are reported as inconclusive, not as violations)",
    assumptions=["integer readers on literals with fraction or exponent and out-of-range literals are outside the statement and not asserted", "nondecimal literals are read as float only up to 32 bits, as double up to 64 bits"])
