add("C03", "checks/c03_match.c", ["default-plain", "default-asan", "c89-plain", "mcu-plain"], ["default-plain", "default-asan", "c89-plain", "uchar-plain", "mcu-plain", "mcu89-plain"],
    "cases = command patterns; evaluations = library calls (matchCommand with numbers_len 0..k+1 and with numbers NULL, SCPI_Match, one "
    "SCPI_Input dispatch with SCPI_CommandNumbers and two SCPI_IsCmd inside the handler) over (pattern, header) pairs, each pair decided "
    "by the reference matcher kit/ref_match.c. Patterns: every pattern of <= 3 keywords (thorough: <= 4) over {ALPHa,BETa,GAMma,GAMMARay,"
    "VOLTage,UP} x {mandatory,[:optional]} x {plain,'#'} x {command,'?'} that satisfies the precondition (the others are counted in "
    "patterns.skipped_ambiguous and only tallied), the 63 compound patterns harvested from libscpi/test/*.c and examples/common/scpi-def.c "
    "(all but the keyword-less \"?\"; +3 trailing-optional-suffix variants) and the 13 common (*) patterns found there. Headers per pattern: the full spelling grid (each keyword absent/short/"
    "long/short+digits/long+digits) x {upper,lower} x {no colon, leading colon} x {'?' as pattern, flipped} + mixed case, and every "
    "single-deviation near miss of every valid spelling (long-1 letter, short+-1 letter, long+1 letter, letter after digits, digits only, "
    "other keyword, empty mnemonic, inner '?', '*' prefix, inserted / duplicated mnemonic, swapped neighbours) in two modifier "
    "combinations; 4-keyword patterns use two modifier combinations per grid header. The ASan+UBSan build runs all patterns of <= 2 "
    "keywords, all harvested and common ones and a seed-chosen 1/16 (4 keywords: 1/512) of the rest. distinct_nontrivial = distinct "
    "accepted (pattern, header) pairs (thorough: a 1/16 subsample, lower bound)",
    extra_sources=["kit/ref_match.c"],
    exhaustive=dict(quick=False, thorough=True),
    rule_more="digit-bearing stems; suffix digit strings padded to 11..30 digits; program data behind every dispatched header; SCPI_Match with the length of a larger buffer holding the terminated header; dispatched header lines ended by LF, by a flush call, or behind an empty line and then flushed",
    technique="differential runtime monitor: real matchCommand / SCPI_Match / SCPI_Input dispatch + SCPI_CommandNumbers + SCPI_IsCmd against an "
              "independent slot-assignment reference matcher over an exhaustive bounded enumeration of patterns and headers; exact-size heap "
              "header and numbers buffers under ASan+UBSan, guard cells in the -O2 build",
    level_text="exploration by execution over an enumerated, bounded domain: thorough runs every precondition-satisfying pattern of the grammar up "
               "to 4 keywords over a 6-keyword vocabulary (quick: up to 3) plus the shipped patterns, each against its complete spelling grid "
               "(every keyword absent/short/long/with digits) and every single-deviation near miss, headers of up to 5 mnemonics; letter case, "
               "leading colon and '?' are crossed in full for <= 3 keywords and sampled (2 of 9 / 2 of 12 combinations per header) for 4-keyword "
               "grids and near misses; headers with two simultaneous deviations, other vocabularies and longer patterns are not executed",
    level_note="trusted: kit/ref_match.c (250 lines, cross-checked against its own assignment counter: an unambiguous pattern never has two "
               "accepting assignments), the sanitizer runtimes; held means every executed pair agreed on acceptance and reported numbers",
    assumptions=["header length >= 1 (the lexer never produces an empty header; SCPI_Match(p, \"\", 0) is outside the domain)",
                 "digit suffixes denote values <= INT32_MAX",
                 "when matchCommand is given a numbers cell and the header ends in a digit, the byte after the header is readable and not a digit, as it "
                 "always is inside the parser's input buffer (strtol inspects it); calls without numbers get an exact-size buffer without terminator",
                 "header characters are letters, digits, ':', '?', '*' (what the lexer can deliver as a program header)",
                 "precondition 'no optional keyword can be mistaken for a keyword that may follow it' is decided by ref_pattern_unambiguous (spelling "
                 "overlap between an optional keyword and the keywords up to the next mandatory one)"])
