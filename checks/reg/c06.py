add("C06", "checks/c06_framing.c", ["default-asan", "default-plain", "dtostre-plain", "c89-plain", "lf-plain", "leptr-asan", "noinfo-plain", "heap-plain"], ["default-asan", "default-plain", "dtostre-plain", "c89-plain", "c89-asan", "lf-plain", "cr-plain", "leptr-asan", "leptr-plain", "ndebug-plain", "mcu-plain", "noinfo-plain", "heap-plain"],
    "cases = program messages of 1..6 units (queries emitting 0..4 result items of every scalar/text/block type incl. streamed blocks, "
    "succeeding, failing before output, failing after partial output, pushing their own error; commands; undefined headers; syntax-error "
    "units; empty units; unread parameters), each run on a fresh context and again after a random previous message; the captured bytes "
    "and flush events are compared with a response predicted without the library; distinct_nontrivial = distinct (message text, expected "
    "response) pairs",
    rule_more="ASCII arrays of 255..600 items; C90 library; every handler forwarding a query to a second context (nested parse); status system enabled (service requests raised in mid-response); line ending LF and as a run-time pointer; decoy context also from inside the write callback; table entries without handler; flush-terminated messages also travelling behind an empty line of the same input call",
    technique="reference-model monitor over the captured write()/flush() event stream (byte-exact predicted framing with independent item encoders)",
    level_text="exploration by execution over randomly generated messages (3x10^5 quick / 6x10^6 thorough per flavour); every unit-kind adjacency that the statement distinguishes is counted and required to occur",
    level_note="trusted: the check's own item encoders (integers in four bases, quote doubling, block header, a table of floats with short exact decimal expansions); a unit 'responds' iff its handler completed at least one result item",
    assumptions=["floating-point items are restricted to values whose %g text is canonical, so item text needs no library formatter"])
