/* C04 - numeric parameters decode to the value their literal denotes.
 * In-process oracle: glibc strtod/strtof on the literal with the white space removed (correctly rounded), exact
 * integer arithmetic for integer readers; a stratified sample of (literal, reader, result bits) records is re-decided
 * offline with exact rational arithmetic (py/c04_exact.py), so glibc is not trusted for the sampled part. */
#include "vh_scpi.h"
#include <stdio.h>
#include <stdlib.h>
#include <string.h>
#include <math.h>
#include <errno.h>

static const struct { const char * name; int unit; double mult; const char * mult_text; } ref_units[] = {
#include "c04_units.inc"
};
#define NREF (sizeof ref_units / sizeof ref_units[0])

enum { CMD_D = 1, CMD_F, CMD_N, CMD_I32, CMD_U32, CMD_I64, CMD_U64, CMD_B };
static vh_sig_t sigs[8];
static const scpi_command_t cmds[] = { { "D", vh_handler, CMD_D }, { "F", vh_handler, CMD_F }, { "N", vh_handler, CMD_N }, { "I32", vh_handler, CMD_I32 }, { "U32", vh_handler, CMD_U32 },
    { "I64", vh_handler, CMD_I64 }, { "U64", vh_handler, CMD_U64 }, { "B", vh_handler, CMD_B }, SCPI_CMD_LIST_END };
static const char * const cmdname[] = { "", "D", "F", "N", "I32", "U32", "I64", "U64", "B" };
static const char * const rdname[] = { "", "Double", "Float", "Number", "Int32", "UInt32", "Int64", "UInt64", "Bool" };
static vh_ctx_t * V; static vh_buf_t msg; static FILE * rec; static uint64_t nrec;

static void setup(void) {
    static const uint8_t kinds[8] = { VR_DOUBLE, VR_FLOAT, VR_NUMBER, VR_INT32, VR_UINT32, VR_INT64, VR_UINT64, VR_BOOL };
    int i;
    if (V) return;
    memset(sigs, 0, sizeof sigs);
    for (i = 0; i < 8; i++) { sigs[i].nsteps = 1; sigs[i].steps[0].kind = kinds[i]; sigs[i].steps[0].mandatory = 1; sigs[i].steps[0].cap = 30; }
    V = vh_ctx_new(cmds, 1200, 8, 128); V->sigs = sigs; V->nsigs = 8; V->log_enabled = 0;
    if (vh_args.out_path) { char p[1024]; snprintf(p, sizeof p, "%s.records", vh_args.out_path); rec = fopen(p, "w"); }
}
static void record(const char * kind, const char * lit, size_t n, const char * extra, uint64_t bits) {
    size_t i;
    if (!rec) return;
    fprintf(rec, "%s ", kind);
    for (i = 0; i < n; i++) fprintf(rec, "%02x", (unsigned char) lit[i]);
    fprintf(rec, " %s %016llx\n", extra, (unsigned long long) bits);
    nrec++;
}

/* process state the application may leave behind, like errno: the floating-point control word. With flush-to-zero / denormals-are-zero
 * switched on (-ffast-math start-up code, Intel compilers, RunFast mode) a literal WITHOUT suffix still denotes its own value: decoding it
 * needs no floating-point arithmetic at all (glibc's strtod assembles the result with integers). Suffixed literals are multiplied by the
 * FPU and are not run in this mode. */
#if defined(__x86_64__)
#include <xmmintrin.h>
static int g_ftz;
#define FTZ_ON() unsigned csr_ = _mm_getcsr(); if (g_ftz && !(VH_LIB_NO_STRTOF && cmd == CMD_F)) _mm_setcsr(csr_ | 0x8040u) /* a library without strtof narrows with the FPU: not run in this mode either */
#define FTZ_OFF() _mm_setcsr(csr_)
#else
static int g_ftz;
#define FTZ_ON() (void) 0
#define FTZ_OFF() (void) 0
#endif

/* How the literal reaches the parser is not part of what it denotes. Each literal is delivered in one of four ways, chosen by a hash of its
 * text: "<CMD> <literal>" ended by LF, by CR LF, by a zero-length (flush) call, or - in ONE call together with a complete earlier message
 * "D 777...7" that is longer than the unit itself - left pending and then executed by a flush (the bytes behind the literal are then whatever
 * the earlier message left in the buffer, not a terminator the application wrote).
 * Returns the step record of the literal's unit or NULL (violation already reported through key prefix). */
static unsigned lit_hash(const char * lit, size_t n) { unsigned h = 2166136261u; while (n--) h = (h ^ (unsigned char) *lit++) * 16777619u; return h ^ (h >> 15); }
static void feed(const void * p, size_t n) {
#if VH_ASAN
    vh_input(V, p, n);
#else
    SCPI_Input(V->ctx, (const char *) p, (int) n);
#endif
}
static const vh_stepres_t * decode(int cmd, const char * lit, size_t n, const char * cls) {
    char key[128]; unsigned mode = lit_hash(lit, n) % 8u; int want_inv = 1; size_t i;
    static const char * const modename[8] = { "lf", "lf", "lf", "lf", "crlf", "flush", "behind-a-message-then-flush", "behind-a-message-then-flush" };
    if (n > 280 && mode >= 6) mode = 0; /* the message in front carries n + 12 sevens: kept below 300 digits, a finite double for any reader */
    vh_ctx_clear_capture(V);
    vh_buf_reset(&msg);
    if (mode >= 6) { vh_buf_adds(&msg, "D "); for (i = 0; i < n + 12; i++) vh_buf_addc(&msg, '7'); vh_buf_addc(&msg, '\n'); want_inv = 2; }
    vh_buf_adds(&msg, cmdname[cmd]); vh_buf_addc(&msg, ' '); vh_buf_add(&msg, lit, n);
    if (mode < 4) vh_buf_addc(&msg, '\n'); else if (mode == 4) vh_buf_adds(&msg, "\r\n");
    {
        FTZ_ON();
        feed(msg.p, msg.len);
        if (mode >= 5) feed(NULL, 0);
        FTZ_OFF();
    }
    vh_eval(1);
    vh_count(mode < 4 ? "delivery.ended_by_lf" : mode == 4 ? "delivery.ended_by_crlf" : mode == 5 ? "delivery.ended_by_flush" : "delivery.pending_behind_a_complete_message_then_flush", 1);
    if (V->ninv != want_inv || V->inv[want_inv - 1].nsteps_done != 1 || !V->inv[want_inv - 1].res[0].ok || V->nerrs) {
        snprintf(key, sizeof key, "C04:literal-not-accepted:%s:%s", rdname[cmd], cls);
        vh_violation(key, "\"%s %s\" (delivery: %s): handler ran %d time(s) instead of %d, reader ok=%d, errors %d (first %d)", cmdname[cmd], vh_esc(lit, n), modename[mode], V->ninv, want_inv, V->ninv == want_inv ? V->inv[want_inv - 1].res[0].ok : 0, V->nerrs, V->nerrs ? V->errs[0] : 0);
        SCPI_ErrorClear(V->ctx);
        return NULL;
    }
    return &V->inv[want_inv - 1].res[0];
}

/* ---- decimal literals ----------------------------------------------------------------------------------- */
typedef struct { char text[720]; size_t n; char stripped[720]; int has_ws, is_integer; const char * cls; } lit_t;

static void gen_decimal(vh_rng_t * rng, lit_t * l, int want_integer) {
    size_t k = 0, s = 0; int nd = 1 + (int) vh_below(rng, vh_chance(rng, 1, 3) ? 25 : 8), i, point, hasexp, zeros = 0;
    /* the statement bounds no literal's length: a share of the literals is spelled with 26..600 digits (zero padded in front,
     * or all digits random), around the sizes a decoder's conversion buffer may have */
    if (vh_chance(rng, 1, 12)) { static const int ls[] = { 26, 40, 58, 60, 62, 63, 64, 65, 66, 100, 127, 128, 129, 255, 256, 257, 600 }; int L = ls[vh_below(rng, sizeof ls / sizeof ls[0])]; if (vh_chance(rng, 1, 2)) zeros = L - nd; else nd = L; }
    l->has_ws = 0; l->is_integer = 0;
    switch (vh_below(rng, 4)) { case 0: l->text[k++] = '+'; break; case 1: l->text[k++] = '-'; break; default: break; }
    point = want_integer ? -1 : (int) vh_below(rng, (uint32_t) nd + 3) - 1; /* -1: none; 0: leading '.'; nd: trailing '.' */
    if (point > nd) point = -1;
    while (zeros-- > 0) l->text[k++] = '0';
    for (i = 0; i < nd; i++) { if (i == point) l->text[k++] = '.'; l->text[k++] = (char) ('0' + vh_below(rng, 10)); }
    if (point == nd) l->text[k++] = '.';
    hasexp = !want_integer && vh_chance(rng, 1, 2);
    if (hasexp) {
        int e = (int) vh_below(rng, vh_chance(rng, 1, 3) ? 331 : 40), w;
        /* the white space around the exponent mark is as unbounded as the digits: most runs are 1..2 blanks, some 3..130 (around the sizes a decoder's buffer may have) */
        static const int longruns[] = { 3, 9, 30, 59, 60, 61, 62, 63, 64, 65, 66, 130 };
        if (vh_chance(rng, 1, 3)) { w = vh_chance(rng, 1, 8) && k < 300 ? longruns[vh_below(rng, 12)] : 1 + (int) vh_below(rng, 2); if (w > 2) vh_count("fp.literal_with_a_long_run_of_blanks_around_the_exponent_mark", 1); while (w--) { l->text[k++] = vh_chance(rng, 1, 4) ? '\t' : ' '; l->has_ws = 1; } }
        l->text[k++] = vh_chance(rng, 1, 2) ? 'E' : 'e';
        if (vh_chance(rng, 1, 3)) { w = vh_chance(rng, 1, 8) && k < 300 ? longruns[vh_below(rng, 12)] : 1 + (int) vh_below(rng, 2); if (w > 2) vh_count("fp.literal_with_a_long_run_of_blanks_around_the_exponent_mark", 1); while (w--) { l->text[k++] = ' '; l->has_ws = 1; } }
        switch (vh_below(rng, 3)) { case 0: l->text[k++] = '+'; break; case 1: l->text[k++] = '-'; break; default: break; }
        /* leading zeros in the exponent are digits like any other: one exponent in sixteen is padded to 3..70 digits */
        if (vh_chance(rng, 1, 16) && k < 300) { static const int zl[] = { 3, 5, 6, 7, 8, 16, 40, 60, 62, 64, 66, 70 }; int z = zl[vh_below(rng, 12)]; while (z-- > 0) l->text[k++] = '0'; vh_count("fp.exponent_with_leading_zeros", 1); }
        k += (size_t) snprintf(l->text + k, sizeof l->text - k, "%d", e);
    }
    l->text[k] = 0; l->n = k;
    for (i = 0; i < (int) k; i++) if (l->text[i] != ' ' && l->text[i] != '\t') l->stripped[s++] = l->text[i];
    l->stripped[s] = 0;
    l->is_integer = (point < 0 && !hasexp);
    if (s >= 64) vh_count(l->has_ws ? "fp.literal_of_64_or_more_characters_with_white_space" : "fp.literal_of_64_or_more_characters", 1);
    l->cls = l->has_ws ? "white-space-inside-number" : (hasexp ? "with-exponent" : (point == 0 ? "leading-point" : (point == nd ? "trailing-point" : (l->is_integer ? "integer" : "fraction"))));
}

/* recorded finding: a literal with white space around the exponent mark AND 64 or more other characters is decoded up to the white space only */
static int long_ws_finding(const lit_t * l, double got) {
    if (!l->has_ws || strlen(l->stripped) < 64) return 0;
    if (got != strtod(l->text, NULL)) return 0; /* strtod stops at the blank: the mantissa alone */
    vh_violation("C04:long-literal-with-exponent-white-space-decoded-as-mantissa", "\"%s\" (%zu characters without the blanks) decodes to %a, its mantissa alone", vh_esc(l->text, l->n), strlen(l->stripped), got);
    return 1;
}
static void check_fp(const lit_t * l, int sample) {
    const vh_stepres_t * s; char key[128]; double want = strtod(l->stripped, NULL); float wantf = strtof(l->stripped, NULL); uint64_t b; uint32_t fb;
    if ((s = decode(CMD_D, l->text, l->n, l->cls))) {
        if (memcmp(&s->d, &want, 8) != 0 && long_ws_finding(l, s->d)) { }
        else if (memcmp(&s->d, &want, 8) != 0) { snprintf(key, sizeof key, "C04:double-value:%s", l->cls); vh_violation(key, "ParamDouble(\"%s\") = %a, the literal denotes %a", vh_esc(l->text, l->n), s->d, want); }
        else vh_count("fp.double_ok", 1);
        if (sample) { memcpy(&b, &s->d, 8); record("D", l->text, l->n, "-", b); }
    }
    if ((s = decode(CMD_F, l->text, l->n, l->cls))) {
        if (memcmp(&s->f, &wantf, 4) != 0 && s->f == strtof(l->text, NULL) && long_ws_finding(l, strtod(l->text, NULL))) { }
#if VH_LIB_NO_STRTOF
        /* recorded finding: a library compiled without strtof (C90 libc) converts through strtod and narrows: rounded twice */
        else if (memcmp(&s->f, &wantf, 4) != 0 && s->f == (float) want) vh_violation("C04:float-rounded-twice-in-build-without-strtof", "ParamFloat(\"%s\") = %a, the literal denotes %a; (float) strtod gives %a", vh_esc(l->text, l->n), (double) s->f, (double) wantf, (double) (float) want);
#endif
        else if (memcmp(&s->f, &wantf, 4) != 0) { snprintf(key, sizeof key, "C04:float-value:%s", l->cls); vh_violation(key, "ParamFloat(\"%s\") = %a, the literal denotes %a", vh_esc(l->text, l->n), (double) s->f, (double) wantf); }
        else vh_count("fp.float_ok", 1);
        if (sample) { memcpy(&fb, &s->f, 4); record("F", l->text, l->n, "-", fb); }
    }
    if ((s = decode(CMD_N, l->text, l->n, l->cls))) {
        if (!s->special && s->unit == SCPI_UNIT_NONE && memcmp(&s->d, &want, 8) != 0 && long_ws_finding(l, s->d)) { }
        else if (s->special || s->unit != SCPI_UNIT_NONE || memcmp(&s->d, &want, 8) != 0) { snprintf(key, sizeof key, "C04:number-value:%s", l->cls); vh_violation(key, "ParamNumber(\"%s\") = special %d unit %d value %a, the literal denotes %a", vh_esc(l->text, l->n), s->special, s->unit, s->d, want); }
        else vh_count("fp.number_ok", 1);
    }
    if (l->has_ws) vh_count("fp.literal_with_white_space", 1);
}

static uint64_t p0_count(int thorough) {
#if VH_ASAN
    return vh_scaled(thorough ? 300000 : 30000);
#else
    return vh_scaled(thorough ? 8000000 : 250000);
#endif
}
static void p0_run(uint64_t idx, vh_rng_t * rng) {
    lit_t l;
    setup();
    gen_decimal(rng, &l, 0);
    vh_case_desc("decimal literal \"%s\"", vh_esc(l.text, l.n));
    g_ftz = (idx % 4 == 1);
    if (g_ftz) { double d_ = strtod(l.stripped, NULL); vh_count("fp.decoded_with_flush_to_zero_mode_on", 1); if (d_ != 0 && fabs(d_) < 2.2250738585072014e-308) vh_count("fp.subnormal_literal_decoded_with_flush_to_zero_mode_on", 1); }
    check_fp(&l, (idx % 8) == 0 || l.has_ws);
    g_ftz = 0;
    vh_distinct(vh_hash(l.text, l.n, 4));
    { char cn[64]; snprintf(cn, sizeof cn, "class.%s", l.cls); vh_count(cn, 1); }
    if (vh_want_sample()) vh_sample("\"%s\" -> double %a float %a", vh_esc(l.text, l.n), strtod(l.stripped, NULL), (double) strtof(l.stripped, NULL));
}

/* ---- integer literals in all four widths ------------------------------------------------------------------ */
static uint64_t biased(vh_rng_t * rng) {
    uint64_t r = vh_rand(rng);
    switch (vh_below(rng, 7)) {
        case 0: return r; case 1: return r >> vh_below(rng, 64);
        case 2: { uint64_t p = 1ULL << vh_below(rng, 64); return p + (uint64_t) ((int64_t) vh_below(rng, 3) - 1); }
        case 3: { uint64_t p = 1; int k = (int) vh_below(rng, 20); while (k--) p *= 10; return p + (uint64_t) ((int64_t) vh_below(rng, 3) - 1); }
        case 4: return (uint64_t) vh_below(rng, 1000);
        case 5: return 0x7fffffffULL + vh_below(rng, 3);
        default: return 0xffffffffULL - 1 + vh_below(rng, 3);
    }
}
static void check_int(const char * text, size_t n, int neg, uint64_t mag, const char * cls) {
    /* value = neg ? -mag : mag; assert each reader whose range holds the value */
    const vh_stepres_t * s; char key[128];
    int64_t sv = neg ? (int64_t) (0 - mag) : (int64_t) mag;
    int fits_i64 = neg ? mag <= 0x8000000000000000ULL : mag <= 0x7fffffffffffffffULL;
    if (fits_i64 && sv >= INT32_MIN && sv <= INT32_MAX && (s = decode(CMD_I32, text, n, cls))) { if ((int32_t) s->i != (int32_t) sv) { snprintf(key, sizeof key, "C04:int32-value:%s", cls); vh_violation(key, "ParamInt32(\"%s\") = %ld", vh_esc(text, n), (long) s->i); } else vh_count("int.int32_ok", 1); }
    if (!neg && mag <= UINT32_MAX && (s = decode(CMD_U32, text, n, cls))) { if ((uint32_t) s->u != (uint32_t) mag) { snprintf(key, sizeof key, "C04:uint32-value:%s", cls); vh_violation(key, "ParamUInt32(\"%s\") = %lu", vh_esc(text, n), (unsigned long) s->u); } else vh_count("int.uint32_ok", 1); }
    if (fits_i64 && (s = decode(CMD_I64, text, n, cls))) { if (s->i != sv) { snprintf(key, sizeof key, "C04:int64-value:%s", cls); vh_violation(key, "ParamInt64(\"%s\") = %lld", vh_esc(text, n), (long long) s->i); } else vh_count("int.int64_ok", 1); }
    if (!neg && (s = decode(CMD_U64, text, n, cls))) { if (s->u != mag) { snprintf(key, sizeof key, "C04:uint64-value:%s", cls); vh_violation(key, "ParamUInt64(\"%s\") = %llu", vh_esc(text, n), (unsigned long long) s->u); } else vh_count("int.uint64_ok", 1); }
    /* the same literal as floating point: the exact integer rounded once */
    if ((s = decode(CMD_D, text, n, cls))) {
        double want = neg ? -(double) mag : (double) mag; /* uint64 -> double conversion rounds to nearest even */
        if (s->d != want) { snprintf(key, sizeof key, "C04:double-value:%s", cls); vh_violation(key, "ParamDouble(\"%s\") = %a, expected %a", vh_esc(text, n), s->d, want); } else vh_count("int.as_double_ok", 1);
    }
    if (mag <= UINT32_MAX && (s = decode(CMD_F, text, n, cls))) {
        float want = neg ? -(float) mag : (float) mag;
        if (s->f != want) { snprintf(key, sizeof key, "C04:float-value:%s", cls); vh_violation(key, "ParamFloat(\"%s\") = %a, expected %a", vh_esc(text, n), (double) s->f, (double) want); } else vh_count("int.as_float_ok", 1);
    }
}
static uint64_t p1_count(int thorough) {
#if VH_ASAN
    return vh_scaled(thorough ? 200000 : 20000);
#else
    return vh_scaled(thorough ? 4000000 : 150000);
#endif
}
static void p1_run(uint64_t idx, vh_rng_t * rng) {
    uint64_t v = biased(rng); char t[96]; size_t n; int neg = 0;
    setup();
    switch (idx % 4) {
        case 0: { neg = vh_chance(rng, 1, 3) && v <= 0x8000000000000000ULL; n = (size_t) snprintf(t, sizeof t, "%s%llu", neg ? "-" : (vh_chance(rng, 1, 4) ? "+" : ""), (unsigned long long) v); vh_case_desc("integer literal %s", t); check_int(t, n, neg, v, "decimal-integer"); break; }
        case 1: n = (size_t) snprintf(t, sizeof t, vh_chance(rng, 1, 2) ? "#H%llX" : "#h%llx", (unsigned long long) v); vh_case_desc("literal %s", t); check_int(t, n, 0, v, "hex"); break;
        case 2: n = (size_t) snprintf(t, sizeof t, vh_chance(rng, 1, 2) ? "#Q%llo" : "#q%llo", (unsigned long long) v); vh_case_desc("literal %s", t); check_int(t, n, 0, v, "octal"); break;
        default: { char b[70]; int k = 0; uint64_t x = v; do { b[k++] = (char) ('0' + (x & 1)); x >>= 1; } while (x); n = 0; t[n++] = '#'; t[n++] = vh_chance(rng, 1, 2) ? 'B' : 'b'; while (k) t[n++] = b[--k]; t[n] = 0; vh_case_desc("literal %s", t); check_int(t, n, 0, v, "binary"); break; }
    }
    vh_distinct(vh_hash(t, n, 5));
    if (vh_want_sample()) vh_sample("\"%s\" read by Int32/UInt32/Int64/UInt64/Double/Float where in range", t);
}

/* ---- suffixes: every row of the unit table, three letter cases, with/without white space ------------------- */
static uint64_t p2_count(int thorough) { (void) thorough; return 1; }
static void p2_run(uint64_t idx, vh_rng_t * rng) {
    size_t i, k; int c, sp, v;
    static const char * const values[] = { "1", "2.5", "-3e2", ".125", "7 E-1" };
    (void) idx; (void) rng;
    setup();
    /* library rows the reference does not know -> inconclusive marker, not a violation */
    for (k = 0; scpi_units_def[k].name; k++) {
        int known = 0; for (i = 0; i < NREF; i++) if (strcmp(ref_units[i].name, scpi_units_def[k].name) == 0) known = 1;
        if (!known) { vh_count("units.library_row_unknown_to_reference", 1); vh_sample("library unit row %s has no counterpart in the reference copy", scpi_units_def[k].name); }
        else vh_count("units.library_rows_known", 1);
    }
    /* inconclusive (never a violation) when the library knows suffixes the reference copy does not */
    vh_require("units.all_library_rows_known_to_reference");
    if (vh_counter_get("units.library_row_unknown_to_reference") == 0) vh_count("units.all_library_rows_known_to_reference", 1);
    for (i = 0; i < NREF; i++) for (c = 0; c < 3; c++) for (sp = 0; sp < 2; sp++) for (v = 0; v < 5; v++) {
        char suf[16], lit[64], stripped[64], key[128]; size_t n, j, s = 0; const vh_stepres_t * r; double base, want;
        snprintf(suf, sizeof suf, "%s", ref_units[i].name);
        for (j = 0; suf[j]; j++) suf[j] = (char) (c == 0 ? suf[j] : c == 1 ? (suf[j] >= 'A' && suf[j] <= 'Z' ? suf[j] + 32 : suf[j]) : ((j & 1) && suf[j] >= 'A' && suf[j] <= 'Z' ? suf[j] + 32 : suf[j]));
        n = (size_t) snprintf(lit, sizeof lit, "%s%s%s", values[v], sp ? " " : "", suf);
        /* "7 E-1" + suffix starting with a letter is still number + suffix; the numeric part for the oracle: */
        for (j = 0; values[v][j]; j++) if (values[v][j] != ' ') stripped[s++] = values[v][j];
        stripped[s] = 0; base = strtod(stripped, NULL); want = base * ref_units[i].mult;
        vh_case_desc("suffix literal \"%s\"", lit);
        if ((r = decode(CMD_N, lit, n, "with-suffix"))) {
            double ulp = fabs(nextafter(want, INFINITY) - want);
            if (r->special) { vh_violation("C04:suffix-special-flag", "ParamNumber(\"%s\") reported a special number", lit); continue; }
            if (r->unit != ref_units[i].unit) { snprintf(key, sizeof key, "C04:suffix-base-unit"); vh_violation(key, "ParamNumber(\"%s\") base unit %d, the table says %d (%s)", lit, r->unit, ref_units[i].unit, ref_units[i].name); continue; }
            if (fabs(r->d - want) > ulp) { snprintf(key, sizeof key, "C04:suffix-multiplier"); vh_violation(key, "ParamNumber(\"%s\") = %a, expected %s x %s = %a", lit, r->d, stripped, ref_units[i].mult_text, want); continue; }
            vh_count("units.suffix_ok", 1);
            if ((i * 30 + (size_t) (c * 10 + sp * 5 + v)) % 7 == 0) { uint64_t b; memcpy(&b, &r->d, 8); record("U", lit, n, ref_units[i].mult_text, b); }
        }
        vh_distinct(vh_hash(lit, n, 6));
    }
    /* special mnemonics */
    {
        static const struct { const char * s; int tag; } sp_[] = { { "MIN", SCPI_NUM_MIN }, { "MINIMUM", SCPI_NUM_MIN }, { "MAX", SCPI_NUM_MAX }, { "MAXIMUM", SCPI_NUM_MAX }, { "DEF", SCPI_NUM_DEF }, { "DEFAULT", SCPI_NUM_DEF },
            { "UP", SCPI_NUM_UP }, { "DOWN", SCPI_NUM_DOWN }, { "NAN", SCPI_NUM_NAN }, { "INF", SCPI_NUM_INF }, { "INFINITY", SCPI_NUM_INF }, { "NINF", SCPI_NUM_NINF }, { "AUTO", SCPI_NUM_AUTO } };
        for (i = 0; i < sizeof sp_ / sizeof sp_[0]; i++) for (c = 0; c < 3; c++) {
            char t[16]; size_t j, n; const vh_stepres_t * r;
            snprintf(t, sizeof t, "%s", sp_[i].s); n = strlen(t);
            for (j = 0; j < n; j++) if (c == 1 || (c == 2 && (j & 1))) t[j] = (char) (t[j] + 32);
            if ((r = decode(CMD_N, t, n, "special-mnemonic"))) { if (!r->special || r->tag != sp_[i].tag) vh_violation("C04:special-mnemonic-tag", "ParamNumber(\"%s\") special=%d tag=%d, expected tag %d", t, r->special, r->tag, sp_[i].tag); else vh_count("special.mnemonic_ok", 1); }
        }
    }
    /* booleans */
    { static const struct { const char * s; int v; } bs[] = { { "0", 0 }, { "1", 1 }, { "ON", 1 }, { "OFF", 0 }, { "on", 1 }, { "off", 0 }, { "2", 1 } }; const vh_stepres_t * r;
      for (i = 0; i < 7; i++) if ((r = decode(CMD_B, bs[i].s, strlen(bs[i].s), "boolean"))) { if (r->i != bs[i].v) vh_violation("C04:boolean-value", "ParamBool(\"%s\") = %d", bs[i].s, (int) r->i); else vh_count("bool.ok", 1); } }
}

/* ---- boundary values of rounding: halfway cases for float and double ----------------------------------------- */
static uint64_t p3_count(int thorough) { return vh_scaled(thorough ? 400000 : 20000); }
static void p3_run(uint64_t idx, vh_rng_t * rng) {
    /* exact decimal expansion of the midpoint between two adjacent floats/doubles, and its neighbours in the last digit */
    lit_t l; char buf[96]; size_t s = 0, i;
    setup();
    if (idx & 1) { uint32_t b = (uint32_t) (vh_rand(rng) % 0x7f000000u); float f, g; memcpy(&f, &b, 4); g = nextafterf(f, INFINITY); snprintf(buf, sizeof buf, "%.60g", ((double) f + (double) g) / 2); }
    else { double d = (double) (1 + vh_below(rng, 1u << 30)) * pow(2.0, (double) ((int) vh_below(rng, 60) - 30)); snprintf(buf, sizeof buf, "%.40g", d); }
    if (strlen(buf) > 80 || strpbrk(buf, "in")) return;
    if (vh_chance(rng, 1, 2)) { size_t n = strlen(buf); char * e = strpbrk(buf, "e"); size_t at = e ? (size_t) (e - buf) - 1 : n - 1; if (buf[at] >= '1' && buf[at] <= '8') buf[at] = (char) (buf[at] + (vh_chance(rng, 1, 2) ? 1 : -1)); }
    snprintf(l.text, sizeof l.text, "%s", buf); l.n = strlen(l.text); l.has_ws = 0; l.cls = "rounding-boundary";
    for (i = 0; i < l.n; i++) l.stripped[s++] = l.text[i];
    l.stripped[s] = 0;
    vh_case_desc("rounding-boundary literal \"%s\"", l.text);
    check_fp(&l, (idx % 4) == 0);
    vh_count("class.rounding-boundary", 1);
    vh_distinct(vh_hash(l.text, l.n, 7));
}

static uint64_t pend_count(int thorough) { (void) thorough; return (uint64_t) vh_args.nshards; }
static void pend_run(uint64_t idx, vh_rng_t * rng) { (void) idx; (void) rng; if (rec) { fclose(rec); rec = NULL; } vh_count("records.streamed", nrec); }

int main(int argc, char ** argv) {
    static const vh_phase_t phases[] = { { "decimal literals", p0_count, p0_run }, { "integer literals", p1_count, p1_run }, { "suffixes, specials, booleans", p2_count, p2_run },
        { "rounding boundaries", p3_count, p3_run }, { "close records", pend_count, pend_run } };
    vh_decoy_enable(9); vh_require("decoy.messages_run_on_a_second_context"); vh_require("fp.double_ok"); vh_require("fp.subnormal_literal_decoded_with_flush_to_zero_mode_on"); vh_require("fp.float_ok"); vh_require("fp.number_ok"); vh_require("fp.literal_with_white_space"); vh_require("int.int32_ok"); vh_require("int.uint64_ok");
    vh_require("units.suffix_ok"); vh_require("special.mnemonic_ok"); vh_require("class.leading-point"); vh_require("class.trailing-point"); vh_require("class.with-exponent");
    return vh_main(argc, argv, "C04", phases, 5);
}
