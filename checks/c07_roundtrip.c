/* C07 - every value the library formats as a result decodes back to the same value.
 * Monitor: format -> capture -> feed back as a parameter -> decode, through the public API only. */
#include "vh_scpi.h"
#include <stdio.h>
#include <stdlib.h>
#include <string.h>
#include <math.h>

enum { K_I8, K_U8, K_I16, K_U16, K_I32, K_U32, K_I64, K_U64, K_BOOL, K_TEXT, K_BLOCK, K_FLOAT, K_DOUBLE,
       K_AI32, K_AU32, K_AI64, K_AU64, K_AF, K_AD, K_AI8, K_AU8, K_AI16, K_AU16 };
enum { RD_I32, RD_U32, RD_I64, RD_U64, RD_BOOL, RD_COPYTEXT, RD_BLOCK, RD_FLOAT, RD_DOUBLE, RD_AI32, RD_AU32, RD_AI64, RD_AU64, RD_AF, RD_AD };

static struct { int kind, base; uint64_t u; double d; const void * data; size_t len; /* text bytes / block / array elements */
                int reader; size_t buflen; size_t cap; } S;
static struct { int emitted, called, ok; uint64_t u; double d; float f; char * buf; size_t n; const char * bptr; void * arr; size_t cnt; int errs; } R;

/* one response in four carries another item in front of the value under test ("7," - the value is then not the first item of its response:
 * whatever a result writer does differently behind a delimiter is part of "the response data the library emits") */
static int g_lead; static unsigned g_lead_turn;
static scpi_result_t h_emit(scpi_t * c) {
    R.emitted++;
    g_lead = (g_lead_turn++ & 3) == 3;
    if (g_lead) SCPI_ResultInt32(c, 7);
    switch (S.kind) {
        case K_I8: SCPI_ResultInt8(c, (int8_t) S.u); break;
        case K_U8: SCPI_ResultUInt8Base(c, (uint8_t) S.u, S.base); break;
        case K_I16: SCPI_ResultInt16(c, (int16_t) S.u); break;
        case K_U16: SCPI_ResultUInt16Base(c, (uint16_t) S.u, S.base); break;
        case K_I32: SCPI_ResultInt32(c, (int32_t) S.u); break;
        case K_U32: SCPI_ResultUInt32Base(c, (uint32_t) S.u, (int8_t) S.base); break;
        case K_I64: SCPI_ResultInt64(c, (int64_t) S.u); break;
        case K_U64: SCPI_ResultUInt64Base(c, S.u, (int8_t) S.base); break;
        case K_BOOL: SCPI_ResultBool(c, S.u ? TRUE : FALSE); break;
        case K_TEXT: SCPI_ResultText(c, (const char *) S.data); break;
        case K_BLOCK: SCPI_ResultArbitraryBlock(c, S.data, S.len); break;
        case K_FLOAT: SCPI_ResultFloat(c, (float) S.d); break;
        case K_DOUBLE: SCPI_ResultDouble(c, S.d); break;
        case K_AI32: SCPI_ResultArrayInt32(c, (const int32_t *) S.data, S.len, SCPI_FORMAT_ASCII); break;
        case K_AU32: SCPI_ResultArrayUInt32(c, (const uint32_t *) S.data, S.len, SCPI_FORMAT_ASCII); break;
        case K_AI64: SCPI_ResultArrayInt64(c, (const int64_t *) S.data, S.len, SCPI_FORMAT_ASCII); break;
        case K_AU64: SCPI_ResultArrayUInt64(c, (const uint64_t *) S.data, S.len, SCPI_FORMAT_ASCII); break;
        case K_AF: SCPI_ResultArrayFloat(c, (const float *) S.data, S.len, SCPI_FORMAT_ASCII); break;
        case K_AD: SCPI_ResultArrayDouble(c, (const double *) S.data, S.len, SCPI_FORMAT_ASCII); break;
        case K_AI8: SCPI_ResultArrayInt8(c, (const int8_t *) S.data, S.len, SCPI_FORMAT_ASCII); break;
        case K_AU8: SCPI_ResultArrayUInt8(c, (const uint8_t *) S.data, S.len, SCPI_FORMAT_ASCII); break;
        case K_AI16: SCPI_ResultArrayInt16(c, (const int16_t *) S.data, S.len, SCPI_FORMAT_ASCII); break;
        case K_AU16: SCPI_ResultArrayUInt16(c, (const uint16_t *) S.data, S.len, SCPI_FORMAT_ASCII); break;
    }
    return SCPI_RES_OK;
}

static scpi_result_t h_read(scpi_t * c) {
    R.called++; R.ok = 0;
    switch (S.reader) {
        case RD_I32: { int32_t v = 0x5a5a5a5a; R.ok = SCPI_ParamInt32(c, &v, TRUE); R.u = (uint64_t) (int64_t) v; break; }
        case RD_U32: { uint32_t v = 0x5a5a5a5a; R.ok = SCPI_ParamUInt32(c, &v, TRUE); R.u = v; break; }
        case RD_I64: { int64_t v = 0x5a5a5a5a; R.ok = SCPI_ParamInt64(c, &v, TRUE); R.u = (uint64_t) v; break; }
        case RD_U64: { uint64_t v = 0x5a5a5a5a; R.ok = SCPI_ParamUInt64(c, &v, TRUE); R.u = v; break; }
        case RD_BOOL: { scpi_bool_t v = 0; R.ok = SCPI_ParamBool(c, &v, TRUE); R.u = v ? 1 : 0; break; }
        case RD_FLOAT: { float v = -12345.f; R.ok = SCPI_ParamFloat(c, &v, TRUE); R.f = v; break; }
        case RD_DOUBLE: { double v = -12345.; R.ok = SCPI_ParamDouble(c, &v, TRUE); R.d = v; break; }
        case RD_COPYTEXT: { R.buf = (char *) malloc(S.buflen ? S.buflen : 1); memset(R.buf, 0xA5, S.buflen ? S.buflen : 1); R.n = 0; R.ok = SCPI_ParamCopyText(c, R.buf, S.buflen, &R.n, TRUE); break; }
        case RD_BLOCK: { const char * p = NULL; size_t n = 0; R.ok = SCPI_ParamArbitraryBlock(c, &p, &n, TRUE); R.n = n; R.buf = NULL; if (R.ok) { R.buf = (char *) malloc(n ? n : 1); if (n) memcpy(R.buf, p, n); } break; }
        case RD_AI32: R.arr = calloc(S.cap ? S.cap : 1, 4); R.ok = SCPI_ParamArrayInt32(c, (int32_t *) R.arr, S.cap, &R.cnt, SCPI_FORMAT_ASCII, TRUE); break;
        case RD_AU32: R.arr = calloc(S.cap ? S.cap : 1, 4); R.ok = SCPI_ParamArrayUInt32(c, (uint32_t *) R.arr, S.cap, &R.cnt, SCPI_FORMAT_ASCII, TRUE); break;
        case RD_AI64: R.arr = calloc(S.cap ? S.cap : 1, 8); R.ok = SCPI_ParamArrayInt64(c, (int64_t *) R.arr, S.cap, &R.cnt, SCPI_FORMAT_ASCII, TRUE); break;
        case RD_AU64: R.arr = calloc(S.cap ? S.cap : 1, 8); R.ok = SCPI_ParamArrayUInt64(c, (uint64_t *) R.arr, S.cap, &R.cnt, SCPI_FORMAT_ASCII, TRUE); break;
        case RD_AF: R.arr = calloc(S.cap ? S.cap : 1, 4); R.ok = SCPI_ParamArrayFloat(c, (float *) R.arr, S.cap, &R.cnt, SCPI_FORMAT_ASCII, TRUE); break;
        case RD_AD: R.arr = calloc(S.cap ? S.cap : 1, 8); R.ok = SCPI_ParamArrayDouble(c, (double *) R.arr, S.cap, &R.cnt, SCPI_FORMAT_ASCII, TRUE); break;
    }
    return SCPI_RES_OK;
}

static const scpi_command_t cmds[] = { { "EMIT?", h_emit, 1 }, { "READ", h_read, 2 }, SCPI_CMD_LIST_END };

#define INBUF 2600
static vh_ctx_t * V;
static vh_buf_t msg;
static const char * const kind_names[] = { "Int8", "UInt8", "Int16", "UInt16", "Int32", "UInt32", "Int64", "UInt64", "Bool", "Text", "Block", "Float", "Double",
    "ArrayInt32", "ArrayUInt32", "ArrayInt64", "ArrayUInt64", "ArrayFloat", "ArrayDouble", "ArrayInt8", "ArrayUInt8", "ArrayInt16", "ArrayUInt16" };

static size_t g_inbuf = INBUF;
static void ctx_fresh(void) {
    if (V) vh_ctx_free(V);
    V = vh_ctx_new(cmds, g_inbuf, 8, 64);
    V->log_enabled = 0;
}

/* emit with the current script, returns response data (without line ending) in v->out; then reads it back */
static int roundtrip(const char ** text, size_t * tlen) {
    static const char q[] = "EMIT?\n";
    size_t n;
    if (!V) ctx_fresh();
    vh_ctx_clear_capture(V);
    R.emitted = R.called = 0; R.buf = NULL; R.arr = NULL; R.cnt = 0;
#if VH_ASAN
    vh_input(V, q, 6);
#else
    SCPI_Input(V->ctx, q, 6);
#endif
    n = V->out.len;
    if (R.emitted != 1 || n < sizeof SCPI_LINE_ENDING - 1 || memcmp(V->out.p + n - (sizeof SCPI_LINE_ENDING - 1), SCPI_LINE_ENDING, sizeof SCPI_LINE_ENDING - 1) != 0 || V->nerrs) {
        vh_violation("C07:emit-failed", "result kind %s: emitted=%d out=\"%s\" errs=%d", kind_names[S.kind], R.emitted, vh_esc(V->out.p, n), V->nerrs);
        ctx_fresh(); return 0;
    }
    n -= sizeof SCPI_LINE_ENDING - 1;
    vh_buf_reset(&msg);
    vh_buf_adds(&msg, "READ ");
    if (g_lead) {
        if (n < 2 || V->out.p[0] != '7' || V->out.p[1] != ',') { vh_violation("C07:emit-failed", "result kind %s behind another item: out=\"%s\" does not start with \"7,\"", kind_names[S.kind], vh_esc(V->out.p, n)); ctx_fresh(); return 0; }
        vh_buf_add(&msg, V->out.p + 2, n - 2); n -= 2; vh_count("emit.value_behind_another_item_of_the_same_response", 1);
    } else
    vh_buf_add(&msg, V->out.p, n);
    vh_buf_addc(&msg, '\n');
    if (text) { *text = msg.p + 5; *tlen = n; }
    V->nerrs = 0; V->nerrs_total = 0;
    { unsigned how = (unsigned) (vh_hash(msg.p, msg.len, 7) % 8u);
      /* what was emitted is read back as the parameter of "READ": the line ends with LF or - one in four - with a flush call, half of those
       * after travelling behind an empty line in the same input call (kit vh_deliver) */
      if (how >= 6) { vh_deliver(V, msg.p, msg.len, 1, how == 6 ? 1 : 2); vh_count("readback.line_ended_by_a_flush_call", 1); }
      else {
#if VH_ASAN
    vh_input(V, msg.p, msg.len);
#else
    SCPI_Input(V->ctx, msg.p, (int) msg.len);
#endif
      } }
    vh_eval(1);
    R.errs = V->nerrs;
    if (R.called != 1) {
        vh_violation("C07:not-accepted", "%s response \"%s\" sent back as parameter: handler called %d times, errors %d (first %d)", kind_names[S.kind], vh_esc(msg.p + 5, n), R.called, V->nerrs, V->nerrs ? V->errs[0] : 0);
        SCPI_ErrorClear(V->ctx); return 0;
    }
    if (!R.ok || V->nerrs) {
        char key[64]; snprintf(key, sizeof key, "C07:reader-rejects:%s", kind_names[S.kind]);
        vh_violation(key, "%s response \"%s\": reader ok=%d, errors %d (first %d)", kind_names[S.kind], vh_esc(msg.p + 5, n), R.ok, V->nerrs, V->nerrs ? V->errs[0] : 0);
        SCPI_ErrorClear(V->ctx); free(R.buf); free(R.arr); R.buf = NULL; R.arr = NULL; return 0;
    }
    return 1;
}

/* ---- integers ------------------------------------------------------------------------------- */
static const int bases4[4] = { 10, 16, 8, 2 };
static void int_case(int kind, uint64_t val, int base) {
    const char * t; size_t tl; int bits, sgn;
    uint64_t expect;
    switch (kind) { case K_I8: case K_U8: bits = 8; break; case K_I16: case K_U16: bits = 16; break; case K_I32: case K_U32: bits = 32; break; default: bits = 64; }
    sgn = (kind == K_I8 || kind == K_I16 || kind == K_I32 || kind == K_I64);
    if (bits < 64) val &= (1ULL << bits) - 1;
    /* the value as the matching reader must deliver it */
    if (sgn && bits < 64 && (val >> (bits - 1))) expect = val | ~((1ULL << bits) - 1); else expect = val;
    S.kind = kind; S.base = base; S.u = sgn ? expect : val;
    /* matching reader: same signedness, 32-bit reader for <= 32 bits, 64-bit otherwise */
    S.reader = bits <= 32 ? (sgn ? RD_I32 : RD_U32) : (sgn ? RD_I64 : RD_U64);
    if (roundtrip(&t, &tl)) {
        uint64_t got = R.u;
        if (S.reader == RD_U32) got &= 0xffffffffULL;
        if (got != expect) {
            char key[64]; snprintf(key, sizeof key, "C07:value-changed:%s", kind_names[kind]);
            vh_violation(key, "%s value 0x%llx base %d emitted as \"%s\" decoded as 0x%llx", kind_names[kind], (unsigned long long) expect, base, vh_esc(t, tl), (unsigned long long) got);
        }
    }
    /* unsigned non-decimal results are also read back with the signed reader of the same width (same bit pattern) */
    if (!sgn && base != 10) {
        S.reader = bits <= 32 ? RD_I32 : RD_I64;
        if (roundtrip(&t, &tl)) {
            uint64_t got = R.u, want = val;
            if (bits <= 32) { got &= 0xffffffffULL; }
            if (got != want) vh_violation("C07:value-changed:nondecimal-signed-reader", "%s value 0x%llx base %d emitted as \"%s\" decoded by the signed reader as 0x%llx", kind_names[kind], (unsigned long long) val, base, vh_esc(t, tl), (unsigned long long) got);
        }
        vh_count("int.nondecimal_signed_reader", 1);
    }
    vh_count("int.roundtrips", 1);
}

/* phase 0: all 8-bit and 16-bit values, all bases */
static uint64_t p0_count(int thorough) { (void) thorough; return 256 + 256; }
static void p0_run(uint64_t idx, vh_rng_t * rng) {
    uint64_t v; int b;
    (void) rng;
    vh_case_desc("exhaustive 8/16-bit block %llu", (unsigned long long) idx);
    if (idx < 256) {
        /* 16-bit: block of 256 values */
        for (v = idx * 256; v < idx * 256 + 256; v++) {
            vh_sub = v;
            int_case(K_I16, v, 10);
            for (b = 0; b < 4; b++) int_case(K_U16, v, bases4[b]);
        }
        vh_count("int.exhaustive16_values", 256);
        vh_distinct(vh_hash_u64(idx, 16));
    } else {
        v = idx - 256; vh_sub = v;
        int_case(K_I8, v, 10);
        for (b = 0; b < 4; b++) int_case(K_U8, v, bases4[b]);
        S.kind = K_BOOL; S.u = v & 1; S.reader = RD_BOOL;
        if (roundtrip(NULL, NULL) && R.u != (v & 1)) vh_violation("C07:value-changed:Bool", "bool %d decoded as %d", (int) (v & 1), (int) R.u);
        vh_count("int.exhaustive8_values", 1);
        vh_distinct(vh_hash_u64(v, 8));
    }
}

/* phase 1: 32-bit values. thorough in the plain build: ALL 2^32 values (base 10 signed+unsigned, base 16), other bases
 * on a 1/16 stratum; quick: boundary blocks + random */
static uint64_t p1_count(int thorough) {
#if VH_ASAN
    return vh_scaled(thorough ? 4096 : 512);
#else
    return thorough ? 65536 : 65536;
#endif
}
static void p1_run(uint64_t idx, vh_rng_t * rng) {
#if VH_ASAN
    int k;
    vh_case_desc("32-bit sample block %llu", (unsigned long long) idx);
    for (k = 0; k < 64; k++) {
        uint32_t v = (uint32_t) vh_rand(rng) >> vh_below(rng, 32);
        if (k < 8) v = (uint32_t[]) { 0, 1, 0x7fffffff, 0x80000000u, 0xffffffffu, 999999999, 1000000000, 0x80000001u }[k];
        vh_sub = v;
        int_case(K_I32, v, 10); int_case(K_U32, v, bases4[k & 3]);
    }
#else
    uint32_t hi = (uint32_t) idx << 16, lo; int b;
    vh_case_desc("32-bit sweep block hi=0x%04x", (unsigned) idx);
    if (vh_args.thorough && (VH_FLAVOUR_DEFAULT || (idx & 31) == 7)) { /* all 2^32 values in the default flavour, every 32nd block of 65536 in the others */
        for (lo = 0; lo < 65536; lo++) {
            uint32_t v = hi | lo; vh_sub = v;
            int_case(K_I32, v, 10); int_case(K_U32, v, 10); int_case(K_U32, v, 16);
            if ((lo & 15) == (idx & 15)) { int_case(K_U32, v, 8); int_case(K_U32, v, 2); }
        }
        vh_count("int.sweep32_values", 65536);
        vh_distinct(vh_hash_u64(idx, 32));
    } else {
        static const uint16_t los[] = { 0, 1, 9, 10, 99, 100, 0x7fff, 0x8000, 0xffff };
        size_t i;
        for (i = 0; i < sizeof los / sizeof los[0]; i++) { uint32_t v = hi | los[i]; vh_sub = v; int_case(K_I32, v, 10); for (b = 0; b < 4; b++) int_case(K_U32, v, bases4[b]); }
        for (i = 0; i < 23; i++) { uint32_t v = hi | vh_below(rng, 65536); vh_sub = v; int_case(K_I32, v, 10); int_case(K_U32, v, bases4[i & 3]); }
        vh_count("int.sweep32_values", 32);
        vh_distinct(vh_hash_u64(idx, 33));
    }
#endif
}

/* values that are "sparse" in decimal: a few non-zero digits, long runs of zeros (k*10^18 + c, 10^a + 10^b, ...) */
static uint64_t sparse_decimal(vh_rng_t * rng) {
    uint64_t v = 0; int terms = 1 + (int) vh_below(rng, 3), t;
    for (t = 0; t < terms; t++) {
        uint64_t p = 1, d = 1 + vh_below(rng, 18); int e = (int) vh_below(rng, 20);
        while (e--) p *= 10;
        if (vh_chance(rng, 1, 3)) d = vh_below(rng, 1000000000u); /* a whole group of up to nine digits */
        v += d * p; /* wraps modulo 2^64 for the largest ones, still a legal value */
    }
    return vh_chance(rng, 1, 4) ? (uint64_t) (0 - v) : v;
}
/* a 32-bit word that is round in binary or in decimal (a converter working in words / in groups of digits compares words with such constants) */
static uint32_t round_word(vh_rng_t * rng) {
    uint32_t w;
    switch (vh_below(rng, 5)) {
        case 0: { w = 1; int k = (int) vh_below(rng, 10); while (k--) w *= 10; break; }          /* 10^k, k = 0..9 */
        case 1: w = 1u << vh_below(rng, 32); break;
        case 2: w = vh_chance(rng, 1, 2) ? 0xffffffffu : 0u; break;
        case 3: { static const uint32_t c[] = { 999999999u, 99999999u, 4294967295u / 10, 429496729u, 2147483647u, 65535u, 65536u, 10000u, 9999u }; w = c[vh_below(rng, sizeof c / sizeof c[0])]; break; }
        default: return (uint32_t) vh_rand(rng);
    }
    return w + (uint32_t) ((int32_t) vh_below(rng, 3) - 1);
}
/* values made of round words, and values whose quotient by a power of ten is a round word (the edges of a conversion done in chunks) */
static uint64_t word_structured(vh_rng_t * rng) {
    uint64_t v;
    if (vh_chance(rng, 1, 2)) v = ((uint64_t) round_word(rng) << 32) | (vh_chance(rng, 1, 2) ? round_word(rng) : (uint32_t) vh_rand(rng));
    else { uint64_t p = 1; int k = 1 + (int) vh_below(rng, 10); while (k--) p *= 10; v = (uint64_t) round_word(rng) * p + vh_rand(rng) % p; }
    return vh_chance(rng, 1, 4) ? (uint64_t) (0 - v) : v;
}
static uint64_t biased64(vh_rng_t * rng) {
    uint64_t r = vh_rand(rng);
    if (vh_below(rng, 6) == 0) return word_structured(rng);
    if (vh_below(rng, 5) == 0) return sparse_decimal(rng);
    if (vh_below(rng, 6) == 0) { /* round in decimal plus round in binary: d*10^e + c*2^k (remainders that are multiples of 2^32, 2^16, ...) */
        uint64_t p10 = 1, v; int e = (int) vh_below(rng, 20); while (e--) p10 *= 10;
        v = (1 + vh_below(rng, 18)) * p10 + ((uint64_t) (1 + vh_below(rng, 9)) << (8 * (1 + vh_below(rng, 7))));
        if (vh_chance(rng, 1, 4)) v += (uint64_t) (1 + vh_below(rng, 9)) << 32;
        return vh_chance(rng, 1, 4) ? (uint64_t) (0 - v) : v;
    }
    switch (vh_below(rng, 8)) {
        case 0: return r;
        case 1: return r >> vh_below(rng, 64);
        case 2: { uint64_t p = 1ULL << vh_below(rng, 64); return p + (uint64_t) ((int64_t) vh_below(rng, 5) - 2); }
        case 3: { uint64_t p = 1; int k = (int) vh_below(rng, 20); while (k--) p *= 10; return p + (uint64_t) ((int64_t) vh_below(rng, 5) - 2); }
        case 4: { uint64_t p = 1; int k = (int) vh_below(rng, 20); while (k--) p *= 10; return (uint64_t) (-(int64_t) p) + (uint64_t) ((int64_t) vh_below(rng, 5) - 2); }
        case 5: return 0x8000000000000000ULL + (uint64_t) ((int64_t) vh_below(rng, 5) - 2);
        case 6: return (uint64_t) ((int64_t) vh_below(rng, 2001) - 1000);
        default: return ~(r >> vh_below(rng, 64));
    }
}
/* phase 2: 64-bit */
static uint64_t p2_count(int thorough) {
#if VH_ASAN
    return vh_scaled(thorough ? 400000 : 40000);
#else
    return vh_scaled(thorough ? 20000000 : 300000);
#endif
}
static void p2_run(uint64_t idx, vh_rng_t * rng) {
    uint64_t v = biased64(rng); int b;
    if (idx < 4) v = (uint64_t[]) { 0x8000000000000000ULL, 0x7fffffffffffffffULL, 0xffffffffffffffffULL, 0 }[idx];
    vh_case_desc("64-bit value 0x%llx", (unsigned long long) v);
    int_case(K_I64, v, 10);
    for (b = 0; b < 4; b++) int_case(K_U64, v, bases4[b]);
    vh_count("int.wide64_values", 1);
    if ((int64_t) v < 0) vh_count("int.negative64", 1);
    if ((idx & 7) == 0) vh_distinct(vh_hash_u64(v, 64));
}

/* ---- text ---------------------------------------------------------------------------------------- */
static void text_case(const char * s, size_t m) {
    const char * t; size_t tl; size_t extra;
    static const size_t extras[] = { 1, 2, 17 };
    size_t k;
    for (k = 0; k < 3; k++) {
        extra = extras[k];
        S.kind = K_TEXT; S.data = s; S.len = m; S.reader = RD_COPYTEXT; S.buflen = m + extra;
        if (!roundtrip(&t, &tl)) return;
        if (R.n != m || memcmp(R.buf, s, m) != 0) {
            vh_violation(R.n < m ? "C07:text-shortened" : "C07:text-changed", "text \"%s\" (%zu chars) emitted as %s decoded with a %zu-byte buffer as \"%s\" (%zu chars)", vh_esc(s, m), m, vh_esc(t, tl), S.buflen, vh_esc(R.buf, R.n < S.buflen ? R.n : S.buflen), R.n);
            free(R.buf); R.buf = NULL; return;
        } else if (R.buf[m] != 0) vh_violation("C07:text-unterminated", "text \"%s\" decoded without terminating NUL", vh_esc(s, m));
        free(R.buf); R.buf = NULL;
    }
    vh_count("text.roundtrips", 1);
}
static const char text_alpha[9] = { 'a', '"', '\'', ' ', '\n', ';', ',', 0x7f, 0x01 };
static uint64_t p3_count(int thorough) { int L = thorough ? 6 : 4; uint64_t n = 0, p = 1; int i; for (i = 0; i <= L; i++) { n += p; p *= 9; } return (n + 80) / 81; }
static void p3_run(uint64_t idx, vh_rng_t * rng) {
    /* block idx covers strings number idx*81 .. idx*81+80 in length-lexicographic order */
    uint64_t first = idx * 81, k; int maxlen = vh_args.thorough ? 6 : 4;
    (void) rng;
    vh_case_desc("strings block %llu over {a \" ' SP LF ; , DEL SOH}", (unsigned long long) idx);
    for (k = first; k < first + 81; k++) {
        uint64_t r = k, p = 1; int L = 0, i; char s[8];
        while (L <= maxlen && r >= p) { r -= p; p *= 9; L++; }
        if (L > maxlen) break;
        for (i = L - 1; i >= 0; i--) { s[i] = text_alpha[r % 9]; r /= 9; }
        s[L] = 0; vh_sub = k;
        text_case(s, (size_t) L);
        if (L > 0) vh_distinct(vh_hash(s, (size_t) L, 3));
        if (memchr(s, '"', (size_t) L)) vh_count("text.with_double_quote", 1);
        if (memchr(s, '\n', (size_t) L)) vh_count("text.with_newline", 1);
    }
}
static uint64_t p4_count(int thorough) { return vh_scaled(thorough ? 200000 : 8000); }
static void p4_run(uint64_t idx, vh_rng_t * rng) {
    char s[260]; size_t m = 1 + vh_below(rng, idx % 7 == 0 ? 250 : 40), i;
    for (i = 0; i < m; i++) { uint32_t r = vh_below(rng, 12); s[i] = r == 0 ? '"' : r == 1 ? '\'' : (char) (1 + vh_below(rng, 127)); }
    if (idx % 13 == 0) memset(s, '"', m);
    s[m] = 0;
    vh_case_desc("random text %s", vh_esc(s, m));
    text_case(s, m);
    vh_distinct(vh_hash(s, m, 4));
    if (vh_want_sample()) vh_sample("text \"%s\" -> ResultText -> ParamCopyText equal", vh_esc(s, m));
}

/* ---- long texts, on the stack of a small task: an embedded application runs the parser in a task with a few KiB of stack. The library's
 * stack use must not grow with the data it formats (the text itself lives in the caller's memory and in the input buffer) ------------------- */
#include <pthread.h>
#include <sys/mman.h>
static struct { const char * s; size_t m; } p9_arg;
static void * p9_thread(void * a) { (void) a; text_case(p9_arg.s, p9_arg.m); return NULL; }
static const size_t p9_lens[] = { 1000, 5000, 20000, 48000, 100000 };
static uint64_t p9_count(int thorough) { return thorough ? 25 : 10; }
static void p9_run(uint64_t idx, vh_rng_t * rng) {
    size_t m = p9_lens[idx % 5], i; char * s = (char *) malloc(m + 1); pthread_t th; pthread_attr_t at; size_t stksz = 96 * 1024; void * stk;
    for (i = 0; i < m; i++) { uint32_t r = vh_below(rng, 16); s[i] = r == 0 ? '"' : r == 1 ? '\'' : (char) ('a' + vh_below(rng, 26)); }
    s[m] = 0;
    vh_case_desc("text of %zu characters formatted and read back on a 96 KiB task stack", m);
    if (V) { vh_ctx_free(V); V = NULL; }
    g_inbuf = 2 * m + 64; ctx_fresh(); /* the context and its buffers are created by the main task */
    stk = mmap(NULL, stksz + 4096, PROT_READ | PROT_WRITE, MAP_PRIVATE | MAP_ANONYMOUS, -1, 0);
    if (stk == MAP_FAILED) { free(s); return; }
    mprotect(stk, 4096, PROT_NONE); /* guard page below the stack: running over it is a fault, not silent corruption */
    pthread_attr_init(&at); pthread_attr_setstack(&at, (char *) stk + 4096, stksz);
    p9_arg.s = s; p9_arg.m = m;
    if (pthread_create(&th, &at, p9_thread, NULL) == 0) { pthread_join(th, NULL); vh_count("text.long_on_small_task_stack", 1); }
    pthread_attr_destroy(&at); munmap(stk, stksz + 4096);
    if (V) { vh_ctx_free(V); V = NULL; }
    g_inbuf = INBUF;
    free(s);
}

/* ---- blocks ---------------------------------------------------------------------------------------- */
static uint64_t p5_count(int thorough) { return thorough ? 1101 * 8 : 1101; }
static void p5_run(uint64_t idx, vh_rng_t * rng) {
    size_t n = (size_t) (idx % 1101), i; unsigned char * b = (unsigned char *) malloc(n ? n : 1);
    const char * t; size_t tl;
    for (i = 0; i < n; i++) b[i] = (unsigned char) vh_rand(rng);
    if (n > 4 && (idx & 1)) { b[0] = '\n'; b[1] = ';'; b[2] = '"'; b[n - 1] = '\n'; }
    vh_case_desc("block of %zu random bytes", n);
    S.kind = K_BLOCK; S.data = b; S.len = n; S.reader = RD_BLOCK;
    if (roundtrip(&t, &tl)) {
        if (R.n != n || (n && memcmp(R.buf, b, n) != 0)) vh_violation("C07:block-changed", "block of %zu bytes emitted with header \"%s\" decoded as %zu bytes%s", n, vh_esc(t, tl < 12 ? tl : 12), R.n, R.n == n ? " with different content" : "");
        free(R.buf); R.buf = NULL;
        vh_count("block.roundtrips", 1);
        if (n == 0) vh_count("block.empty", 1);
        if (n >= 1000) vh_count("block.len_ge_1000", 1);
    }
    vh_distinct(vh_hash(b, n, 5) ^ n);
    if (vh_want_sample()) vh_sample("block of %zu bytes -> \"%s...\" -> ParamArbitraryBlock equal", n, vh_esc(t ? t : "", t ? (tl < 10 ? tl : 10) : 0));
    free(b);
}

/* ---- floating point ------------------------------------------------------------------------------------ */
static long double unit_of(long double av, int p) {
    /* one unit of the p-th significant digit of av */
    int e; long double pw;
    if (av == 0) return 0;
    e = (int) floorl(log10l(av));
    pw = powl(10.0L, e);
    if (av < pw) { e--; pw = powl(10.0L, e); } else if (av >= pw * 10) { e++; pw = powl(10.0L, e); }
    return powl(10.0L, e - p + 1);
}
static void fp_case(double d, int is_float) {
    const char * t; size_t tl;
    if (is_float) { float f = (float) d; if (!isfinite(f)) return; d = f; S.kind = K_FLOAT; S.d = d; S.reader = RD_FLOAT; }
    else { if (!isfinite(d)) return; S.kind = K_DOUBLE; S.d = d; S.reader = RD_DOUBLE; }
    if (roundtrip(&t, &tl)) {
        long double got = is_float ? (long double) R.f : (long double) R.d, v = d;
        long double diff = fabsl(got - v), u = unit_of(fabsl(v), is_float ? 6 : 15);
        long double ulp = is_float ? (long double) (nextafterf((float) fabs(d), INFINITY) - (float) fabs(d)) : (long double) (nextafter(fabs(d), INFINITY) - fabs(d));
#if VH_LIB_DTOSTRE
        /* the built-in formatter only promises one unit of the last requested digit (C16) */
        long double tol = 1.0L * u * (1 + 1e-12L) + ulp;
#else
        long double tol = 0.5L * u * (1 + 1e-12L) + ulp;
#endif
        if (!is_float && isinf((double) got) && (got < 0) == (d < 0) && fabs(d) >= 0x1.fffffffffffe2p+1023 && tl >= 21 && memcmp(t + tl - 21, "1.79769313486232e+308", 21) == 0) {
            /* recorded finding: the largest doubles round UP to 1.79769313486232e+308 at 15 digits (as C16 demands), a literal beyond the
             * largest double, which the reader converts to infinity (the correctly rounded IEEE result for that literal) */
            vh_violation("C07:largest-doubles-read-back-as-infinity", "double %a emitted as \"%s\" decoded as %La", d, vh_esc(t, tl), got);
        } else
        if (!(diff <= tol)) {
            long double units = u > 0 ? diff / u : 0;
#if VH_LIB_DTOSTRE
            const char * key = (units <= 6.5L && !is_float) ? "C07:double-off-by-units-dtostre-accuracy" : (is_float ? "C07:float-outside-emitted-digits" : "C07:double-outside-emitted-digits");
#else
            const char * key = is_float ? "C07:float-outside-emitted-digits" : "C07:double-outside-emitted-digits";
#endif
            vh_violation(key, "%s %a emitted as \"%s\" decoded as %La: off by %.3Lf units of the last emitted digit", is_float ? "float" : "double", d, vh_esc(t, tl), got, units);
        }
        if ((d < 0) != (got < 0) && d != 0) vh_violation("C07:fp-sign", "%a -> \"%s\" -> %La", d, vh_esc(t, tl), got);
        vh_count(is_float ? "fp.float_roundtrips" : "fp.double_roundtrips", 1);
        if (fabs(d) > 0 && fabs(d) < 2.3e-308 && !is_float) vh_count("fp.subnormal_double", 1);
    }
}
static uint64_t p6_count(int thorough) {
#if VH_ASAN
    return vh_scaled(thorough ? 400000 : 30000);
#else
    return vh_scaled(thorough ? 20000000 : 400000);
#endif
}
static void p6_run(uint64_t idx, vh_rng_t * rng) {
    double d; uint64_t b;
    switch (idx % 7) {
        case 6: if (idx % 49 == 6) { uint64_t top = 0x7fefffffffffffffULL - vh_below(rng, 12); memcpy(&d, &top, 8); vh_count("fp.one_of_the_twelve_largest_doubles", 1); break; } /* the very top of the range */
                d = ldexp(1.0, (int) vh_below(rng, 2098) - 1074); if (vh_chance(rng, 1, 2)) d = nextafter(d, vh_chance(rng, 1, 2) ? 0 : INFINITY); vh_count("fp.power_of_two_or_neighbour", 1); break; /* images of integer type limits */
        case 0: b = vh_rand(rng); memcpy(&d, &b, 8); break;
        case 1: d = pow(10.0, (double) ((int) vh_below(rng, 617) - 308)); if (vh_chance(rng, 1, 2)) d = nextafter(d, vh_chance(rng, 1, 2) ? 0 : INFINITY); break;
        case 2: d = (double) (int64_t) (vh_rand(rng) >> vh_below(rng, 64)) / pow(10.0, vh_below(rng, 20)); break;
        case 3: { uint32_t fb = (uint32_t) vh_rand(rng); float f; memcpy(&f, &fb, 4); d = f; break; }
        case 4: b = vh_rand(rng) & 0x800fffffffffffffULL; memcpy(&d, &b, 8); break; /* subnormals */
        default: d = (double) ((int) vh_below(rng, 2000001) - 1000000) / 1000.0; break;
    }
    if (vh_chance(rng, 1, 2)) d = -d;
    vh_case_desc("floating point %a", d);
    fp_case(d, 0);
    fp_case(d, 1);
    if ((idx & 3) == 0) { uint64_t bits; memcpy(&bits, &d, 8); vh_distinct(vh_hash_u64(bits, 6)); }
    if (vh_want_sample() && isfinite(d)) { char t[40]; SCPI_DoubleToStr(d, t, sizeof t); vh_sample("double %a -> \"%s\" -> ParamDouble within half a unit of the 15th digit", d, t); }
}

#if VH_LIB_DTOSTRE
#define FPTOL 1.0L
#else
#define FPTOL 0.5L
#endif
/* ---- ASCII arrays ----------------------------------------------------------------------------------------- */
static uint64_t p7_count(int thorough) { return vh_scaled(thorough ? 300000 : 12000); }
static void array_case(uint64_t idx, vh_rng_t * rng, size_t n);
static void p7_run(uint64_t idx, vh_rng_t * rng) { array_case(idx, rng, 1 + vh_below(rng, 12)); }
/* one response with more items than a 16-bit counter holds (a waveform returned in ASCII); item count is not bounded by the property */
static const size_t long_n[] = { 32767, 32768, 32769, 40000, 65535, 65536, 65537, 70000 };
static uint64_t p8_count(int thorough) { return thorough ? 80 : 20; }
static void p8_run(uint64_t idx, vh_rng_t * rng) {
    size_t n = long_n[(idx * 3 + idx / 10) % 8];
    if (V) { vh_ctx_free(V); V = NULL; }
    g_inbuf = n * 26 + 64;
    array_case(idx, rng, n);
    if (V) { vh_ctx_free(V); V = NULL; }
    g_inbuf = INBUF;
    vh_count(n > 65536 ? "array.long.more_than_65536_items" : n > 32768 ? "array.long.more_than_32768_items" : "array.long.up_to_32768_items", 1);
}
static void array_case(uint64_t idx, vh_rng_t * rng, size_t n) {
    static const int kinds[] = { K_AI32, K_AU32, K_AI64, K_AU64, K_AF, K_AD, K_AI8, K_AU8, K_AI16, K_AU16 };
    int kind = kinds[idx % 10]; size_t i, esz, rsz; int rd;
    unsigned char * a; const char * t; size_t tl;
    switch (kind) { case K_AI8: case K_AU8: esz = 1; break; case K_AI16: case K_AU16: esz = 2; break; case K_AI32: case K_AU32: case K_AF: esz = 4; break; default: esz = 8; }
    a = (unsigned char *) malloc(n * esz);
    for (i = 0; i < n; i++) {
        uint64_t v = biased64(rng);
        if (kind == K_AF) { float f = (float) ((double) (int32_t) v / 1024.0); if (idx & 16) { uint32_t fb; do { fb = (uint32_t) vh_rand(rng); memcpy(&f, &fb, 4); } while (!isfinite(f)); vh_count("array.float_items_over_the_full_range", 1); } memcpy(a + i * 4, &f, 4); }
        else if (kind == K_AD) {
            double d = (double) (int64_t) (v >> 11) / 65536.0;
            /* full-range values: every item text length from 1 to the longest (-d.dddddddddddddde-ddd, 22 characters) at every position of the response */
            if (idx & 16) { uint64_t db; do { db = vh_rand(rng); if (vh_chance(rng, 1, 2)) db |= 0x8000000000000000ULL; memcpy(&d, &db, 8); } while (!isfinite(d)); vh_count("array.double_items_over_the_full_range", 1); }
            memcpy(a + i * 8, &d, 8);
        }
        else memcpy(a + i * esz, &v, esz);
    }
    switch (kind) { case K_AI8: case K_AI16: case K_AI32: rd = RD_AI32; rsz = 4; break; case K_AU8: case K_AU16: case K_AU32: rd = RD_AU32; rsz = 4; break;
                    case K_AI64: rd = RD_AI64; rsz = 8; break; case K_AU64: rd = RD_AU64; rsz = 8; break; case K_AF: rd = RD_AF; rsz = 4; break; default: rd = RD_AD; rsz = 8; }
    vh_case_desc("ASCII array kind %s of %zu elements", kind_names[kind], n);
    S.kind = kind; S.data = a; S.len = n; S.reader = rd; S.cap = n + (idx & 1);
    if (roundtrip(&t, &tl)) {
        if (R.cnt != n) vh_violation("C07:array-count", "%s of %zu elements emitted as \"%s\" decoded %zu elements", kind_names[kind], n, vh_esc(t, tl), R.cnt);
        else for (i = 0; i < n; i++) {
            int bad = 0;
            if (kind == K_AF) { float x, y; memcpy(&x, a + i * 4, 4); memcpy(&y, (char *) R.arr + i * 4, 4); /* half (dtostre: one) unit of the sixth digit plus the float's own spacing there (subnormals are coarser than 1.2e-7 relative) */
                bad = !(fabsl((long double) x - (long double) y) <= FPTOL * unit_of(fabsl(x), 6) * 1.000001L + (long double) (nextafterf(fabsf(x), INFINITY) - fabsf(x))); }
            else if (kind == K_AD) { double x, y; memcpy(&x, a + i * 8, 8); memcpy(&y, (char *) R.arr + i * 8, 8); bad = !(fabsl((long double) x - y) <= FPTOL * unit_of(fabsl(x), 15) * 1.000001L + (long double) (nextafter(fabs(x), INFINITY) - fabs(x)));
#if VH_LIB_DTOSTRE
                if (bad && fabsl((long double) x - y) <= 6.5L * unit_of(fabsl(x), 15)) { vh_violation("C07:double-off-by-units-dtostre-accuracy", "array element %a decoded as %a", x, y); bad = 0; }
#endif
            }
            else {
                int64_t want = 0, got = 0;
                switch (kind) { case K_AI8: want = ((int8_t *) a)[i]; break; case K_AU8: want = a[i]; break; case K_AI16: want = ((int16_t *) a)[i]; break; case K_AU16: want = ((uint16_t *) a)[i]; break;
                                case K_AI32: want = ((int32_t *) a)[i]; break; case K_AU32: want = ((uint32_t *) a)[i]; break; case K_AI64: want = ((int64_t *) a)[i]; break; default: want = (int64_t) ((uint64_t *) a)[i]; }
                if (rsz == 4) got = rd == RD_AI32 ? (int64_t) ((int32_t *) R.arr)[i] : (int64_t) ((uint32_t *) R.arr)[i]; else got = ((int64_t *) R.arr)[i];
                bad = want != got;
            }
            if (bad) { vh_violation("C07:array-element", "%s element %zu of \"%s\" decoded differently", kind_names[kind], i, vh_esc(t, tl)); break; }
        }
        free(R.arr); R.arr = NULL;
        vh_count("array.roundtrips", 1);
    }
    vh_distinct(vh_hash(a, n * esz, (uint64_t) kind));
    free(a);
}

int main(int argc, char ** argv) {
    static const vh_phase_t phases[] = {
        { "int8+16 exhaustive", p0_count, p0_run }, { "int32", p1_count, p1_run }, { "int64", p2_count, p2_run },
        { "strings exhaustive", p3_count, p3_run }, { "strings random", p4_count, p4_run }, { "blocks", p5_count, p5_run },
        { "floating point", p6_count, p6_run }, { "ascii arrays", p7_count, p7_run }, { "ascii arrays longer than 32767 items", p8_count, p8_run }, { "long texts on a small task stack", p9_count, p9_run },
    };
    int rc;
    vh_decoy_enable(7); vh_require("decoy.messages_run_on_a_second_context"); vh_require("int.roundtrips"); vh_require("emit.value_behind_another_item_of_the_same_response"); vh_require("text.roundtrips"); vh_require("text.with_double_quote"); vh_require("block.roundtrips");
    vh_require("block.empty"); vh_require("block.len_ge_1000"); vh_require("fp.double_roundtrips"); vh_require("fp.float_roundtrips"); vh_require("array.roundtrips");
    vh_require("int.negative64"); vh_require("text.long_on_small_task_stack"); vh_require("array.double_items_over_the_full_range"); vh_require("fp.power_of_two_or_neighbour"); vh_require("array.long.more_than_32768_items"); vh_require("array.long.more_than_65536_items");
    rc = vh_main(argc, argv, "C07", phases, 10);
    return rc;
}
