/* C11 - the status byte always equals the summary of the registers behind it.
 * C12 - events are classified, latched and announced as IEEE 488.2 / SCPI prescribe (-DCHECK_C12).
 *
 * One exploration, two sets of monitors.  The real library is driven through its API and through
 * SCPI_Input with a command table made of the library's own handlers; after every single operation
 * the monitors read all registers with SCPI_RegGet / SCPI_ErrorCount and compare with what the
 * property statement says.  Workloads:
 *   phase "sweep" (C12) every int16_t error code pushed on a context with ESR = 0 / ESR = prior / full queue.
 *   phase "bfs"   breadth-first search over the reachable states of a bounded operation alphabet
 *                 (a "slice": which representative bits each register may be given, which error
 *                 codes may be pushed, queue capacity 2).  state = registers[] + queue count;
 *                 snapshot/restore = byte copy of scpi_t and of the queue storage (text-less errors).
 *   phase "walk"  random walks over full 16-bit values, random queue capacity, random spelling.
 * The oracles use the literal bit numbers of the statement, not the library's tables. */
#include "vh_scpi.h"
#include <stdio.h>
#include <stdlib.h>
#include <string.h>

#ifdef CHECK_C12
#define PROP "C12"
#define MON11 0
#define MON12 1
#else
#define PROP "C11"
#define MON11 1
#define MON12 0
#endif

/* the standard-event bits as IEEE 488.2 11.5.1 numbers them; the header must agree */
#define B_OPC 0x01
#define B_RQC 0x02
#define B_QYE 0x04
#define B_DDE 0x08
#define B_EXE 0x10
#define B_CME 0x20
#define B_URQ 0x40
#define B_PON 0x80
_Static_assert(ESR_OPC == B_OPC && ESR_REQ == B_RQC && ESR_QER == B_QYE && ESR_DER == B_DDE && ESR_EER == B_EXE &&
               ESR_CER == B_CME && ESR_URQ == B_URQ && ESR_PON == B_PON, "ieee488.h disagrees with IEEE 488.2 on the ESR bit numbers");
_Static_assert(SCPI_REG_COUNT >= 10, "the ten standard registers come first; user registers (build flavour custreg) are exercised by the cascade phase only");

#define NREG 10
static const char * const regname[NREG] = { "STB", "SRE", "ESR", "ESE", "OPER", "OPERE", "OPERC", "QUES", "QUESE", "QUESC" };
static const char * rname(unsigned a) { static char t[4][16]; static int k; char * b = t[k++ & 3]; if (a < NREG) return regname[a]; snprintf(b, 16, "USER%u", a - NREG); return b; }
enum { G_ESR, G_OPER, G_QUES, NG };
static const int g_event[NG] = { SCPI_REG_ESR, SCPI_REG_OPER, SCPI_REG_QUES };
static const int g_enable[NG] = { SCPI_REG_ESE, SCPI_REG_OPERE, SCPI_REG_QUESE };
static const int g_cond[NG] = { -1, SCPI_REG_OPERC, SCPI_REG_QUESC };
static const uint16_t g_sum[NG] = { 0x20, 0x80, 0x08 }; /* statement: bit 5, bit 7, bit 3 */
static const char * const g_sumname[NG] = { "bit5(ESB)<=>ESR&ESE", "bit7<=>OPER&OPERE", "bit3<=>QUES&QUESE" };

static int is_event(int r) { return r == SCPI_REG_ESR || r == SCPI_REG_OPER || r == SCPI_REG_QUES; }
static int is_enable(int r) { return r == SCPI_REG_ESE || r == SCPI_REG_OPERE || r == SCPI_REG_QUESE; }
static int is_cond(int r) { return r == SCPI_REG_OPERC || r == SCPI_REG_QUESC; }

/* ---- command table: the library's own handlers ------------------------------------------------ */
static const scpi_command_t status_cmds[] = {
    { .pattern = "*CLS", .callback = SCPI_CoreCls, },
    { .pattern = "*ESE", .callback = SCPI_CoreEse, },
    { .pattern = "*ESE?", .callback = SCPI_CoreEseQ, },
    { .pattern = "*ESR?", .callback = SCPI_CoreEsrQ, },
    { .pattern = "*OPC", .callback = SCPI_CoreOpc, },
    { .pattern = "*SRE", .callback = SCPI_CoreSre, },
    { .pattern = "*SRE?", .callback = SCPI_CoreSreQ, },
    { .pattern = "*STB?", .callback = SCPI_CoreStbQ, },
    { .pattern = "SYSTem:ERRor[:NEXT]?", .callback = SCPI_SystemErrorNextQ, },
    { .pattern = "SYSTem:ERRor:COUNt?", .callback = SCPI_SystemErrorCountQ, },
    { .pattern = "STATus:OPERation[:EVENt]?", .callback = SCPI_StatusOperationEventQ, },
    { .pattern = "STATus:OPERation:CONDition?", .callback = SCPI_StatusOperationConditionQ, },
    { .pattern = "STATus:OPERation:ENABle", .callback = SCPI_StatusOperationEnable, },
    { .pattern = "STATus:OPERation:ENABle?", .callback = SCPI_StatusOperationEnableQ, },
    { .pattern = "STATus:QUEStionable[:EVENt]?", .callback = SCPI_StatusQuestionableEventQ, },
    { .pattern = "STATus:QUEStionable:CONDition?", .callback = SCPI_StatusQuestionableConditionQ, },
    { .pattern = "STATus:QUEStionable:ENABle", .callback = SCPI_StatusQuestionableEnable, },
    { .pattern = "STATus:QUEStionable:ENABle?", .callback = SCPI_StatusQuestionableEnableQ, },
    { .pattern = "STATus:PRESet", .callback = SCPI_StatusPreset, },
    SCPI_CMD_LIST_END
};

/* ---- operations ----------------------------------------------------------------------------- */
enum { OC_ENABLE_WRITE, OC_EVENT_WRITE, OC_COND_WRITE, OC_SRE_WRITE, OC_PUSH, OC_POP, OC_CLEAR, OC_CLS, OC_EVENT_QUERY,
       OC_PRESET, OC_QUERY, OC_OPC, OC__N };
static const char * const oc_name[OC__N] = { "enable-write", "event-write", "condition-write", "sre-write", "error-push",
    "error-pop", "error-clear", "cls", "event-query", "preset", "plain-query", "opc-command" };

enum { C_CLS, C_ESRQ, C_ESE, C_ESEQ, C_SRE, C_SREQ, C_STBQ, C_OPC, C_OPERQ, C_OPERCONDQ, C_OPERENAB, C_OPERENABQ,
       C_QUESQ, C_QUESCONDQ, C_QUESENAB, C_QUESENABQ, C_PRES, C_ERRQ, C_ERRCOUNTQ, C__N };
static const struct { const char * form[3]; int param, oc, reg; const char * cname; } cmdinfo[C__N] = {
    { { "*CLS", "*cls", "*Cls" }, 0, OC_CLS, -1, "op.cmd.CLS" },
    { { "*ESR?", "*esr?", "*Esr?" }, 0, OC_EVENT_QUERY, SCPI_REG_ESR, "op.cmd.ESRq" },
    { { "*ESE", "*ese", "*Ese" }, 1, OC_ENABLE_WRITE, SCPI_REG_ESE, "op.cmd.ESE" },
    { { "*ESE?", "*ese?", "*eSE?" }, 0, OC_QUERY, -1, "op.cmd.ESEq" },
    { { "*SRE", "*sre", "*Sre" }, 1, OC_SRE_WRITE, SCPI_REG_SRE, "op.cmd.SRE" },
    { { "*SRE?", "*sre?", "*sRE?" }, 0, OC_QUERY, -1, "op.cmd.SREq" },
    { { "*STB?", "*stb?", "*Stb?" }, 0, OC_QUERY, -1, "op.cmd.STBq" },
    { { "*OPC", "*opc", "*Opc" }, 0, OC_OPC, SCPI_REG_ESR, "op.cmd.OPC" },
    { { "STAT:OPER?", "STATus:OPERation:EVENt?", "stat:oper:even?" }, 0, OC_EVENT_QUERY, SCPI_REG_OPER, "op.cmd.STAT_OPERq" },
    { { "STAT:OPER:COND?", "STATus:OPERation:CONDition?", "status:operation:cond?" }, 0, OC_QUERY, -1, "op.cmd.STAT_OPER_CONDq" },
    { { "STAT:OPER:ENAB", "STATus:OPERation:ENABle", "stat:operation:enable" }, 1, OC_ENABLE_WRITE, SCPI_REG_OPERE, "op.cmd.STAT_OPER_ENAB" },
    { { "STAT:OPER:ENAB?", "STATus:OPERation:ENABle?", "stat:oper:enab?" }, 0, OC_QUERY, -1, "op.cmd.STAT_OPER_ENABq" },
    { { "STAT:QUES?", "STATus:QUEStionable:EVENt?", "stat:ques:even?" }, 0, OC_EVENT_QUERY, SCPI_REG_QUES, "op.cmd.STAT_QUESq" },
    { { "STAT:QUES:COND?", "STATus:QUEStionable:CONDition?", "status:questionable:cond?" }, 0, OC_QUERY, -1, "op.cmd.STAT_QUES_CONDq" },
    { { "STAT:QUES:ENAB", "STATus:QUEStionable:ENABle", "stat:questionable:enable" }, 1, OC_ENABLE_WRITE, SCPI_REG_QUESE, "op.cmd.STAT_QUES_ENAB" },
    { { "STAT:QUES:ENAB?", "STATus:QUEStionable:ENABle?", "stat:ques:enab?" }, 0, OC_QUERY, -1, "op.cmd.STAT_QUES_ENABq" },
    { { "STAT:PRES", "STATus:PRESet", "status:preset" }, 0, OC_PRESET, -1, "op.cmd.STAT_PRES" },
    { { "SYST:ERR?", "SYSTem:ERRor:NEXT?", "syst:err:next?" }, 0, OC_POP, -1, "op.cmd.SYST_ERRq" },
    { { "SYST:ERR:COUN?", "SYSTem:ERRor:COUNt?", "system:error:count?" }, 0, OC_QUERY, -1, "op.cmd.SYST_ERR_COUNq" },
};

enum { K_SET, K_SETBITS, K_CLRBITS, K_PUSH, K_POP, K_CLEAR, K_CMD, K__N };
static const char * const kind_counter[K__N] = { "op.SCPI_RegSet", "op.SCPI_RegSetBits", "op.SCPI_RegClearBits", "op.SCPI_ErrorPush",
    "op.SCPI_ErrorPop", "op.SCPI_ErrorClear", "op.command" };
typedef struct { uint8_t kind, a, form, pad; uint16_t val; int16_t code; } op_t; /* a: register name or command id */

static int op_class(const op_t * op) {
    switch (op->kind) {
        case K_SET: case K_SETBITS: case K_CLRBITS:
            if (is_enable(op->a)) return OC_ENABLE_WRITE;
            if (is_event(op->a)) return OC_EVENT_WRITE;
            if (is_cond(op->a)) return OC_COND_WRITE;
            return OC_SRE_WRITE;
        case K_PUSH: return OC_PUSH;
        case K_POP: return OC_POP;
        case K_CLEAR: return OC_CLEAR;
        default: return cmdinfo[op->a].oc;
    }
}

static void op_text(vh_buf_t * b, const op_t * op) {
    switch (op->kind) {
        case K_SET: vh_buf_printf(b, "SCPI_RegSet(%s,0x%04x)", rname(op->a), op->val); break;
        case K_SETBITS: vh_buf_printf(b, "SCPI_RegSetBits(%s,0x%04x)", rname(op->a), op->val); break;
        case K_CLRBITS: vh_buf_printf(b, "SCPI_RegClearBits(%s,0x%04x)", rname(op->a), op->val); break;
        case K_PUSH: vh_buf_printf(b, "SCPI_ErrorPush(%d)", (int) op->code); break;
        case K_POP: vh_buf_adds(b, "SCPI_ErrorPop()"); break;
        case K_CLEAR: vh_buf_adds(b, "SCPI_ErrorClear()"); break;
        default:
            if (cmdinfo[op->a].param) vh_buf_printf(b, "`%s %u`", cmdinfo[op->a].form[op->form], (unsigned) op->val);
            else vh_buf_printf(b, "`%s`", cmdinfo[op->a].form[op->form]);
    }
}

/* ---- observation ------------------------------------------------------------------------------ */
typedef struct { uint16_t r[NREG]; int32_t count; int32_t last; } obs_t; /* last: code of the most recently queued entry (0 if none) */
static void observe(scpi_t * c, obs_t * o) {
    int i;
    for (i = 0; i < NREG; i++) o->r[i] = SCPI_RegGet(c, (scpi_reg_name_t) i);
    o->count = SCPI_ErrorCount(c);
    o->last = 0;
    if (o->count > 0) { /* only used to learn which code the library queued when the queue was full */
        const scpi_fifo_t * f = &c->error_queue;
        o->last = f->data[(f->wr + f->size - 1) % f->size].error_code;
    }
}
static void obs_text(vh_buf_t * b, const obs_t * o) {
    int i;
    for (i = 0; i < NREG; i++) vh_buf_printf(b, "%s=0x%04x ", regname[i], o->r[i]);
    vh_buf_printf(b, "errors=%d", (int) o->count);
}

/* service-request announcements seen during the current operation, with the status byte read back
 * from the library at the moment of the call */
static struct { unsigned n; uint16_t val[16], live[16]; } srq;
static int g_srq_handler_acts, g_in_srq_handler; static int16_t g_handler_read[16]; static int g_handler_read_n, g_handler_acted;
static scpi_result_t my_control(scpi_t * context, scpi_ctrl_name_t ctrl, scpi_reg_val_t val) {
    if (ctrl == SCPI_CTRL_SRQ) {
        if (srq.n < 16) { srq.val[srq.n] = val; srq.live[srq.n] = SCPI_RegGet(context, SCPI_REG_STB); }
        srq.n++;
    }
#if MON11
    /* an application's service-request handler may service the request at once on the same context (clear the enable mask, read/clear
     * the event register, empty the error queue, *CLS): the summary equations must hold for the state all that leaves behind */
    if (g_srq_handler_acts && ctrl == SCPI_CTRL_SRQ && !g_in_srq_handler) {
        static unsigned act;
        g_in_srq_handler = 1;
        switch (act++ % 5) {
            case 0: SCPI_RegSet(context, SCPI_REG_SRE, 0); break;
            case 1: SCPI_RegSet(context, SCPI_REG_ESR, 0); break;
            case 2: SCPI_ErrorClear(context); break;
            case 3: SCPI_CoreCls(context); break;
            default: SCPI_RegClearBits(context, SCPI_REG_SRE, val); break;
        }
        g_in_srq_handler = 0;
        vh_count("c11.service_request_handler_cleared_status_on_the_same_context", 1);
    }
#endif
#if MON12
    /* C12: a service-request handler that SERVICES the request by reading the error queue (what a GPIB/USBTMC front end does on SRQ): every
     * entry it receives is an error that was queued, whatever the library still has to do in the operation that raised the request. It never
     * clears an event register, so the class bit of each entry it has read must be in ESR when the operation is over. */
    if (g_srq_handler_acts && ctrl == SCPI_CTRL_SRQ && !g_in_srq_handler) {
        static unsigned act12;
        g_in_srq_handler = 1;
        if (act12++ % 4 != 3) { scpi_error_t e; int guard = 0; while (SCPI_ErrorCount(context) > 0 && guard++ < 16) { SCPI_ErrorPop(context, &e); if (g_handler_read_n < 16) g_handler_read[g_handler_read_n] = e.error_code; g_handler_read_n++; } }
        else SCPI_RegClearBits(context, SCPI_REG_SRE, val);
        g_in_srq_handler = 0; g_handler_acted++;
        vh_count("c12.service_request_handler_read_the_error_queue_or_masked_the_request", 1);
    }
#endif
    /* the statement does not make the registers depend on what the application's callback answers: vary it */
    { static unsigned turn; static const scpi_result_t answers[4] = { SCPI_RES_OK, SCPI_RES_ERR, SCPI_RES_OK, (scpi_result_t) 0 }; return answers[turn++ & 3]; }
}

/* the error callback is optional for the application (the library tests it for NULL everywhere); nothing in the statement
 * depends on its presence, so part of the cases run without it */
static int g_no_error_cb;
static vh_ctx_t * new_ctx(int qcap) {
    vh_ctx_t * v = vh_ctx_new(status_cmds, 64, qcap, 0);
    v->iface.control = my_control;
    if (g_no_error_cb) { v->iface.error = NULL; vh_count("contexts.without_error_callback", 1); } else vh_count("contexts.with_error_callback", 1);
    v->log_enabled = 0;
    return v;
}

static void run_op(vh_ctx_t * v, const op_t * op) {
    scpi_t * c = v->ctx;
    srq.n = 0; g_handler_read_n = 0; g_handler_acted = 0;
    v->out.len = 0; v->nerrs = 0;
    switch (op->kind) {
        case K_SET: SCPI_RegSet(c, (scpi_reg_name_t) op->a, op->val); break;
        case K_SETBITS: SCPI_RegSetBits(c, (scpi_reg_name_t) op->a, op->val); break;
        case K_CLRBITS: SCPI_RegClearBits(c, (scpi_reg_name_t) op->a, op->val); break;
        case K_PUSH: SCPI_ErrorPush(c, op->code); break;
        case K_POP: { scpi_error_t e; SCPI_ErrorPop(c, &e); break; } /* errors are pushed without text: nothing to release */
        case K_CLEAR: SCPI_ErrorClear(c); break;
        default: {
            char line[96]; int n;
            if (cmdinfo[op->a].param) n = snprintf(line, sizeof line, "%s %u\n", cmdinfo[op->a].form[op->form], (unsigned) op->val);
            else n = snprintf(line, sizeof line, "%s\n", cmdinfo[op->a].form[op->form]);
            vh_input(v, line, (size_t) n);
        }
    }
}

/* every command of the alphabet is well formed: the parser must not have queued anything for it
 * (the error callback is also invoked with 0 when the queue drains; that is not an error) */
static void check_cmd_accepted(vh_ctx_t * v, const op_t * op) {
    int i;
    for (i = 0; i < v->nerrs; i++) if (v->errs[i] != 0) {
        vh_buf_t t = { 0 }; op_text(&t, op);
        vh_violation(PROP ":harness-command-raised-error", "%s made the library report error %d", vh_buf_cstr(&t), (int) v->errs[i]);
        vh_buf_free(&t);
        return;
    }
}

/* ---- local counters (flushed into vh_count once per case) ------------------------------------- */
#define CTRS(X) \
    X(N_BFS_SLICES, "bfs.slices_completed") X(N_BFS_STATES, "bfs.states") X(N_BFS_TRANS, "bfs.transitions") \
    X(N_BFS_PRUNED, "bfs.incoherent_states_not_expanded") X(N_WALKS, "walk.walks") X(N_WALK_STEPS, "walk.steps") \
    X(N_INV, "c11.invariant_evaluations") X(N_ESB, "c11.after_states_with_bit5_set") X(N_OPS, "c11.after_states_with_bit7_set") \
    X(N_QES, "c11.after_states_with_bit3_set") X(N_QMA, "c11.after_states_with_bit2_set") X(N_MSS, "c11.after_states_with_mss_set") \
    X(N_MSS_CHG, "c11.operations_changing_mss") X(N_SUM_CHG, "c11.operations_changing_a_summary_bit") \
    X(N_INHERIT, "c11.operations_from_already_incoherent_state") \
    X(N_LATCH_W, "c12.latch.condition_writes") X(N_LATCH_RISE, "c12.latch.condition_writes_with_rising_bits") \
    X(N_LOSS_OK, "c12.hold.event_bits_cleared_by_listed_operation") X(N_HOLD, "c12.hold.operations_checked") \
    X(N_CLEAR_CHK, "c12.clear.query_or_cls_checked") X(N_PRES_CLEARS, "c12.clear.preset_cleared_ques") \
    X(N_CLASS, "c12.class.pushes_checked") X(N_CLASS_HANDLER, "c12.class.entries_read_by_the_service_request_handler_checked") X(N_CLASS_OVF, "c12.class.pushes_on_full_queue_checked") \
    X(N_CLASS_OVF_REPLACED, "c12.class.pushes_on_full_queue_replaced_by_another_code") \
    X(N_SRQ_EV, "c12.srq.callbacks") X(N_SRQ_RISE, "c12.srq.mss_rises") X(N_SRQ_REPEAT, "c12.srq.callbacks_while_mss_stays_set") \
    X(N_SRQ_QUIET, "c12.srq.operations_with_mss_clear_before_and_after") X(N_SRQ_FALL_EV, "c12.srq.callbacks_in_operations_ending_with_mss_clear") \
    X(N_SRQ_INTERMEDIATE, "c12.srq.callback_value_is_an_intermediate_status_byte") \
    X(N_SWEEP, "c12.sweep.codes") X(N_SWEEP_PRIOR, "c12.sweep.codes_with_prior_esr") X(N_SWEEP_FULL, "c12.sweep.codes_on_full_queue")
#define X(id, name) id,
enum { CTRS(X) N__CTR };
#undef X
#define X(id, name) name,
static const char * const ctr_name[N__CTR] = { CTRS(X) };
#undef X
static uint64_t ctr[N__CTR], kindn[K__N], cmdn[C__N];
static void flush_counters(void) {
    int i;
    for (i = 0; i < N__CTR; i++) if (ctr[i]) { vh_count(ctr_name[i], ctr[i]); ctr[i] = 0; }
    for (i = 0; i < K__N; i++) if (kindn[i]) { vh_count(kind_counter[i], kindn[i]); kindn[i] = 0; }
    for (i = 0; i < C__N; i++) if (cmdn[i]) { vh_count(cmdinfo[i].cname, cmdn[i]); cmdn[i] = 0; }
}

/* ---- the oracles ------------------------------------------------------------------------------ */
/* C11: which clauses of the statement are false in this state (bit k = clause k) */
enum { CL_ESB = 1, CL_OPS = 2, CL_QES = 4, CL_QMA = 8, CL_MSS = 16 };
static unsigned incoherent(const obs_t * o) {
    uint16_t stb = o->r[SCPI_REG_STB];
    unsigned bad = 0; int g;
    for (g = 0; g < NG; g++)
        if (((stb & g_sum[g]) != 0) != ((o->r[g_event[g]] & o->r[g_enable[g]]) != 0)) bad |= 1u << g;
    if (((stb & 0x04) != 0) != (o->count > 0)) bad |= CL_QMA;
    /* bit 6 iff some OTHER status-byte bit is set that is also set in SRE */
    if (((stb & 0x40) != 0) != (((stb & ~0x40) & o->r[SCPI_REG_SRE]) != 0)) bad |= CL_MSS;
    return bad;
}

/* C12: class bit from the statement's table - by hundreds, not by a range table */
static uint16_t ref_class(int code, const char ** name) {
    int h;
    if (code > 0) { *name = "positive"; return B_DDE; }
    h = (-code) / 100;
    switch (h) {
        case 1: *name = "command"; return B_CME;
        case 2: *name = "execution"; return B_EXE;
        case 3: *name = "device-specific"; return B_DDE;
        case 4: *name = "query"; return B_QYE;
        case 5: *name = "power-on"; return B_PON;
        case 6: *name = "user-request"; return B_URQ;
        case 7: *name = "request-control"; return B_RQC;
        case 8: *name = "operation-complete"; return B_OPC;
        default: *name = "unclassified"; return 0;
    }
}

typedef struct { char key[96]; char msg[480]; } finding_t;
static finding_t found[12]; static int nfound;
static void find(const char * key, const char * fmt, ...) __attribute__((format(printf, 2, 3)));
static void find(const char * key, const char * fmt, ...) {
    va_list ap; int i;
    for (i = 0; i < nfound; i++) if (!strcmp(found[i].key, key)) return;
    if (nfound >= 12) return;
    snprintf(found[nfound].key, sizeof found[nfound].key, "%s", key);
    va_start(ap, fmt); vsnprintf(found[nfound].msg, sizeof found[nfound].msg, fmt, ap); va_end(ap);
    nfound++;
}

static int loss_permitted(const op_t * op, int evreg) {
    if (op->kind == K_SET || op->kind == K_SETBITS || op->kind == K_CLRBITS) return op->a == evreg; /* explicit write of that register */
    if (op->kind != K_CMD) return 0;
    switch (op->a) {
        case C_CLS: return 1;
        case C_ESRQ: return evreg == SCPI_REG_ESR;
        case C_OPERQ: return evreg == SCPI_REG_OPER;
        case C_QUESQ: return evreg == SCPI_REG_QUES;
        case C_PRES: return evreg == SCPI_REG_QUES;
        default: return 0;
    }
}

/* all monitors for one executed operation; qcap = capacity of the error queue */
static void monitors(const op_t * op, const obs_t * b, const obs_t * a, int qcap) {
    int oc = op_class(op), g;
    char key[96];
    nfound = 0;
    kindn[op->kind]++;
    if (op->kind == K_CMD) cmdn[op->a]++;

    if (MON11) {
        unsigned bad_b = incoherent(b), bad_a = incoherent(a), fresh = bad_a & ~bad_b;
        uint16_t stb = a->r[SCPI_REG_STB];
        ctr[N_INV]++;
        if (stb & 0x20) ctr[N_ESB]++;
        if (stb & 0x80) ctr[N_OPS]++;
        if (stb & 0x08) ctr[N_QES]++;
        if (stb & 0x04) ctr[N_QMA]++;
        if (stb & 0x40) ctr[N_MSS]++;
        if ((stb ^ b->r[SCPI_REG_STB]) & 0x40) ctr[N_MSS_CHG]++;
        if ((stb ^ b->r[SCPI_REG_STB]) & 0xA8) ctr[N_SUM_CHG]++;
        if (bad_b) ctr[N_INHERIT]++;
        for (g = 0; g < NG; g++) if (fresh & (1u << g)) {
            if (oc == OC_ENABLE_WRITE) snprintf(key, sizeof key, "C11:summary-stale-after-enable-write");
            else snprintf(key, sizeof key, "C11:summary-wrong-after-%s", oc_name[oc]);
            find(key, "status byte 0x%04x has %s %s although %s=0x%04x & %s=0x%04x is %s (clause %s)", stb, g_sumname[g],
                 (stb & g_sum[g]) ? "set" : "clear", regname[g_event[g]], a->r[g_event[g]], regname[g_enable[g]], a->r[g_enable[g]],
                 (a->r[g_event[g]] & a->r[g_enable[g]]) ? "non-zero" : "zero", g_sumname[g]);
        }
        if (fresh & CL_QMA) {
            snprintf(key, sizeof key, "C11:error-available-wrong-after-%s", oc_name[oc]);
            find(key, "status byte 0x%04x has bit 2 %s although the error queue holds %d entries", stb, (stb & 0x04) ? "set" : "clear", (int) a->count);
        }
        if (fresh & CL_MSS) {
            snprintf(key, sizeof key, "C11:mss-wrong-after-%s", oc_name[oc]);
            find(key, "status byte 0x%04x has bit 6 %s although (STB & ~0x40) & SRE = 0x%04x & 0x%04x is %s", stb, (stb & 0x40) ? "set" : "clear",
                 (unsigned) (stb & ~0x40) & 0xffff, a->r[SCPI_REG_SRE], ((stb & ~0x40) & a->r[SCPI_REG_SRE]) ? "non-zero" : "zero");
        }
    }

    if (MON12 && g_handler_acted) {
        /* the application's handler read the queue or masked the request inside this operation: the before/after rules below assume that only
         * the library moved the state. What stays decidable for a push: the NEWEST entry - the last one in the queue, or the last one the
         * handler received if it emptied the queue - was queued by this very operation (older entries may have had their bit read and cleared
         * since); its class bit must be in ESR when the operation is over (nothing inside a push clears an event bit). */
        if (op->kind == K_PUSH && (a->count > 0 || g_handler_read_n > 0)) {
            int newest = a->count > 0 ? a->last : g_handler_read[(g_handler_read_n < 16 ? g_handler_read_n : 16) - 1];
            const char * cls; uint16_t bit = ref_class(newest, &cls), ea = a->r[SCPI_REG_ESR];
            ctr[N_CLASS_HANDLER]++;
            if ((ea & bit) != bit) find("C12:error-queued-while-the-service-request-handler-read-the-queue-not-classified", "push of %d on a queue holding %d of %d: the newest entry %d (%s class) %s, ESR is 0x%04x afterwards: class bit 0x%02x not set",
                                        (int) op->code, b->count, qcap, newest, cls, a->count > 0 ? "is in the queue" : "was read from the queue by the service-request handler during the push", ea, bit);
        }
    } else
    if (MON12) {
        /* (1) classification of a queued error */
        if (op->kind == K_PUSH) {
            const char * cls; uint16_t bit = ref_class(op->code, &cls);
            uint16_t eb = b->r[SCPI_REG_ESR], ea = a->r[SCPI_REG_ESR];
            if (b->count < qcap) {
                ctr[N_CLASS]++;
                if ((ea & bit) != bit) {
                    if (op->code > 0) snprintf(key, sizeof key, "C12:positive-code-not-device-specific");
                    else snprintf(key, sizeof key, "C12:class-bit-missing-%s", cls);
                    find(key, "error %d (%s class) queued, ESR went 0x%04x -> 0x%04x, class bit 0x%02x not set", (int) op->code, cls, eb, ea, bit);
                }
                if (ea & ~(eb | bit)) {
                    snprintf(key, sizeof key, "C12:class-bit-unexpected-%s", cls);
                    find(key, "error %d (%s class, bit 0x%02x) queued, ESR went 0x%04x -> 0x%04x: bits 0x%04x are not of its class", (int) op->code, cls, bit, eb, ea,
                         (unsigned) (ea & ~(eb | bit)) & 0xffff);
                }
            } else {
                /* queue full: the code itself is not queued, the library queues another one in its place (-350, queue
                 * overflow).  What the discarded code may set is not stated; the error that WAS queued must set its bit. */
                const char * qcls; uint16_t qbit = ref_class(a->last, &qcls);
                ctr[N_CLASS_OVF]++;
                if (a->last != op->code) ctr[N_CLASS_OVF_REPLACED]++;
                if ((ea & qbit) != qbit)
                    find("C12:queue-overflow-error-not-classified", "error %d pushed on a full queue, the library queued %d (%s class) in its place, ESR went 0x%04x -> 0x%04x, class bit 0x%02x of the queued error not set",
                         (int) op->code, (int) a->last, qcls, eb, ea, qbit);
            }
        }
        /* (2a) latch: a 0->1 change of a condition bit sets the same event bit; what was set stays set. The change is the one the application
         * REPORTED through the API (SCPI_RegSet / SetBits / ClearBits of the condition register): a write that is dropped - the register does not
         * read back what was written - has lost the transition before it could be latched */
        if (oc == OC_COND_WRITE) {
            for (g = 1; g < NG; g++) if (op->a == g_cond[g]) {
                uint16_t before = b->r[g_cond[g]], asked = op->kind == K_SET ? op->val : op->kind == K_SETBITS ? (uint16_t) (before | op->val) : op->kind == K_CLRBITS ? (uint16_t) (before & ~op->val) : a->r[g_cond[g]];
                if ((a->r[g_cond[g]] ^ asked) & 0x7fff) /* bit 15 of a SCPI status register is 'not used, always zero' (SCPI-99 20.1): a library may mask it */
                    find("C12:condition-write-lost", "%s(%s, 0x%04x) with the register at 0x%04x: it reads 0x%04x afterwards, 0x%04x was asked for (rising bits 0x%04x never reached the event register)", op->kind == K_SET ? "SCPI_RegSet" : op->kind == K_SETBITS ? "SCPI_RegSetBits" : "SCPI_RegClearBits",
                         regname[g_cond[g]], op->val, before, a->r[g_cond[g]], asked, (unsigned) (asked & ~before) & 0xffff);
            }
            for (g = 1; g < NG; g++) if (op->a == g_cond[g]) {
                uint16_t rise = a->r[g_cond[g]] & ~b->r[g_cond[g]];
                uint16_t need = b->r[g_event[g]] | rise;
                ctr[N_LATCH_W]++;
                if (rise) ctr[N_LATCH_RISE]++;
                if ((a->r[g_event[g]] & need) != need) {
                    if ((a->r[g_event[g]] & rise) != rise)
                        find("C12:condition-rise-not-latched", "%s went 0x%04x -> 0x%04x (rising 0x%04x) but %s went 0x%04x -> 0x%04x", regname[g_cond[g]],
                             b->r[g_cond[g]], a->r[g_cond[g]], rise, regname[g_event[g]], b->r[g_event[g]], a->r[g_event[g]]);
                    else
                        find("C12:condition-write-drops-latched-event", "%s went 0x%04x -> 0x%04x and %s lost bits: 0x%04x -> 0x%04x", regname[g_cond[g]],
                             b->r[g_cond[g]], a->r[g_cond[g]], regname[g_event[g]], b->r[g_event[g]], a->r[g_event[g]]);
                }
            }
        }
        /* (2b) event bits stay set except in the operations the statement lists */
        ctr[N_HOLD]++;
        for (g = 0; g < NG; g++) {
            uint16_t lost = b->r[g_event[g]] & ~a->r[g_event[g]];
            if (!lost) continue;
            if (loss_permitted(op, g_event[g])) { ctr[N_LOSS_OK]++; continue; }
            if (oc == OC_COND_WRITE && nfound) continue; /* already reported above with the better key */
            snprintf(key, sizeof key, "C12:event-bits-cleared-by-%s", oc_name[oc]);
            find(key, "%s lost bits 0x%04x (0x%04x -> 0x%04x) in an operation that is not its query, *CLS, STAT:PRES (QUES) or a write of it", regname[g_event[g]],
                 lost, b->r[g_event[g]], a->r[g_event[g]]);
        }
        /* (2c) the register's own query and *CLS are defined to clear */
        if (op->kind == K_CMD && (oc == OC_EVENT_QUERY || oc == OC_CLS)) {
            ctr[N_CLEAR_CHK]++;
            for (g = 0; g < NG; g++) {
                if (oc == OC_EVENT_QUERY && cmdinfo[op->a].reg != g_event[g]) continue;
                if (a->r[g_event[g]] != 0)
                    find(oc == OC_CLS ? "C12:cls-leaves-event-bits" : "C12:event-query-leaves-event-bits", "%s is 0x%04x after the operation (was 0x%04x)",
                         regname[g_event[g]], a->r[g_event[g]], b->r[g_event[g]]);
            }
        }
        if (op->kind == K_CMD && op->a == C_PRES && b->r[SCPI_REG_QUES] && !a->r[SCPI_REG_QUES]) ctr[N_PRES_CLEARS]++;
        /* (3) service request announcements */
        {
            int mss_b = (b->r[SCPI_REG_STB] & 0x40) != 0, mss_a = (a->r[SCPI_REG_STB] & 0x40) != 0;
            unsigned i, n = srq.n < 16 ? srq.n : 16;
            ctr[N_SRQ_EV] += srq.n;
            if (!mss_b && mss_a) {
                ctr[N_SRQ_RISE]++;
                if (srq.n == 0) {
                    snprintf(key, sizeof key, "C12:mss-rise-not-announced-on-%s", oc_name[oc]);
                    find(key, "MSS rose (STB 0x%04x -> 0x%04x) and the control callback was not invoked with SCPI_CTRL_SRQ", b->r[SCPI_REG_STB], a->r[SCPI_REG_STB]);
                }
            }
            if (mss_b && mss_a && srq.n) ctr[N_SRQ_REPEAT]++;
            if (!mss_a && mss_b && srq.n) ctr[N_SRQ_FALL_EV]++;
            for (i = 0; i < n; i++) {
                if (!(srq.val[i] & 0x40))
                    find("C12:srq-value-without-mss", "control(SCPI_CTRL_SRQ, 0x%04x): bit 6 clear in the announced value (status byte at that moment 0x%04x, after the operation 0x%04x)",
                         srq.val[i], srq.live[i], a->r[SCPI_REG_STB]);
                else if (srq.val[i] != srq.live[i] && srq.val[i] != a->r[SCPI_REG_STB])
                    find("C12:srq-value-not-current-status-byte", "control(SCPI_CTRL_SRQ, 0x%04x) while the status byte read 0x%04x at that moment and 0x%04x after the operation",
                         srq.val[i], srq.live[i], a->r[SCPI_REG_STB]);
                else if (srq.val[i] != a->r[SCPI_REG_STB]) ctr[N_SRQ_INTERMEDIATE]++;
            }
            /* every operation of the alphabet moves the status byte in one direction only, so MSS clear
             * before and after means MSS was clear throughout */
            if (!mss_b && !mss_a) {
                ctr[N_SRQ_QUIET]++;
                if (srq.n) {
                    snprintf(key, sizeof key, "C12:srq-callback-while-mss-clear");
                    find(key, "control(SCPI_CTRL_SRQ, 0x%04x) invoked %u time(s) although MSS is clear before (STB 0x%04x) and after (STB 0x%04x)", srq.val[0], srq.n,
                         b->r[SCPI_REG_STB], a->r[SCPI_REG_STB]);
                }
            }
        }
    }
}

/* keys already reported by this process: later witnesses only count */
static char seen_keys[64][96]; static int nseen;
static int key_seen(const char * key) {
    int i;
    for (i = 0; i < nseen; i++) if (!strcmp(seen_keys[i], key)) return 1;
    if (nseen < 64) snprintf(seen_keys[nseen++], 96, "%s", key);
    return 0;
}

/* ---- slices of the bounded state space -------------------------------------------------------- */
typedef struct {
    char name[96];
    uint16_t mask[NREG]; /* bits each register may be given (0 = register not written) */
    int ncodes; int16_t codes[8];
    int qcap;
    int big;
} slice_t;
#define MAX_SLICES 64
static slice_t slices[MAX_SLICES]; static int nslices = -1;

static void add_slice(const char * name, uint16_t sre, uint16_t esr, uint16_t oper, uint16_t ques, int16_t none_code, int big) {
    slice_t * s;
    static const struct { uint16_t bit; int16_t code; } rep[] = { { B_CME, -113 }, { B_EXE, -222 }, { B_DDE, -310 }, { B_DDE, 5 }, { B_QYE, -410 },
        { B_PON, -500 }, { B_URQ, -600 }, { B_RQC, -700 }, { B_OPC, -800 } };
    size_t i;
    if (nslices >= MAX_SLICES) abort();
    s = &slices[nslices++];
    memset(s, 0, sizeof *s);
    snprintf(s->name, sizeof s->name, "%s[SRE&0x%04x ESR/ESE&0x%04x OPER*&0x%04x QUES*&0x%04x]", name, sre, esr, oper, ques);
    s->mask[SCPI_REG_SRE] = sre;
    s->mask[SCPI_REG_ESR] = s->mask[SCPI_REG_ESE] = esr;
    s->mask[SCPI_REG_OPER] = s->mask[SCPI_REG_OPERE] = s->mask[SCPI_REG_OPERC] = oper;
    s->mask[SCPI_REG_QUES] = s->mask[SCPI_REG_QUESE] = s->mask[SCPI_REG_QUESC] = ques;
    /* error codes whose class bit lies inside the ESR alphabet keep the slice closed; plus one code of no class */
    for (i = 0; i < sizeof rep / sizeof rep[0]; i++) if ((esr & rep[i].bit) && s->ncodes < 7) s->codes[s->ncodes++] = rep[i].code;
    s->codes[s->ncodes++] = none_code;
    s->qcap = 2;
    s->big = big;
}

static void build_slices(int thorough) {
    if (nslices >= 0) return;
    nslices = 0;
#if !VH_ASAN
    if (thorough) {
        /* cross product of all groups with two of the three representative bits (16 slices, one per shard) */
        static const uint16_t pair[3] = { 0x0240, 0x0041, 0x0201 };
        static const uint16_t srep[5] = { 0x24, 0xC0, 0x28, 0x44, 0x88 };
        int p, q;
        for (p = 0; p < 3; p++) for (q = 0; q < 5; q++) add_slice("cross2", srep[q], pair[p], pair[p], pair[p], (int16_t) (q & 1 ? -1000 : -50), 1);
        add_slice("cross2", 0x24, 0x0028, 0x0240, 0x0041, -50, 1);
    }
#else
    (void) thorough;
#endif
    /* each register group alone with all three representative bits x SRE x queue */
    add_slice("group3-esr", 0x64, 0x0241, 0, 0, -50, 0);
    add_slice("group3-esr", 0x64, 0x0038, 0, 0, -1000, 0);
    add_slice("group3-esr", 0x64, 0x0086, 0, 0, -50, 0);
    add_slice("group3-oper", 0xC4, 0, 0x0241, 0, -50, 0);
    add_slice("group3-ques", 0x4C, 0, 0, 0x0241, -1000, 0);
    /* all groups together, one bit each, SRE with every status-byte bit the library drives plus its own bit 6 */
    add_slice("cross1", 0xEC, 0x0040, 0x0040, 0x0040, -50, 0);
    add_slice("cross1", 0xEC, 0x0200, 0x0200, 0x0200, -1000, 0);
    add_slice("cross1", 0xEC, 0x0001, 0x0001, 0x0001, -50, 0);
    add_slice("cross1", 0xEC, 0x0008, 0x0200, 0x0001, -50, 0);
    add_slice("cross1", 0xEC, 0x0004, 0x0001, 0x0040, -1000, 0);
    add_slice("cross1", 0xEC, 0x0020, 0x0040, 0x0200, -50, 0);
    add_slice("cross1", 0xEC, 0x0010, 0x0001, 0x0200, 0, 0);
    add_slice("cross1", 0xEC, 0x0080, 0x0200, 0x0040, -50, 0);
    add_slice("cross1", 0xEC, 0x0002, 0x0040, 0x0001, -1000, 0);
    /* SRE with bits the status byte never carries (bit 0, a bit above 8) next to one live bit and bit 6 */
    add_slice("cross1-idle-sre", 0x0261, 0x0040, 0x0200, 0x0001, -50, 0);
    add_slice("cross1-idle-sre", 0x02C1, 0x0200, 0x0040, 0x0040, -50, 0);
}

#define MAX_OPS 1024
static op_t ops[MAX_OPS]; static int nops;
static void add_op(int kind, int a, unsigned val, int code) {
    if (nops >= MAX_OPS) abort();
    ops[nops].kind = (uint8_t) kind; ops[nops].a = (uint8_t) a; ops[nops].val = (uint16_t) val; ops[nops].code = (int16_t) code;
    ops[nops].form = (uint8_t) (nops % 3); ops[nops].pad = 0;
    nops++;
}
static void build_ops(const slice_t * s) {
    int r, i, c;
    nops = 0;
    for (r = SCPI_REG_SRE; r < NREG; r++) {
        uint16_t m = s->mask[r], sub = 0;
        if (!m) continue;
        do { /* every subset of the mask */
            add_op(K_SET, r, sub, 0);
            if (sub) { add_op(K_SETBITS, r, sub, 0); add_op(K_CLRBITS, r, sub, 0); }
            sub = (uint16_t) ((sub - m) & m);
        } while (sub);
    }
    for (i = 0; i < s->ncodes; i++) add_op(K_PUSH, 0, 0, s->codes[i]);
    add_op(K_POP, 0, 0, 0);
    add_op(K_CLEAR, 0, 0, 0);
    for (c = 0; c < C__N; c++) {
        if (c == C_OPC && !(s->mask[SCPI_REG_ESR] & B_OPC)) continue; /* would leave the slice */
        if (cmdinfo[c].param) {
            uint16_t m = s->mask[cmdinfo[c].reg], sub = 0;
            if (!m) continue;
            do { add_op(K_CMD, c, sub, 0); sub = (uint16_t) ((sub - m) & m); } while (sub);
        } else add_op(K_CMD, c, 0, 0);
    }
}

/* ---- BFS ------------------------------------------------------------------------------------- */
typedef struct { uint16_t r[NREG]; int16_t count; } skey_t; /* 22 bytes, no padding */
typedef struct { skey_t key; uint16_t flags; uint32_t parent; uint16_t op; uint16_t depth; } node_t;
#define NF_PRUNED 1
static node_t * nodes; static unsigned char * snaps; static size_t nnodes, capnodes, snapsz;
static uint32_t * htab; static size_t hcap;

static uint64_t key_hash(const skey_t * k) { return vh_hash(k, sizeof *k, VH_HASH_INIT) * 0x9e3779b97f4a7c15ULL; }
static void htab_insert_raw(uint32_t idx) {
    size_t j = (size_t) (key_hash(&nodes[idx].key) >> 24) & (hcap - 1);
    while (htab[j]) j = (j + 1) & (hcap - 1);
    htab[j] = idx + 1;
}
static void htab_grow(void) {
    size_t i;
    hcap = hcap ? hcap * 2 : 1 << 16;
    free(htab);
    htab = (uint32_t *) calloc(hcap, sizeof(uint32_t));
    if (!htab) { fprintf(stderr, "bfs: out of memory\n"); abort(); }
    for (i = 0; i < nnodes; i++) htab_insert_raw((uint32_t) i);
}
/* returns index of the state, *isnew set when it was added */
static uint32_t state_intern(const skey_t * k, int * isnew) {
    size_t j;
    if (!hcap || nnodes * 2 >= hcap) htab_grow();
    j = (size_t) (key_hash(k) >> 24) & (hcap - 1);
    while (htab[j]) {
        if (memcmp(&nodes[htab[j] - 1].key, k, sizeof *k) == 0) { *isnew = 0; return htab[j] - 1; }
        j = (j + 1) & (hcap - 1);
    }
    if (nnodes >= capnodes) {
        capnodes = capnodes ? capnodes * 2 : 1 << 14;
        if (capnodes > (size_t) 4 << 20) { fprintf(stderr, "bfs: state space larger than planned (%zu states)\n", nnodes); abort(); }
        nodes = (node_t *) realloc(nodes, capnodes * sizeof(node_t));
        snaps = (unsigned char *) realloc(snaps, capnodes * snapsz);
        if (!nodes || !snaps) { fprintf(stderr, "bfs: out of memory\n"); abort(); }
    }
    memset(&nodes[nnodes], 0, sizeof(node_t));
    nodes[nnodes].key = *k;
    htab[j] = (uint32_t) nnodes + 1;
    *isnew = 1;
    return (uint32_t) nnodes++;
}
static void key_of(const obs_t * o, skey_t * k) { memcpy(k->r, o->r, sizeof k->r); k->count = (int16_t) o->count; }

static void bfs_history(vh_buf_t * b, uint32_t node) {
    uint32_t stack[64]; int n = 0;
    while (node != 0 && n < 64) { stack[n++] = node; node = nodes[node].parent; }
    vh_buf_adds(b, "history from a fresh context: ");
    if (!n) vh_buf_adds(b, "(none) ");
    while (n) { node = stack[--n]; op_text(b, &ops[nodes[node].op]); vh_buf_adds(b, "; "); }
}

static uint64_t bfs_count(int thorough) { build_slices(thorough); return (uint64_t) nslices; }

static void bfs_run(uint64_t idx, vh_rng_t * rng) {
    const slice_t * s;
    vh_ctx_t * v;
    obs_t b, a; skey_t k; int isnew; uint32_t head, id; unsigned maxdepth = 0;
    uint64_t trans = 0, pruned = 0;
    size_t qbytes;
    (void) rng;
    build_slices(vh_args.thorough);
    s = &slices[idx];
    vh_case_desc("bfs slice %s", s->name);
    vh_watchdog(s->big ? 7000 : 1200);
    build_ops(s);
    g_no_error_cb = (idx % 3 == 1);
    g_srq_handler_acts = 0;
    v = new_ctx(s->qcap);
    qbytes = sizeof(scpi_error_t) * (size_t) s->qcap;
    snapsz = sizeof(scpi_t) + qbytes;
    nnodes = 0; capnodes = 0; hcap = 0; nodes = NULL; snaps = NULL; htab = NULL;

    observe(v->ctx, &a);
    if (MON11 && incoherent(&a)) {
        vh_buf_t t = { 0 }; obs_text(&t, &a);
        vh_violation("C11:initial-state-incoherent", "after SCPI_Init: %s", vh_buf_cstr(&t));
        vh_buf_free(&t);
    }
    key_of(&a, &k);
    id = state_intern(&k, &isnew);
    memcpy(snaps, v->ctx, sizeof(scpi_t)); memcpy(snaps + sizeof(scpi_t), v->queue, qbytes);

    for (head = 0; head < nnodes; head++) {
        int i;
        const unsigned char * snap;
        vh_sub = head;
        if (nodes[head].flags & NF_PRUNED) continue;
        for (i = 0; i < nops; i++) {
            snap = snaps + (size_t) head * snapsz; /* snaps may move when the table grows */
            memcpy(v->ctx, snap, sizeof(scpi_t)); memcpy(v->queue, snap + sizeof(scpi_t), qbytes);
            observe(v->ctx, &b);
            run_op(v, &ops[i]);
            observe(v->ctx, &a);
            if (ops[i].kind == K_CMD) check_cmd_accepted(v, &ops[i]);
            monitors(&ops[i], &b, &a, s->qcap);
            trans++;
            if (nfound) {
                int f;
                for (f = 0; f < nfound; f++) {
                    if (key_seen(found[f].key)) vh_violation(found[f].key, "(repeat)");
                    else {
                        vh_buf_t t = { 0 };
                        bfs_history(&t, head);
                        vh_buf_adds(&t, "then "); op_text(&t, &ops[i]);
                        vh_buf_adds(&t, " | before: "); obs_text(&t, &b);
                        vh_buf_adds(&t, " | after: "); obs_text(&t, &a);
                        vh_violation(found[f].key, "%s | %s | slice %s", found[f].msg, vh_buf_cstr(&t), s->name);
                        vh_buf_free(&t);
                    }
                }
            }
            key_of(&a, &k);
            id = state_intern(&k, &isnew);
            if (isnew) {
                unsigned char * dst = snaps + (size_t) id * snapsz;
                nodes[id].parent = head; nodes[id].op = (uint16_t) i; nodes[id].depth = (uint16_t) (nodes[head].depth + 1);
                if (nodes[id].depth > maxdepth) maxdepth = nodes[id].depth;
                memcpy(dst, v->ctx, sizeof(scpi_t)); memcpy(dst + sizeof(scpi_t), v->queue, qbytes);
                /* a state in which the C11 invariant is already broken is reported by the operation that broke it
                 * and is not explored further (on a coherent tree there is none, so the search stays complete) */
                if (incoherent(&a)) { nodes[id].flags |= NF_PRUNED; pruned++; }
                vh_distinct(key_hash(&k));
            }
        }
    }
    vh_eval(trans);
    ctr[N_BFS_SLICES]++; ctr[N_BFS_STATES] += nnodes; ctr[N_BFS_TRANS] += trans; ctr[N_BFS_PRUNED] += pruned;
    if (s->big) vh_count("bfs.states_in_two_bit_cross_product_slices", nnodes);
    if (vh_want_sample())
        vh_sample("bfs slice %s: %zu reachable states, %llu transitions (%d operations per state), depth %u, %llu incoherent states not expanded",
                  s->name, nnodes, (unsigned long long) trans, nops, maxdepth, (unsigned long long) pruned);
    /* restore a coherent context before releasing it */
    memcpy(v->ctx, snaps, sizeof(scpi_t)); memcpy(v->queue, snaps + sizeof(scpi_t), qbytes);
    vh_ctx_free(v);
    free(nodes); free(snaps); free(htab); nodes = NULL; snaps = NULL; htab = NULL;
    flush_counters();
    vh_watchdog(600);
}

/* ---- random walks over full 16-bit values ------------------------------------------------------ */
#define WALK_STEPS 500
static uint64_t walk_count(int thorough) {
#if VH_ASAN
    return vh_scaled(thorough ? 20000 : 1000);
#else
    return vh_scaled(thorough ? 200000 : 4000);
#endif
}
static uint16_t rnd_val(vh_rng_t * rng) {
    static const uint16_t reps[] = { 0x40, 0x0200, 0x01, 0x20, 0x80, 0x08, 0x04, 0x10, 0x02, 0x8000, 0x0100 };
    uint16_t r = (uint16_t) vh_rand(rng);
    switch (vh_below(rng, 9)) {
        case 0: return r;
        case 1: return (uint16_t) (1u << vh_below(rng, 16));
        case 2: return (uint16_t) ((1u << vh_below(rng, 16)) | (1u << vh_below(rng, 16)));
        case 3: return 0;
        case 4: return 0xFFFF;
        case 5: return reps[vh_below(rng, sizeof reps / sizeof reps[0])];
        case 6: return r & (uint16_t) vh_rand(rng);
        case 7: return r | (uint16_t) vh_rand(rng);
        default: return (uint16_t) (reps[vh_below(rng, 7)] | reps[vh_below(rng, 7)]);
    }
}
static int16_t rnd_code(vh_rng_t * rng) {
    static const int16_t edge[] = { -100, -199, -200, -299, -300, -399, -400, -499, -500, -599, -600, -699, -700, -799, -800, -899, -900,
        -99, -1, 0, 1, 2, 99, 100, 32767, -32768, -1000, -350, -113, -222, -310, -410 };
    switch (vh_below(rng, 4)) {
        case 0: return edge[vh_below(rng, sizeof edge / sizeof edge[0])];
        case 1: return (int16_t) (-(int) vh_below(rng, 1000));
        case 2: return (int16_t) (1 + vh_below(rng, 32767));
        default: return (int16_t) (uint16_t) vh_rand(rng);
    }
}
static void rnd_op(vh_rng_t * rng, op_t * op) {
    unsigned k = vh_below(rng, 100);
    memset(op, 0, sizeof *op);
    if (k < 45) {
        op->kind = (uint8_t) (K_SET + vh_below(rng, 3));
        op->a = (uint8_t) (SCPI_REG_SRE + vh_below(rng, NREG - 1)); /* never the summary bits of the status byte itself */
        op->val = rnd_val(rng);
#if USE_CUSTOM_REGISTERS
        /* user registers are written like any other: the standard summary equations hold whatever happens in the application's own groups */
        if (vh_chance(rng, 1, 5)) { op->kind = K_SET; op->a = (uint8_t) (NREG + vh_below(rng, SCPI_REG_COUNT - NREG)); op->val = rnd_val(rng); }
#endif
        /* ... but a device may use the bits of the status byte that no summary owns (0, 1 and whatever the register stores above bit 7) */
        if (vh_chance(rng, 1, 12)) { op->kind = (uint8_t) (vh_chance(rng, 1, 2) ? K_SETBITS : K_CLRBITS); op->a = SCPI_REG_STB; op->val &= 0xFF03; if (!op->val) op->val = 0x0200; }
    } else if (k < 57) { op->kind = K_PUSH; op->code = rnd_code(rng); }
    else if (k < 63) op->kind = K_POP;
    else if (k < 65) op->kind = K_CLEAR;
    else {
        op->kind = K_CMD; op->a = (uint8_t) vh_below(rng, C__N); op->form = (uint8_t) vh_below(rng, 3);
        if (cmdinfo[op->a].param) op->val = rnd_val(rng);
    }
}
#define RING 8
static void walk_run(uint64_t idx, vh_rng_t * rng) {
    int qcap = 1 + (int) vh_below(rng, 4), step, f;
    vh_ctx_t * v = (g_no_error_cb = (idx % 4 == 3), g_srq_handler_acts = (idx % 5 == 4), new_ctx(qcap));
    op_t ring[RING]; obs_t b, a;
    vh_case_desc("random walk of %d operations, queue capacity %d", WALK_STEPS, qcap);
    observe(v->ctx, &a);
    for (step = 0; step < WALK_STEPS; step++) {
        op_t * op = &ring[step % RING];
        vh_sub = (uint64_t) step;
        rnd_op(rng, op);
        b = a;
        run_op(v, op);
        observe(v->ctx, &a);
        if (op->kind == K_CMD) check_cmd_accepted(v, op);
        monitors(op, &b, &a, qcap);
        for (f = 0; f < nfound; f++) {
            if (key_seen(found[f].key)) vh_violation(found[f].key, "(repeat)");
            else {
                vh_buf_t t = { 0 }; int j, from = step - (RING - 1) < 0 ? 0 : step - (RING - 1);
                vh_buf_printf(&t, "walk step %d, queue capacity %d; last operations: ", step, qcap);
                for (j = from; j <= step; j++) { op_text(&t, &ring[j % RING]); vh_buf_adds(&t, "; "); }
                vh_buf_adds(&t, "| before the last: "); obs_text(&t, &b);
                vh_buf_adds(&t, " | after: "); obs_text(&t, &a);
                vh_violation(found[f].key, "%s | %s", found[f].msg, vh_buf_cstr(&t));
                vh_buf_free(&t);
            }
        }
        if ((step & 15) == 0) { skey_t k; key_of(&a, &k); vh_distinct(key_hash(&k)); }
    }
    vh_eval(WALK_STEPS);
    ctr[N_WALKS]++; ctr[N_WALK_STEPS] += WALK_STEPS;
    if (idx < (uint64_t) vh_args.nshards && vh_want_sample()) {
        vh_buf_t t = { 0 }; int j;
        for (j = WALK_STEPS - 4; j < WALK_STEPS; j++) { op_text(&t, &ring[j % RING]); vh_buf_adds(&t, "; "); }
        vh_buf_adds(&t, "-> "); obs_text(&t, &a);
        vh_sample("walk (queue capacity %d) ends with %s", qcap, vh_buf_cstr(&t));
        vh_buf_free(&t);
    }
    vh_ctx_free(v);
    flush_counters();
}

/* ---- C12: classification sweep over every int16_t code ---------------------------------------- */
#define SWEEP_BLOCK 256
static uint64_t sweep_count(int thorough) { (void) thorough; return MON12 ? 65536 / SWEEP_BLOCK : 0; }
static void sweep_run(uint64_t idx, vh_rng_t * rng) {
    vh_ctx_t * v = (g_no_error_cb = (int) (idx & 1), g_srq_handler_acts = 0, new_ctx(2));
    scpi_t * base = (scpi_t *) malloc(sizeof(scpi_t));
    size_t qbytes = sizeof(scpi_error_t) * 2;
    void * qbase = malloc(qbytes);
    int i, pass;
    vh_case_desc("classification sweep, codes %d..%d", (int) idx * SWEEP_BLOCK - 32768, (int) idx * SWEEP_BLOCK - 32768 + SWEEP_BLOCK - 1);
    memcpy(base, v->ctx, sizeof(scpi_t)); memcpy(qbase, v->queue, qbytes);
    for (i = 0; i < SWEEP_BLOCK; i++) {
        int code = (int) idx * SWEEP_BLOCK - 32768 + i;
        vh_sub = (uint64_t) (uint16_t) (int16_t) code;
        for (pass = 0; pass < 3; pass++) {
            op_t op; obs_t b, a; int f;
            memcpy(v->ctx, base, sizeof(scpi_t)); memcpy(v->queue, qbase, qbytes);
            if (pass == 1) SCPI_RegSet(v->ctx, SCPI_REG_ESR, rnd_val(rng)); /* bits already set must survive, nothing but the class bit is added */
            if (pass == 2) { SCPI_ErrorPush(v->ctx, -50); SCPI_ErrorPush(v->ctx, -50); } /* queue of two is full, ESR still 0 */
            memset(&op, 0, sizeof op); op.kind = K_PUSH; op.code = (int16_t) code;
            observe(v->ctx, &b);
            if (pass != 1 && b.r[SCPI_REG_ESR] != 0) { vh_violation("C12:harness-esr-not-zero", "fresh context has ESR=0x%04x", b.r[SCPI_REG_ESR]); break; }
            run_op(v, &op);
            observe(v->ctx, &a);
            monitors(&op, &b, &a, 2);
            ctr[pass == 0 ? N_SWEEP : pass == 1 ? N_SWEEP_PRIOR : N_SWEEP_FULL]++;
            for (f = 0; f < nfound; f++) {
                if (key_seen(found[f].key)) vh_violation(found[f].key, "(repeat)");
                else {
                    vh_buf_t t = { 0 };
                    vh_buf_printf(&t, "fresh context (queue capacity 2)%s; SCPI_ErrorPush(%d) | before: ", pass == 1 ? " with ESR preset" : pass == 2 ? "; SCPI_ErrorPush(-50); SCPI_ErrorPush(-50)" : "", code); obs_text(&t, &b);
                    vh_buf_adds(&t, " | after: "); obs_text(&t, &a);
                    vh_violation(found[f].key, "%s | %s", found[f].msg, vh_buf_cstr(&t));
                    vh_buf_free(&t);
                }
            }
            if (pass == 0 && (code % 97 == 0 || code == 32767 || code == -32768)) vh_distinct(vh_hash_u64((uint64_t) (uint16_t) code, 7));
            if (pass == 0 && (code == 1 || code == -100 || code == -199 || code == -200 || code == 0 || code == 32767 || code == -899 || code == -900) && vh_want_sample()) {
                const char * cls; uint16_t bit = ref_class(code, &cls);
                vh_sample("sweep: SCPI_ErrorPush(%d) on ESR=0 -> ESR=0x%04x (statement: %s class, bit 0x%02x)", code, a.r[SCPI_REG_ESR], cls, bit);
            }
        }
    }
    vh_eval(3 * SWEEP_BLOCK);
    memcpy(v->ctx, base, sizeof(scpi_t)); memcpy(v->queue, qbase, qbytes);
    vh_ctx_free(v); free(base); free(qbase);
    flush_counters();
}

/* ---- phase "cascade" (build flavour custreg only): user register groups cascaded below the standard CONDITION registers --------
 * random walks over writes to the user registers and the standard ones; after every operation:
 *   C11: status-byte bits 3 / 7 / 6 still equal their summaries (the statement's clauses, unchanged),
 *   C12: every condition-register bit that went 0 -> 1 during the operation - whether written directly or raised by a group below it -
 *        is latched in its event register; MSS 0 -> 1 is announced. */
#if USE_CUSTOM_REGISTERS
static uint64_t cascade_count(int thorough) { return vh_scaled(thorough ? 40000 : 4000); }
static void cascade_run(uint64_t idx, vh_rng_t * rng) {
    static const scpi_reg_name_t writable[] = { USER_REG_QUES_VOLT, USER_REG_QUES_VOLTE, USER_REG_QUES_VOLTC, USER_REG_OPER_SUB, USER_REG_OPER_SUBE,
        SCPI_REG_QUESE, SCPI_REG_OPERE, SCPI_REG_SRE, SCPI_REG_QUES, SCPI_REG_OPER, SCPI_REG_ESE
#ifdef VH_CUSTREG_FILTERS
        /* a group whose condition register feeds its event register through positive / negative transition filter registers */
        , USER_REG_QUES_CURRC, USER_REG_QUES_CURRC, USER_REG_QUES_CURRP, USER_REG_QUES_CURRN, USER_REG_QUES_CURR, USER_REG_QUES_CURRE
#endif
#ifdef VH_CUSTREG_CHAIN
        /* a user group BELOW a user group: its condition register is four hops away from the status byte (condition -> event -> QUES:VOLT
         * condition -> event -> QUES condition -> event -> status byte) */
        , USER_REG_QUES_VOLT_CHC, USER_REG_QUES_VOLT_CHC, USER_REG_QUES_VOLT_CH, USER_REG_QUES_VOLT_CHE
#endif
#ifdef VH_CUSTREG_CHAIN3
        , USER_REG_QUES_VOLT_CH_SEGC, USER_REG_QUES_VOLT_CH_SEGC, USER_REG_QUES_VOLT_CH_SEG, USER_REG_QUES_VOLT_CH_SEGE
#endif
    };
    static const char * const wname[] = { "QUES:VOLT", "QUES:VOLT:ENAB", "QUES:VOLT:COND", "OPER:SUB", "OPER:SUB:ENAB", "QUESE", "OPERE", "SRE", "QUES", "OPER", "ESE"
#ifdef VH_CUSTREG_FILTERS
        , "QUES:CURR:COND", "QUES:CURR:COND", "QUES:CURR:PTR", "QUES:CURR:NTR", "QUES:CURR", "QUES:CURR:ENAB"
#endif
#ifdef VH_CUSTREG_CHAIN
        , "QUES:VOLT:CH:COND", "QUES:VOLT:CH:COND", "QUES:VOLT:CH", "QUES:VOLT:CH:ENAB"
#endif
#ifdef VH_CUSTREG_CHAIN3
        , "QUES:VOLT:CH:SEG:COND", "QUES:VOLT:CH:SEG:COND", "QUES:VOLT:CH:SEG", "QUES:VOLT:CH:SEG:ENAB"
#endif
    };
    vh_ctx_t * v = (g_no_error_cb = (idx % 4 == 1), g_srq_handler_acts = 0, new_ctx(2)); scpi_t * c = v->ctx; int step; vh_buf_t hist = { 0, 0, 0 };
    (void) idx;
    for (step = 0; step < 120; step++) {
        int k = (int) vh_below(rng, (uint32_t) (sizeof writable / sizeof writable[0])); scpi_reg_val_t val = (scpi_reg_val_t) (vh_chance(rng, 1, 2) ? (1u << vh_below(rng, 16)) | (vh_below(rng, 2) ? 0x0001 : 0) | (vh_below(rng, 2) ? 0x0200 : 0) | (vh_below(rng, 2) ? 0x0002 : 0) : vh_rand(rng));
#ifdef VH_CUSTREG_FILTERS
        scpi_reg_val_t b_currc = SCPI_RegGet(c, USER_REG_QUES_CURRC), b_curr = SCPI_RegGet(c, USER_REG_QUES_CURR), ptr = SCPI_RegGet(c, USER_REG_QUES_CURRP), ntr = SCPI_RegGet(c, USER_REG_QUES_CURRN);
#endif
        scpi_reg_val_t b_quesc = SCPI_RegGet(c, SCPI_REG_QUESC), b_operc = SCPI_RegGet(c, SCPI_REG_OPERC), b_voltc = SCPI_RegGet(c, USER_REG_QUES_VOLTC), b_stb = SCPI_RegGet(c, SCPI_REG_STB);
        scpi_reg_val_t a_quesc, a_operc, a_voltc, stb, sre;
        if (vh_chance(rng, 1, 4)) val = 0;
#ifdef VH_CUSTREG_CHAIN
        /* every second history opens the whole path from the second-level group to the status byte (all enables set), so that a write to the
         * deepest condition register travels all the way */
        if ((idx & 1) && step < 3) { static const scpi_reg_name_t open_path[3] = { USER_REG_QUES_VOLT_CHE, USER_REG_QUES_VOLTE, SCPI_REG_QUESE }; int j2; for (j2 = 0; j2 < (int) (sizeof writable / sizeof writable[0]); j2++) if (writable[j2] == open_path[step]) k = j2; val = 0xffff; }
        if ((idx & 1) && step >= 3 && step % 8 == 3) { int j2; for (j2 = 0; j2 < (int) (sizeof writable / sizeof writable[0]); j2++) if (writable[j2] == USER_REG_QUES_VOLT_CHC) k = j2; }
#ifdef VH_CUSTREG_CHAIN3
        if ((idx & 1) && step == 3) { int j2; for (j2 = 0; j2 < (int) (sizeof writable / sizeof writable[0]); j2++) if (writable[j2] == USER_REG_QUES_VOLT_CH_SEGE) k = j2; val = 0xffff; }
        if ((idx & 1) && step > 3 && step % 8 == 5) { int j2; for (j2 = 0; j2 < (int) (sizeof writable / sizeof writable[0]); j2++) if (writable[j2] == USER_REG_QUES_VOLT_CH_SEGC) k = j2; }
        /* bit 3 of the QUES:VOLT:CH condition register is the summary of the group below it */
        if (writable[k] == USER_REG_QUES_VOLT_CHC) val = (scpi_reg_val_t) ((val & ~0x0008) | (SCPI_RegGet(c, USER_REG_QUES_VOLT_CHC) & 0x0008));
#endif
        /* bit 2 of the QUES:VOLT condition register is the summary of the group below it: the library's, not the application's, to write */
        if (writable[k] == USER_REG_QUES_VOLTC) val = (scpi_reg_val_t) ((val & ~0x0004) | (SCPI_RegGet(c, USER_REG_QUES_VOLTC) & 0x0004));
        if (vh_chance(rng, 1, 3)) val |= 0x0004;
        if (writable[k] == USER_REG_QUES_VOLTC) val = (scpi_reg_val_t) ((val & ~0x0004) | (SCPI_RegGet(c, USER_REG_QUES_VOLTC) & 0x0004));
#endif
        srq.n = 0;
        vh_buf_printf(&hist, "%s:=0x%04x ", wname[k], val);
        if (hist.len > 600) { memmove(hist.p, hist.p + 300, hist.len - 300); hist.len -= 300; }
        SCPI_RegSet(c, writable[k], val);
        vh_eval(1);
        a_quesc = SCPI_RegGet(c, SCPI_REG_QUESC); a_operc = SCPI_RegGet(c, SCPI_REG_OPERC); a_voltc = SCPI_RegGet(c, USER_REG_QUES_VOLTC);
        stb = SCPI_RegGet(c, SCPI_REG_STB); sre = SCPI_RegGet(c, SCPI_REG_SRE); (void) sre; (void) a_quesc; (void) a_operc; (void) a_voltc; (void) b_stb; (void) b_voltc; (void) b_quesc; (void) b_operc;
        /* a user group is summarised in its parent register exactly as a standard group is summarised in the status byte (the hop that
         * carries a user event towards the status byte, MSS and the service request) */
        if (((a_quesc & 0x0001) != 0) != ((SCPI_RegGet(c, USER_REG_QUES_VOLT) & SCPI_RegGet(c, USER_REG_QUES_VOLTE)) != 0)) { vh_violation(PROP ":cascade-user-group-summary", "after %s: QUES:COND=0x%04x but QUES:VOLT=0x%04x QUES:VOLT:ENAB=0x%04x (summary bit 0x0001)", vh_buf_cstr(&hist), a_quesc, SCPI_RegGet(c, USER_REG_QUES_VOLT), SCPI_RegGet(c, USER_REG_QUES_VOLTE)); break; }
        if (((a_operc & 0x0200) != 0) != ((SCPI_RegGet(c, USER_REG_OPER_SUB) & SCPI_RegGet(c, USER_REG_OPER_SUBE)) != 0)) { vh_violation(PROP ":cascade-user-group-summary", "after %s: OPER:COND=0x%04x but OPER:SUB=0x%04x OPER:SUB:ENAB=0x%04x (summary bit 0x0200)", vh_buf_cstr(&hist), a_operc, SCPI_RegGet(c, USER_REG_OPER_SUB), SCPI_RegGet(c, USER_REG_OPER_SUBE)); break; }
        if (a_operc & 0x0200) vh_count("cascade.user_group_summarised_in_a_parent_bit_above_7", 1);
#ifdef VH_CUSTREG_CHAIN
        if (((a_voltc & 0x0004) != 0) != ((SCPI_RegGet(c, USER_REG_QUES_VOLT_CH) & SCPI_RegGet(c, USER_REG_QUES_VOLT_CHE)) != 0)) { vh_violation(PROP ":cascade-user-group-summary:second-level", "after %s: QUES:VOLT:COND=0x%04x but QUES:VOLT:CH=0x%04x QUES:VOLT:CH:ENAB=0x%04x (summary bit 0x0004)", vh_buf_cstr(&hist), a_voltc, SCPI_RegGet(c, USER_REG_QUES_VOLT_CH), SCPI_RegGet(c, USER_REG_QUES_VOLT_CHE)); break; }
        if (writable[k] == USER_REG_QUES_VOLT_CHC && ((stb ^ b_stb) & 0x08)) vh_count("cascade.second_level_condition_write_changed_the_status_byte", 1);
#endif
#ifdef VH_CUSTREG_CHAIN3
        if (((SCPI_RegGet(c, USER_REG_QUES_VOLT_CHC) & 0x0008) != 0) != ((SCPI_RegGet(c, USER_REG_QUES_VOLT_CH_SEG) & SCPI_RegGet(c, USER_REG_QUES_VOLT_CH_SEGE)) != 0)) { vh_violation(PROP ":cascade-user-group-summary:third-level", "after %s: QUES:VOLT:CH:COND=0x%04x but QUES:VOLT:CH:SEG=0x%04x ENAB=0x%04x (summary bit 0x0008)", vh_buf_cstr(&hist), SCPI_RegGet(c, USER_REG_QUES_VOLT_CHC), SCPI_RegGet(c, USER_REG_QUES_VOLT_CH_SEG), SCPI_RegGet(c, USER_REG_QUES_VOLT_CH_SEGE)); break; }
        if (writable[k] == USER_REG_QUES_VOLT_CH_SEGC && ((stb ^ b_stb) & 0x08)) vh_count("cascade.third_level_condition_write_changed_the_status_byte", 1);
#endif
#ifdef VH_CUSTREG_FILTERS
        if (((a_quesc & 0x0002) != 0) != ((SCPI_RegGet(c, USER_REG_QUES_CURR) & SCPI_RegGet(c, USER_REG_QUES_CURRE)) != 0)) { vh_violation(PROP ":cascade-user-group-summary", "after %s: QUES:COND=0x%04x but QUES:CURR=0x%04x QUES:CURR:ENAB=0x%04x (summary bit 0x0002, group with transition filters)", vh_buf_cstr(&hist), a_quesc, SCPI_RegGet(c, USER_REG_QUES_CURR), SCPI_RegGet(c, USER_REG_QUES_CURRE)); break; }
#if MON12
        if (writable[k] == USER_REG_QUES_CURRC) {
            /* the statement's latch clause, for a group with filter registers: a rising condition bit whose positive transition is enabled must
             * be latched, and what was latched stays (falling bits through the negative filter: SCPI behaviour the statement does not mention - counted) */
            scpi_reg_val_t a_currc = SCPI_RegGet(c, USER_REG_QUES_CURRC), a_curr = SCPI_RegGet(c, USER_REG_QUES_CURR), rise = (scpi_reg_val_t) (a_currc & ~b_currc), fall = (scpi_reg_val_t) (b_currc & ~a_currc);
            if (a_currc != val) { vh_violation(PROP ":condition-write-lost:filtered-user-group", "after %s: QUES:CURR:COND reads 0x%04x", vh_buf_cstr(&hist), a_currc); break; }
            if ((rise & ptr) & ~a_curr) { vh_violation(PROP ":condition-rise-not-latched:filtered-user-group", "after %s: QUES:CURR:COND 0x%04x -> 0x%04x with PTR=0x%04x NTR=0x%04x, event 0x%04x -> 0x%04x", vh_buf_cstr(&hist), b_currc, a_currc, ptr, ntr, b_curr, a_curr); break; }
            if (b_curr & ~a_curr) { vh_violation(PROP ":condition-write-drops-latched-event:filtered-user-group", "after %s: QUES:CURR:COND 0x%04x -> 0x%04x, event 0x%04x -> 0x%04x", vh_buf_cstr(&hist), b_currc, a_currc, b_curr, a_curr); break; }
            if (rise & ptr) vh_count("cascade.rising_bit_latched_through_positive_transition_filter", 1);
            if (rise & ~ptr & ~b_curr & ~(fall & ntr)) vh_count(((rise & ~ptr) & a_curr & ~b_curr) ? "cascade.rising_bit_with_filter_off_latched.counted_only" : "cascade.rising_bit_with_filter_off_not_latched.counted_only", 1);
            if (fall & ntr) vh_count((fall & ntr & ~a_curr) ? "cascade.falling_bit_with_negative_filter_not_latched.counted_only" : "cascade.falling_bit_latched_through_negative_filter.counted_only", 1);
        }
#endif
#endif
#if MON11
        if (((stb & 0x08) != 0) != ((SCPI_RegGet(c, SCPI_REG_QUES) & SCPI_RegGet(c, SCPI_REG_QUESE)) != 0)) { vh_violation(PROP ":cascade-summary-bit3", "after %s: STB=0x%02x QUES=0x%04x QUESE=0x%04x", vh_buf_cstr(&hist), stb, SCPI_RegGet(c, SCPI_REG_QUES), SCPI_RegGet(c, SCPI_REG_QUESE)); break; }
        if (((stb & 0x80) != 0) != ((SCPI_RegGet(c, SCPI_REG_OPER) & SCPI_RegGet(c, SCPI_REG_OPERE)) != 0)) { vh_violation(PROP ":cascade-summary-bit7", "after %s: STB=0x%02x OPER=0x%04x OPERE=0x%04x", vh_buf_cstr(&hist), stb, SCPI_RegGet(c, SCPI_REG_OPER), SCPI_RegGet(c, SCPI_REG_OPERE)); break; }
        if (((stb & 0x40) != 0) != (((stb & ~0x40) & sre & ~0x40) != 0)) { vh_violation(PROP ":cascade-mss", "after %s: STB=0x%02x SRE=0x%04x", vh_buf_cstr(&hist), stb, sre); break; }
#endif
#if MON12
        if ((a_quesc & ~b_quesc) & ~SCPI_RegGet(c, SCPI_REG_QUES)) { vh_violation(PROP ":condition-rise-not-latched:raised-by-cascaded-group", "after %s: QUES:COND 0x%04x -> 0x%04x but QUES event = 0x%04x", vh_buf_cstr(&hist), b_quesc, a_quesc, SCPI_RegGet(c, SCPI_REG_QUES)); break; }
        if ((a_operc & ~b_operc) & ~SCPI_RegGet(c, SCPI_REG_OPER)) { vh_violation(PROP ":condition-rise-not-latched:raised-by-cascaded-group", "after %s: OPER:COND 0x%04x -> 0x%04x but OPER event = 0x%04x", vh_buf_cstr(&hist), b_operc, a_operc, SCPI_RegGet(c, SCPI_REG_OPER)); break; }
        if ((a_voltc & ~b_voltc) & ~SCPI_RegGet(c, USER_REG_QUES_VOLT)) { vh_violation(PROP ":condition-rise-not-latched:user-group", "after %s: QUES:VOLT:COND 0x%04x -> 0x%04x but event = 0x%04x", vh_buf_cstr(&hist), b_voltc, a_voltc, SCPI_RegGet(c, USER_REG_QUES_VOLT)); break; }
        if (!(b_stb & 0x40) && (stb & 0x40) && srq.n == 0) { vh_violation(PROP ":mss-rise-not-announced:cascade", "after %s: MSS rose (STB 0x%02x -> 0x%02x) without a service-request callback", vh_buf_cstr(&hist), b_stb, stb); break; }
        if ((a_quesc & ~b_quesc) || (a_operc & ~b_operc)) vh_count("cascade.parent_condition_bit_raised_by_child_group", 1);
#endif
        vh_count("cascade.steps", 1);
    }
    vh_distinct(vh_hash(hist.p, hist.len, 91));
    vh_buf_free(&hist);
    vh_ctx_free(v);
}
#else
static uint64_t cascade_count(int thorough) { (void) thorough; return 0; }
static void cascade_run(uint64_t idx, vh_rng_t * rng) { (void) idx; (void) rng; }
#endif

/* ---- C11: a DEEP error queue. "Bit 2 iff the queue is non-empty" for every fill level the int16_t size allows - 255, 256, 257, 512 entries are
 * fill levels like any other (a count that passes through a narrow type shows at the multiples of 256) ------------------------------------- */
static uint64_t deep_count(int thorough) { (void) thorough; return MON11 ? 4 : 0; }
static void deep_run(uint64_t idx, vh_rng_t * rng) {
    int qcap = (idx & 1) ? 600 : 300, i, n = qcap - 20; obs_t o; vh_ctx_t * v = (g_no_error_cb = (idx >= 2), g_srq_handler_acts = 0, new_ctx(qcap)); scpi_t * c = v->ctx;
    (void) rng;
    vh_case_desc("error queue of %d entries filled to %d one by one and read back one by one", qcap, n);
    SCPI_RegSet(c, SCPI_REG_SRE, 0x04);
    for (i = 0; i < 2 * n; i++) {
        unsigned bad;
        if (i < n) SCPI_ErrorPush(c, (int16_t) (-100 - (i % 50))); else { scpi_error_t e; if (i & 1) SCPI_ErrorPop(c, &e); else vh_input(v, "SYST:ERR?\n", 10); }
        observe(c, &o); bad = incoherent(&o);
        vh_eval(1);
        if (bad) { vh_violation(bad & CL_QMA ? "C11:error-available-wrong-in-a-deep-queue" : "C11:mss-wrong-in-a-deep-queue", "queue of %d entries, %s no. %d: %d errors queued, status byte 0x%04x, SRE 0x%04x", qcap, i < n ? "push" : "read", i < n ? i + 1 : i - n + 1, (int) o.count, o.r[SCPI_REG_STB], o.r[SCPI_REG_SRE]); break; }
        if (o.count == 256 || o.count == 512) vh_count("deep.queue_holding_a_multiple_of_256_errors", 1);
    }
    vh_count("deep.histories", 1);
    vh_ctx_free(v);
}

int main(int argc, char ** argv) {
    static const vh_phase_t phases[] = {
        { "sweep", sweep_count, sweep_run }, /* C12 only; first, so that the shortest witnesses are reported */
        { "bfs", bfs_count, bfs_run },
        { "walk", walk_count, walk_run },
        { "cascade", cascade_count, cascade_run },
        { "deep queue", deep_count, deep_run },
    };
    vh_require("bfs.states"); vh_require("contexts.without_error_callback"); vh_require("contexts.with_error_callback");
    vh_require("walk.steps");
#if MON11
    vh_require("c11.after_states_with_bit5_set"); vh_require("deep.queue_holding_a_multiple_of_256_errors");
    vh_require("c11.after_states_with_bit7_set");
    vh_require("c11.after_states_with_bit3_set");
    vh_require("c11.after_states_with_bit2_set");
    vh_require("c11.after_states_with_mss_set");
    vh_require("c11.operations_changing_mss");
#else
    vh_require("c12.sweep.codes");
    vh_require("c12.class.pushes_checked"); vh_require("c12.class.entries_read_by_the_service_request_handler_checked");
    vh_require("c12.latch.condition_writes_with_rising_bits");
#ifdef VH_CUSTREG_FILTERS
    vh_require("cascade.rising_bit_latched_through_positive_transition_filter");
#endif
    vh_require("c12.hold.event_bits_cleared_by_listed_operation");
    vh_require("c12.clear.query_or_cls_checked");
    vh_require("c12.srq.mss_rises");
    vh_require("c12.srq.callbacks");
    vh_require("c12.srq.operations_with_mss_clear_before_and_after");
#endif
    #if USE_CUSTOM_REGISTERS
    vh_require("cascade.steps"); vh_require("cascade.user_group_summarised_in_a_parent_bit_above_7");
#ifdef VH_CUSTREG_CHAIN
    vh_require("cascade.second_level_condition_write_changed_the_status_byte");
#endif
#ifdef VH_CUSTREG_CHAIN3
    vh_require("cascade.third_level_condition_write_changed_the_status_byte");
#endif
#endif
    return vh_main(argc, argv, PROP, phases, 5);
}
