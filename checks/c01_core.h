/* C01 core: executes one byte stream against the real library with hostile geometry; shared by the sharded check
 * (checks/c01_memsafe.c) and the libFuzzer entry point (fuzz/c01_fuzz.c). The oracle is the sanitizer build itself
 * (ASan + UBSan + LSan, poisoned input-buffer tail, exact-size heap cells everywhere) plus a termination rule. */
#ifndef C01_CORE_H
#define C01_CORE_H
#include "vh_scpi.h"
#include <stdio.h>
#include <stdlib.h>
#include <string.h>

typedef struct {
    size_t bufsize;      /* input buffer 2.. */
    int queue_len;       /* error queue 1.. */
    size_t heap_len;     /* info heap (heap configuration) */
    uint64_t seg_seed;   /* segmentation choices */
    uint64_t sig_seed;   /* handler signatures */
    int mode;            /* 0 SCPI_Input segmented, 1 byte-at-a-time, 2 all-at-once, 3 SCPI_Parse on a NUL-terminated exact-size line */
} c01_cfg_t;

#define C01_NSIG 12
static vh_sig_t c01_sigs[C01_NSIG];
static unsigned char c01_blob[64] __attribute__((aligned(16)));

static scpi_result_t c01_misc(scpi_t * context) {
    /* APIs that are not parameter readers or plain results */
    int32_t nums[3]; char str[12]; scpi_number_t n;
    SCPI_CommandNumbers(context, nums, 3, -1);
    SCPI_CommandNumbers(context, nums, 0, 0);
    SCPI_IsCmd(context, "TEST:MISC");
    SCPI_IsCmd(context, ":T#:M?");
    SCPI_IsCmd(context, "*IDN?");
    SCPI_Match("TEST#:MISC[:X#]?", "test1:misc2?", 12);
    {
        /* SCPI_Match takes an explicit length: the text need not be terminated. Exact-size copies of the header as written and of
         * keywords that end in suffix digits (a read behind them traps) */
        size_t n = context->param_list.cmd_raw.length; char * h = (char *) malloc(n ? n : 1);
        static const char * const kw[] = { "CH12", "ch1", "TEST7:MISC:X9", "OUTP00000000003", "X2147483647" };
        size_t i;
        memcpy(h, context->param_list.cmd_raw.data, n);
        SCPI_Match("TEST#:MISC[:X#]?", h, n); SCPI_Match("TEST#:VALue#[:SUB#]", h, n);
        free(h);
        for (i = 0; i < sizeof kw / sizeof kw[0]; i++) {
            size_t k = strlen(kw[i]); char * e = (char *) malloc(k); memcpy(e, kw[i], k);
            SCPI_Match("CH#", e, k); SCPI_Match("TEST#:MISC[:X#]", e, k); SCPI_Match("OUTPut#", e, k); SCPI_Match("X#", e, k);
            free(e);
        }
    }
    if (SCPI_ParamNumber(context, scpi_special_numbers_def, &n, FALSE)) { SCPI_NumberToStr(context, scpi_special_numbers_def, &n, str, sizeof str); SCPI_ResultCharacters(context, str, strlen(str)); }
    SCPI_ParamErrorOccurred(context);
    SCPI_ResultArrayInt8(context, (const int8_t *) c01_blob, 3, SCPI_FORMAT_ASCII);
    SCPI_ResultArrayUInt16(context, (const uint16_t *) c01_blob, 2, SCPI_FORMAT_NORMAL);
    SCPI_ResultArrayFloat(context, (const float *) c01_blob, 2, SCPI_FORMAT_SWAPPED);
    SCPI_ResultArrayInt64(context, (const int64_t *) c01_blob, 1, SCPI_FORMAT_ASCII);
    SCPI_ResultArrayUInt64(context, (const uint64_t *) c01_blob, 0, SCPI_FORMAT_NORMAL);
    return SCPI_RES_OK;
}
static scpi_result_t c01_pusherr(scpi_t * context) {
    const char * p; size_t l; int32_t code = 5;
    SCPI_ParamInt32(context, &code, FALSE);
    /* length 0 would mean 'NUL-terminated text', which a pointer into the input buffer is not */
    if (SCPI_ParamCharacters(context, &p, &l, FALSE) && l > 0) SCPI_ErrorPushEx(context, (int16_t) code, (char *) p, l); else SCPI_ErrorPush(context, (int16_t) code);
    return SCPI_RES_OK;
}

/* a handler that announces a response block whose size comes from its parameter (a waveform dump streamed in windows):
 * every length a uint32_t parameter can carry reaches SCPI_ResultArbitraryBlockHeader, first in the response or behind another item */
static scpi_result_t c01_announce(scpi_t * context) {
    static const uint64_t dflt[16] = { 0u, 9u, 10u, 99999999u, 100000000u, 999999999u, 1000000000u, 4294967295u,
        4294967296ull, 9999999999ull, 10000000000ull, 99999999999ull, 100000000000ull, 9223372036854775807ull, 9223372036854775808ull, 18446744073709551615ull };
    uint64_t n = dflt[c01_blob[0] & 15]; /* the length parameter is a size_t: on LP64 every 64-bit value reaches the function */
    SCPI_ParamUInt64(context, &n, FALSE);
    if (c01_blob[1] & 1) SCPI_ResultInt32(context, 7);
    SCPI_ResultArbitraryBlockHeader(context, (size_t) n);
    SCPI_ResultArbitraryBlockData(context, c01_blob, n < 8 ? (size_t) n : 8);
    return SCPI_RES_OK;
}

static const scpi_command_t c01_cmds[] = {
    { "*CLS", SCPI_CoreCls, 0 }, { "*ESE", SCPI_CoreEse, 0 }, { "*ESE?", SCPI_CoreEseQ, 0 }, { "*ESR?", SCPI_CoreEsrQ, 0 }, { "*IDN?", SCPI_CoreIdnQ, 0 },
    { "*OPC", SCPI_CoreOpc, 0 }, { "*OPC?", SCPI_CoreOpcQ, 0 }, { "*RST", SCPI_CoreRst, 0 }, { "*SRE", SCPI_CoreSre, 0 }, { "*SRE?", SCPI_CoreSreQ, 0 },
    { "*STB?", SCPI_CoreStbQ, 0 }, { "*TST?", SCPI_CoreTstQ, 0 }, { "*WAI", SCPI_CoreWai, 0 },
    { "SYSTem:ERRor[:NEXT]?", SCPI_SystemErrorNextQ, 0 }, { "SYSTem:ERRor:COUNt?", SCPI_SystemErrorCountQ, 0 }, { "SYSTem:VERSion?", SCPI_SystemVersionQ, 0 },
    { "STATus:QUEStionable[:EVENt]?", SCPI_StatusQuestionableEventQ, 0 }, { "STATus:QUEStionable:ENABle", SCPI_StatusQuestionableEnable, 0 }, { "STATus:QUEStionable:ENABle?", SCPI_StatusQuestionableEnableQ, 0 },
    { "STATus:OPERation[:EVENt]?", SCPI_StatusOperationEventQ, 0 }, { "STATus:OPERation:ENABle", SCPI_StatusOperationEnable, 0 }, { "STATus:PRESet", SCPI_StatusPreset, 0 },
    { "A", vh_handler, 1 }, { "B?", vh_handler, 2 }, { "TEST#:VALue#[:SUB#]", vh_handler, 3 }, { "[:MEASure]:VOLTage[:DC]?", vh_handler, 4 }, { "CONFigure:TEXT", vh_handler, 5 },
    { "DATA:BLOCk", vh_handler, 6 }, { "DATA:ARRay?", vh_handler, 7 }, { "ROUTe:CLOSe", vh_handler, 8 }, { "X", vh_handler, 9 }, { "Y?", vh_handler, 10 }, { "Z", vh_handler, 11 }, { "W?", vh_handler, 12 },
    { "TEST:MISC?", c01_misc, 0 }, { "TEST#:MISC[:X#]?", c01_misc, 0 }, { "SYSTem:PUSHerror", c01_pusherr, 0 }, { "DATA:ANNounce?", c01_announce, 0 },
    SCPI_CMD_LIST_END
};

static void c01_gen_sigs(uint64_t seed) {
    vh_rng_t r; int i, j;
    static const char txt[] = "te\"xt;\n";
    vh_rng_seed(&r, seed, 77, 0);
    memset(c01_sigs, 0, sizeof c01_sigs);
    for (i = 0; i < 64; i++) c01_blob[i] = (unsigned char) vh_rand(&r);
    for (i = 0; i < C01_NSIG; i++) {
        vh_sig_t * s = &c01_sigs[i];
        s->nsteps = (int) vh_below(&r, 5);
        for (j = 0; j < s->nsteps; j++) { s->steps[j].kind = (uint8_t) vh_below(&r, VR__N); s->steps[j].mandatory = (uint8_t) vh_below(&r, 2); s->steps[j].cap = (uint16_t) vh_below(&r, 9); if (s->steps[j].kind == VR_NUMBER) s->steps[j].cap = (uint16_t) vh_below(&r, 40); }
        s->nouts = (int) vh_below(&r, 5);
        for (j = 0; j < s->nouts; j++) {
            vh_out_t * o = &s->outs[j];
            o->kind = (uint8_t) vh_below(&r, VO__N); o->base = (int8_t) (int) (vh_below(&r, 40) - 2); o->fmt = (uint8_t) vh_below(&r, 3);
            o->u = vh_rand(&r) >> vh_below(&r, 64); { uint64_t b = vh_rand(&r); memcpy(&o->d, &b, 8); }
            if (o->kind == VO_TEXT || o->kind == VO_MNEM) { o->data = txt; o->len = sizeof txt - 1; }
            else { o->data = (const char *) c01_blob; o->len = vh_below(&r, 40); if (o->kind == VO_ARR_INT32) o->len &= ~3u; if (o->kind == VO_ARR_DOUBLE) o->len &= ~7u; if (o->kind == VO_ARR_UINT16) o->len &= ~1u; }
            o->split[0] = (uint16_t) vh_below(&r, 8); o->split[1] = (uint16_t) vh_below(&r, 8); o->split[2] = (uint16_t) vh_below(&r, 8);
            o->announce_delta = (int16_t) ((int) vh_below(&r, 7) - 3); if ((long) o->len + o->announce_delta < 0) o->announce_delta = 0;
        }
        s->verdict = (uint8_t) vh_below(&r, 4); s->fail_after = (uint8_t) vh_below(&r, 5); s->own_err = (int16_t) ((int) vh_below(&r, 2000) - 1000);
        s->want_numbers = (uint8_t) vh_below(&r, 5);
    }
}

/* returns a short description of a termination-rule violation, or NULL */
static const char * c01_execute(const unsigned char * stream, size_t n, const c01_cfg_t * cfg) {
    vh_ctx_t * v; const char * bad = NULL; vh_rng_t r;
    c01_gen_sigs(cfg->sig_seed);
    v = vh_ctx_new(c01_cmds, cfg->bufsize < 2 ? 2 : cfg->bufsize, cfg->queue_len < 1 ? 1 : cfg->queue_len, cfg->heap_len < 2 ? 2 : cfg->heap_len);
    v->sigs = c01_sigs; v->nsigs = C01_NSIG; v->log_enabled = 0;
    vh_rng_seed(&r, cfg->seg_seed, 78, 0);
    /* the identification strings are the application's (any length, any of them NULL, any characters) */
    if (vh_below(&r, 3) == 0) {
        static char idn[4][140]; int f;
        for (f = 0; f < 4; f++) {
            static const size_t lens[] = { 0, 1, 17, 35, 36, 37, 70, 71, 72, 73, 100, 139 };
            size_t L = lens[vh_below(&r, sizeof lens / sizeof lens[0])], i;
            for (i = 0; i < L; i++) idn[f][i] = (char) ("ABCxyz019 ,;\"'-_./"[vh_below(&r, 19)]);
            idn[f][L] = 0;
            v->ctx->idn[f] = vh_below(&r, 6) == 0 ? NULL : idn[f];
        }
    }
    /* every callback but write is optional for the application */
    if (vh_below(&r, 4) == 0) {
        uint32_t m = vh_below(&r, 16);
        if (m & 1) v->iface.error = NULL;
        if (m & 2) v->iface.control = NULL;
        if (m & 4) v->iface.flush = NULL;
        if (m & 8) v->iface.reset = NULL;
    }
    if (cfg->mode == 3) {
        /* complete NUL-terminated line handed straight to the line parser; exact-size allocation so that strtol/strtod over-reads trap */
        size_t L = n; char * line = (char *) malloc(L + 1);
        memcpy(line, stream, L); line[L] = 0;
        { void * z = memchr(line, 0, L); if (z) L = (size_t) ((char *) z - line); }
        if (L + 1 < n + 1) { char * t = (char *) malloc(L + 1); memcpy(t, line, L + 1); free(line); line = t; }
        SCPI_Parse(v->ctx, line, (int) L);
        free(line);
    } else {
        size_t a = 0;
        while (a < n) {
            size_t k;
            if (cfg->mode == 1) k = 1; else if (cfg->mode == 2) k = n - a;
            else { uint32_t m = vh_below(&r, 8); k = m == 0 ? n - a : m < 4 ? 1 + vh_below(&r, 4) : 1 + vh_below(&r, (uint32_t) (v->inbuf_len + 4)); }
            if (k > n - a) k = n - a;
            if (cfg->mode == 0 && vh_below(&r, 16) == 0) vh_input(v, NULL, 0);
            vh_input(v, stream + a, k);
            a += k;
        }
        vh_input(v, NULL, 0);
        /* after a final flush nothing is pending: the context holds no bytes and a second flush is silent */
        if (v->ctx->buffer.position != 0) bad = "bytes-pending-after-flush";
        else { unsigned w = v->nwrite, e = v->nerrs_total, f = v->nflush; int inv = v->ninv; vh_input(v, NULL, 0); if (v->nwrite != w || v->nerrs_total != e || v->nflush != f || v->ninv != inv) bad = "second-flush-not-silent"; }
    }
    vh_ctx_free(v);
    return bad;
}
#endif
