/* C10 - the error queue is a bounded FIFO that marks overflow and owns its texts.
 *
 * Model-based runtime monitor.  Every operation of a history (push with/without text, SCPI_ErrorPop, SYST:ERR?,
 * SCPI_ErrorClear, count) is executed on the real library and on kit/ref_queue (shifting array, written from the
 * statement); after EACH operation the observable results are compared.
 * Ownership (malloc configuration): the executable is linked with --wrap=strndup --wrap=free.  Every pointer
 * returned by strndup is entered into a ledger with an owner (queue / client), released pointers are parked in a
 * quarantine (not handed back to malloc while parked, poisoned under ASan, scribbled in the plain build) so that
 * a second free or a later use is recognisable.  Conservation is checked after every operation:
 *     live(queue-owned) == texts held by the model queue,  live(client-owned) == texts the client still holds,
 * and live == 0 at quiescence.  __wrap_strndup is also the fault-injection point (k-th call returns NULL).
 * Only what the statement says is asserted: codes, order, count, text, ownership.  Error-callback events are
 * compared with the expectation and COUNTED, not asserted. */
#include "vh_scpi.h"
#include "ref_queue.h"
#include <stdio.h>
#include <stdlib.h>
#include <string.h>
#if VH_ASAN
#include <sanitizer/asan_interface.h>
#include <sanitizer/lsan_interface.h>
#endif

#define CFG_TEXT (USE_DEVICE_DEPENDENT_ERROR_INFORMATION)
#define CFG_MALLOC (USE_DEVICE_DEPENDENT_ERROR_INFORMATION && USE_MEMORY_ALLOCATION_FREE)
#if CFG_TEXT && !CFG_MALLOC
#error "C10 is defined for the malloc and the no-info configurations (the static-heap configuration is C20)"
#endif

/* ---- counters (hot loops: plain integers, flushed to vh_count at the end of each case) -------------------- */
enum { K_PUSH, K_PUSH_TEXT, K_POP, K_POP_EMPTY, K_SYST, K_SYST_EMPTY, K_CLEAR, K_COUNT, K_COUNTQ, K_OVERFLOW, K_OVERFLOW_POPPED,
       K_TEXT_API, K_TEXT_SYST, K_TEXT_QUOTE, K_TEXT_EMPTY_PTR, K_TEXT_EMPTY_NULL, K_TEXT_EMPTY_SEMI, K_TEXT_EMPTY_NOSEMI,
       K_AUTOCUT_255, K_AUTOCUT_FULL, K_SYST_LIMITED, K_SYST_EXACT, K_NOTEXT_OK,
       K_STRNDUP, K_FREE_TEXT_LIB, K_FREE_TEXT_CLIENT, K_FREE_NULL, K_INJECTED, K_INJECT_UNREACHED, K_ALLOCFAIL_QUEUED, K_ALLOCFAIL_ON_OVERFLOW,
       K_DROP_OVERFLOW_TEXT, K_DROP_CLEAR_TEXT, K_CLIENT_HELD_ACROSS_OP, K_QUIESCENT_OK, K_HIST, K_HIST_FAULT, K_WRAP, K_CB_OK, K_CB_DIFF,
       K_MODE_EXACT, K_MODE_LONGER, K_MODE_NULSHORT, K_MODE_AUTO, K_LEDGER_CHECKS, K_REQUEUE, K__N };
static const char * const kname[K__N] = { "op.push", "op.push_text", "op.errorpop", "op.errorpop_on_empty", "op.syst_err", "op.syst_err_on_empty", "op.clear", "op.count_api", "op.count_query",
    "overflow.events", "overflow.marker_popped",
    "text.returned_intact_errorpop", "text.returned_intact_syst_err", "text.with_quote_roundtrip", "text.empty_as_pointer", "text.empty_as_null", "text.empty_semicolon", "text.empty_no_semicolon",
    "text.auto_length_cut_255", "text.auto_length_full", "syst_err.over_255_prefix_only", "syst_err.exact_compare", "text.absent_as_expected",
    "ledger.strndup_calls", "ledger.text_freed_by_library", "ledger.text_freed_by_client", "ledger.free_null_calls", "fault.allocation_failure_injected", "fault.armed_but_not_reached",
    "fault.error_queued_without_text", "fault.injected_on_overflowing_push",
    "ownership.text_dropped_on_overflow", "ownership.text_dropped_on_clear", "ownership.client_held_across_operation", "ownership.quiescent_ledger_empty",
    "history.runs", "history.runs_with_fault", "history.ring_wraparound", "callback.as_expected", "callback.differs",
    "push.explicit_len_unterminated", "push.explicit_len_longer_source", "push.explicit_len_beyond_nul", "push.automatic_len", "ledger.conservation_checks", "op.queue_storage_replaced_on_live_context" };
static uint64_t kval[K__N];
static uint64_t evals_local;
#define CNT(k) (kval[k]++)
static void flush_counts(void) {
    int i;
    for (i = 0; i < K__N; i++) if (kval[i]) { vh_count(kname[i], kval[i]); kval[i] = 0; }
    vh_eval(evals_local); evals_local = 0;
}

/* ---- ownership ledger + fault injector (malloc configuration; harmless otherwise) ------------------------ */
char * __real_strndup(const char * s, size_t n);
void __real_free(void * p);
char * __wrap_strndup(const char * s, size_t n);
void __wrap_free(void * p);

enum { OWN_QUEUE = 1, OWN_CLIENT = 2 };
typedef struct { char * p; size_t len; int owner; } led_t;
#define LIVE_MAX 256
#define QUAR_MAX 256
static led_t led_live[LIVE_MAX]; static int led_nlive;
static led_t led_quar[QUAR_MAX]; static int led_nquar;
/* volatile: gcc knows free()/strndup() as builtins that do not touch globals and would otherwise move these stores */
static volatile struct {
    int on;             /* ledger records strndup results */
    int client;         /* the harness (client role) is releasing a text right now */
    long calls;         /* strndup calls since the start of the history */
    long fail_at;       /* this call returns NULL (0 = disarmed) */
    int fired;          /* injections since last reset by the harness */
    int double_free, lib_freed_client, client_freed_foreign, table_full;
} led;

static void led_poison(led_t * e) {
#if VH_ASAN
    ASAN_POISON_MEMORY_REGION(e->p, e->len + 1);
#else
    memset(e->p, 0xDD, e->len); /* keep the terminator: a stale reader sees garbage of the old length */
#endif
}
static void led_really_free(led_t * e) {
#if VH_ASAN
    ASAN_UNPOISON_MEMORY_REGION(e->p, e->len + 1);
#endif
    __real_free(e->p);
}
static void led_flush_quarantine(void) {
    int i;
    for (i = 0; i < led_nquar; i++) led_really_free(&led_quar[i]);
    led_nquar = 0;
}
static int led_find_live(const void * p) { int i; for (i = 0; i < led_nlive; i++) if (led_live[i].p == p) return i; return -1; }
static int led_find_quar(const void * p) { int i; for (i = 0; i < led_nquar; i++) if (led_quar[i].p == p) return i; return -1; }
static int led_count_owner(int owner) { int i, n = 0; for (i = 0; i < led_nlive; i++) if (led_live[i].owner == owner) n++; return n; }

char * __wrap_strndup(const char * s, size_t n) {
    char * r;
    if (!led.on) return __real_strndup(s, n);
    led.calls++; CNT(K_STRNDUP);
    if (led.fail_at && led.calls == led.fail_at) { led.fired++; CNT(K_INJECTED); return NULL; }
    r = __real_strndup(s, n);
    if (r) {
        if (led_nlive >= LIVE_MAX) { led.table_full = 1; return r; }
        led_live[led_nlive].p = r; led_live[led_nlive].len = strlen(r); led_live[led_nlive].owner = OWN_QUEUE; led_nlive++;
    }
    return r;
}

/* a library compiled as C90 has no strndup in its libc headers and duplicates texts with its own OUR_strndup (malloc + copy): same ledger */
char * __wrap_OUR_strndup(const char * s, size_t n);
char * __wrap_OUR_strndup(const char * s, size_t n) { return __wrap_strndup(s, n); }

void __wrap_free(void * p) {
    int i;
    if (!p) { if (led.on) CNT(K_FREE_NULL); return; }
    if (led_nlive || led_nquar) {
        i = led_find_live(p);
        if (i >= 0) {
            led_t e = led_live[i];
            if (led.client) { if (e.owner != OWN_CLIENT) led.client_freed_foreign++; CNT(K_FREE_TEXT_CLIENT); }
            else { if (e.owner == OWN_CLIENT) led.lib_freed_client++; CNT(K_FREE_TEXT_LIB); }
            led_live[i] = led_live[--led_nlive];
            if (led_nquar >= QUAR_MAX) { /* evict the oldest quarter */
                int k, drop = QUAR_MAX / 4;
                for (k = 0; k < drop; k++) led_really_free(&led_quar[k]);
                memmove(led_quar, led_quar + drop, sizeof(led_t) * (size_t) (led_nquar - drop));
                led_nquar -= drop;
            }
            led_poison(&e);
            led_quar[led_nquar++] = e;
            return;
        }
        if (led_find_quar(p) >= 0) { led.double_free++; return; } /* parked, i.e. released before and not reallocated since */
    }
    __real_free(p);
}

/* ---- histories ------------------------------------------------------------------------------------------- */
enum { OP_PUSH, OP_PUSHT, OP_POP, OP_SYST, OP_CLEAR, OP_COUNT, OP_REQUEUE, OP__N };
enum { M_EXACT, M_LONGER, M_NULSHORT, M_AUTO, M__N };
typedef struct { uint8_t kind, mode, fail, aux; int16_t code; const char * text; size_t len; } op_t;

#define F_OPTIONAL 1 /* empty text: a stored pointer to "" and no pointer at all are both "the text unmodified" */
#define F_AUTOCUT 2  /* automatic length and longer than 255: the cut at 255 (documented maximum) or the full text */

#define HOLD_MAX 4
typedef struct {
    vh_ctx_t * v; scpi_t * ctx; int N;
    ref_queue_t q;
    struct { char * p; const char * text; size_t len; uint8_t flags; } held[HOLD_MAX + 1];
    int nheld, hold_max;
    const op_t * ops; int nops, cur;
    int faults, dead;
    uint64_t tag;
    scpi_error_t * own_q; /* queue storage installed by OP_REQUEUE (released at the end of the history) */
} hist_t;

static const scpi_command_t cmds[] = {
    { .pattern = "SYSTem:ERRor[:NEXT]?", .callback = SCPI_SystemErrorNextQ },
    { .pattern = "SYSTem:ERRor:COUNt?", .callback = SCPI_SystemErrorCountQ },
    SCPI_CMD_LIST_END
};

static const char * const opnames[OP__N] = { "push", "push", "errorpop", "SYST:ERR?", "clear", "count", "new-queue-storage" };
static const char * const modenames[M__N] = { "len=exact,unterminated", "len=exact,longer-source", "len>strlen", "len=auto" };

static void describe(const hist_t * h, vh_buf_t * b) {
    int i, from = 0, upto = h->cur < h->nops ? h->cur : h->nops - 1;
    vh_buf_printf(b, "capacity %d, client keeps %d text(s); history:", h->N, h->hold_max);
    if (upto > 40) { from = upto - 40; vh_buf_printf(b, " ...(%d earlier operations)", from); }
    for (i = from; i <= upto; i++) {
        const op_t * o = &h->ops[i];
        if (o->kind == OP_PUSH) vh_buf_printf(b, " push(%d)", (int) o->code);
        else if (o->kind == OP_PUSHT) {
            size_t show = o->len < 24 ? o->len : 24;
            vh_buf_printf(b, " push(%d,\"", (int) o->code); vh_buf_add_escaped(b, o->text, show);
            vh_buf_printf(b, "\"%s[%zu],%s%s)", show < o->len ? "..." : "", o->len, modenames[o->mode], o->fail ? ",ALLOC-FAILS" : "");
        } else vh_buf_printf(b, " %s", opnames[o->kind]);
    }
    if (led.fail_at) vh_buf_printf(b, " [strndup call #%ld of the history fails]", led.fail_at);
    vh_buf_printf(b, " <- operation %d", upto + 1);
}

static void fail(hist_t * h, const char * key, const char * fmt, ...) __attribute__((format(printf, 3, 4)));
static void fail(hist_t * h, const char * key, const char * fmt, ...) {
    va_list ap; char msg[600]; char fullkey[96]; vh_buf_t b = { 0 };
    int save_on = led.on;
    led.on = 0; /* reporting allocates; keep the ledger out of it */
    va_start(ap, fmt); vsnprintf(msg, sizeof msg, fmt, ap); va_end(ap);
    describe(h, &b);
    snprintf(fullkey, sizeof fullkey, "%s%s", key, h->faults ? "+after-allocation-failure" : "");
    vh_violation(fullkey, "%s | %s", msg, vh_buf_cstr(&b));
    vh_buf_free(&b);
    h->dead = 1;
    led.on = save_on;
}

/* callback events are counted, never asserted */
static void note_callbacks(hist_t * h, const int16_t * exp, int nexp) {
    vh_ctx_t * v = h->v; int i, same = (v->nerrs == nexp);
    for (i = 0; same && i < nexp; i++) if (v->errs[i] != exp[i]) same = 0;
    if (same) CNT(K_CB_OK); else CNT(K_CB_DIFF);
}

static void client_release(hist_t * h, int idx) {
    char * p = h->held[idx].p; int i;
#if CFG_MALLOC
    /* the text must still be what was handed over */
    if (!(h->held[idx].flags & F_OPTIONAL)) {
        size_t got = strlen(p), want = h->held[idx].len;
        int ok = (got == want) || ((h->held[idx].flags & F_AUTOCUT) && got == 255);
        if (!ok || memcmp(p, h->held[idx].text, got) != 0) fail(h, "C10:client-held-text-modified", "a text handed out by SCPI_ErrorPop changed while the client held it: now \"%s\"", vh_esc(p, got < 40 ? got : 40));
    }
    led.client = 1; free(p); led.client = 0;
#else
    (void) p;
#endif
    for (i = idx + 1; i < h->nheld; i++) h->held[i - 1] = h->held[i];
    h->nheld--;
}

static void do_push(hist_t * h, const op_t * o) {
    rq_entry_t in, dropped[2]; int nd = 0, stored, fired;
    char * src = NULL; size_t srcsize = 0, info_len = 0;
    int16_t cb[2]; int ncb = 0;
    memset(&in, 0, sizeof in);
    in.code = o->code; in.tag = ++h->tag;
    if (o->kind == OP_PUSHT) {
        in.has_text = 1; in.text = o->text; in.len = o->len;
        switch (o->mode) {
            case M_EXACT: /* exactly len bytes, no terminator: reading text[len] is an over-read */
                srcsize = o->len; src = (char *) malloc(srcsize); memcpy(src, o->text, o->len); info_len = o->len; CNT(K_MODE_EXACT); break;
            case M_LONGER: /* more characters follow the first len */
                srcsize = o->len + 1 + o->aux; src = (char *) malloc(srcsize); memcpy(src, o->text, o->len); memset(src + o->len, '#', srcsize - o->len); info_len = o->len; CNT(K_MODE_LONGER); break;
            case M_NULSHORT: /* terminated before the given length */
                srcsize = o->len + 1; src = (char *) malloc(srcsize); memcpy(src, o->text, o->len); src[o->len] = 0; info_len = o->len + 1 + o->aux; CNT(K_MODE_NULSHORT); break;
            default: /* automatic length */
                srcsize = o->len + 1; src = (char *) malloc(srcsize); memcpy(src, o->text, o->len); src[o->len] = 0; info_len = 0; CNT(K_MODE_AUTO); break;
        }
        CNT(K_PUSH_TEXT);
    } else CNT(K_PUSH);
    led.fired = 0;
    if (o->fail) led.fail_at = led.calls + 1;
    vh_ctx_clear_capture(h->v);
    if (o->kind == OP_PUSH) SCPI_ErrorPush(h->ctx, o->code);
    else SCPI_ErrorPushEx(h->ctx, o->code, src, info_len);
    fired = led.fired;
    if (o->fail) { if (!fired) CNT(K_INJECT_UNREACHED); led.fail_at = 0; }
    if (src) { memset(src, '#', srcsize); free(src); } /* the library must have taken its own copy */
#if !CFG_TEXT
    in.has_text = 0;
#endif
    if (fired) { in.has_text = 0; h->faults++; } /* "if storing a text fails the error is still queued without it" */
    if (in.has_text && in.len == 0) in.flags |= F_OPTIONAL;
    if (in.has_text && o->mode == M_AUTO && in.len > 255) in.flags |= F_AUTOCUT;
    stored = rq_push(&h->q, &in, dropped, &nd);
    cb[ncb++] = o->code;
    if (!stored) {
        int i;
        cb[ncb++] = RQ_CODE_OVERFLOW; CNT(K_OVERFLOW);
        for (i = 0; i < nd; i++) if (dropped[i].has_text) CNT(K_DROP_OVERFLOW_TEXT);
        if (fired) CNT(K_ALLOCFAIL_ON_OVERFLOW);
    } else if (fired) CNT(K_ALLOCFAIL_QUEUED);
    note_callbacks(h, cb, ncb);
}

#if CFG_TEXT
/* text of a popped entry as seen through SCPI_ErrorPop */
static void check_api_text(hist_t * h, const rq_entry_t * m, char * t) {
#if CFG_MALLOC
    /* ownership first: do not read memory that the ledger says is gone */
    if (t) {
        int i = led_find_live(t);
        if (i < 0) {
            if (led_find_quar(t) >= 0) fail(h, "C10:errorpop-returns-released-text", "SCPI_ErrorPop (code %d) returned a text pointer that was already released", (int) m->code);
            else fail(h, "C10:errorpop-returns-unknown-pointer", "SCPI_ErrorPop (code %d) returned a text pointer that never came from the text allocator", (int) m->code);
            return;
        }
        if (led_live[i].owner != OWN_QUEUE) { fail(h, "C10:errorpop-returns-text-twice", "SCPI_ErrorPop (code %d) returned a text pointer the client already owns", (int) m->code); return; }
        led_live[i].owner = OWN_CLIENT;
    }
#endif
    if (!m->has_text) {
        if (t) { fail(h, "C10:errorpop-text-on-textless-error", "SCPI_ErrorPop: error %d was pushed without (stored) text but came back with \"%s\"", (int) m->code, vh_esc(t, strlen(t) < 40 ? strlen(t) : 40)); }
        else CNT(K_NOTEXT_OK);
    } else if (m->flags & F_OPTIONAL) {
        if (t && *t) fail(h, "C10:errorpop-text-differs", "SCPI_ErrorPop: error %d was pushed with an empty text but came back with \"%s\"", (int) m->code, vh_esc(t, strlen(t) < 40 ? strlen(t) : 40));
        else if (t) CNT(K_TEXT_EMPTY_PTR); else CNT(K_TEXT_EMPTY_NULL);
    } else if (!t) {
        fail(h, "C10:errorpop-text-missing", "SCPI_ErrorPop: error %d was pushed with text \"%s\"[%zu] but came back without text", (int) m->code, vh_esc(m->text, m->len < 40 ? m->len : 40), m->len);
    } else {
        size_t got = strlen(t);
        int lenok = got == m->len || ((m->flags & F_AUTOCUT) && got == 255);
        if (!lenok || memcmp(t, m->text, got) != 0)
            fail(h, "C10:errorpop-text-differs", "SCPI_ErrorPop: error %d was pushed with text \"%s\"[%zu] but came back with \"%s\"[%zu]", (int) m->code, vh_esc(m->text, m->len < 40 ? m->len : 40), m->len, vh_esc(t, got < 40 ? got : 40), got);
        else {
            CNT(K_TEXT_API);
            if (memchr(m->text, '"', m->len)) CNT(K_TEXT_QUOTE);
            if (m->flags & F_AUTOCUT) { if (got == 255) CNT(K_AUTOCUT_255); else CNT(K_AUTOCUT_FULL); }
        }
    }
    if (t && !h->dead) {
        h->held[h->nheld].p = t; h->held[h->nheld].text = m->text; h->held[h->nheld].len = m->len; h->held[h->nheld].flags = m->flags; h->nheld++;
    }
}
#endif

static void do_pop(hist_t * h) {
    rq_entry_t m; int had; scpi_bool_t ret;
    scpi_error_t * e = (scpi_error_t *) malloc(sizeof *e); /* exact-size, pre-poisoned out-parameter */
    int16_t cb[1]; int ncb = 0;
    memset(e, 0xA5, sizeof *e);
    vh_ctx_clear_capture(h->v);
    ret = SCPI_ErrorPop(h->ctx, e);
    (void) ret;
    had = rq_pop(&h->q, &m);
    CNT(K_POP); if (!had) CNT(K_POP_EMPTY);
    if (m.code == RQ_CODE_OVERFLOW && had && !m.tag) CNT(K_OVERFLOW_POPPED);
    if (e->error_code != m.code) {
        fail(h, had ? "C10:errorpop-code" : "C10:errorpop-on-empty-queue", "SCPI_ErrorPop returned code %d, the model queue says %d%s", (int) e->error_code, (int) m.code, had ? "" : " (queue is empty)");
#if CFG_MALLOC
        /* keep the ledger consistent for the clean-up */
        if (e->device_dependent_info) { int i = led_find_live(e->device_dependent_info); if (i >= 0) { led_live[i].owner = OWN_CLIENT; led.client = 1; free(e->device_dependent_info); led.client = 0; } }
#endif
    } else {
#if CFG_TEXT
        check_api_text(h, &m, e->device_dependent_info);
#endif
    }
    __real_free(e);
    if (had && rq_count(&h->q) == 0) cb[ncb++] = 0;
    note_callbacks(h, cb, ncb);
    while (!h->dead && h->nheld > h->hold_max) client_release(h, 0);
}

static char dbuf[2048];
static void do_syst(hist_t * h, const op_t * o) {
    static const char * const spell[4] = { "SYST:ERR?\n", "SYSTem:ERRor:NEXT?\r\n", "syst:err:next?\n", "SYSTEM:ERROR?\n" };
    rq_entry_t m; int had; long code = 0; size_t dlen = 0, rawlen = 0;
    const char * desc, * cmd = spell[o->aux & 3]; size_t dl;
    int16_t cb[1]; int ncb = 0;
    vh_ctx_clear_capture(h->v);
    vh_input(h->v, cmd, strlen(cmd));
    had = rq_pop(&h->q, &m);
    CNT(K_SYST); if (!had) CNT(K_SYST_EMPTY);
    if (m.code == RQ_CODE_OVERFLOW && had && !m.tag) CNT(K_OVERFLOW_POPPED);
    if (!rq_read_error_response(h->v->out.p, h->v->out.len, &code, dbuf, sizeof dbuf, &dlen, &rawlen)) {
        fail(h, "C10:systerr-malformed-response", "SYST:ERR? answered \"%s\", which is not <NR1>,\"<string>\"<line end>", vh_esc(h->v->out.p, h->v->out.len < 80 ? h->v->out.len : 80));
        return;
    }
    if (code != m.code) { fail(h, had ? "C10:systerr-code" : "C10:systerr-on-empty-queue", "SYST:ERR? answered code %ld, the model queue says %d%s", code, (int) m.code, had ? "" : " (queue is empty)"); return; }
    desc = SCPI_ErrorTranslate(m.code); dl = strlen(desc);
    if (dlen < dl || memcmp(dbuf, desc, dl) != 0) { fail(h, "C10:systerr-description", "SYST:ERR? answered \"%s\" for code %d, expected it to start with \"%s\"", vh_esc(dbuf, dlen < 60 ? dlen : 60), (int) m.code, desc); return; }
    if (!m.has_text) {
        if (dlen != dl) fail(h, "C10:systerr-text-on-textless-error", "SYST:ERR?: error %d has no (stored) text but the answer is \"%s\"", (int) m.code, vh_esc(dbuf, dlen < 60 ? dlen : 60));
        else CNT(K_NOTEXT_OK);
    } else if (m.flags & F_OPTIONAL) {
        if (dlen == dl) CNT(K_TEXT_EMPTY_NOSEMI);
        else if (dlen == dl + 1 && dbuf[dl] == ';') CNT(K_TEXT_EMPTY_SEMI);
        else fail(h, "C10:systerr-text-differs", "SYST:ERR?: error %d was pushed with an empty text but the answer is \"%s\"", (int) m.code, vh_esc(dbuf, dlen < 60 ? dlen : 60));
    } else {
        /* SCPI-99 21.8: description plus device-dependent info is at most 255 characters; where the complete
         * string (with doubled quotes) fits, it must be exact; beyond that only "is a prefix" is asserted */
        size_t quotes = 0, i, full = dl + 1 + m.len;
        for (i = 0; i < m.len; i++) if (m.text[i] == '"') quotes++;
        if (full + quotes <= 255) {
            if (dlen != full || dbuf[dl] != ';' || memcmp(dbuf + dl + 1, m.text, m.len) != 0)
                fail(h, dlen == dl ? "C10:systerr-text-missing" : "C10:systerr-text-differs", "SYST:ERR?: error %d was pushed with text \"%s\"[%zu] but the answer is \"%s\"[%zu]", (int) m.code, vh_esc(m.text, m.len < 40 ? m.len : 40), m.len, vh_esc(dbuf, dlen < 60 ? dlen : 60), dlen);
            else { CNT(K_TEXT_SYST); CNT(K_SYST_EXACT); if (quotes) CNT(K_TEXT_QUOTE); }
        } else {
            if (dlen > full || dlen <= dl || dbuf[dl] != ';' || memcmp(dbuf + dl + 1, m.text, dlen - dl - 1) != 0)
                fail(h, dlen == dl ? "C10:systerr-text-missing" : "C10:systerr-long-text-differs", "SYST:ERR?: error %d was pushed with a text of %zu characters; the answer [%zu] is not a prefix of description;text", (int) m.code, m.len, dlen);
            else CNT(K_SYST_LIMITED);
        }
    }
    if (had && rq_count(&h->q) == 0) cb[ncb++] = 0;
    note_callbacks(h, cb, ncb);
}

static void do_clear(hist_t * h) {
    rq_entry_t dropped[RQ_MAX_CAP]; int n, i;
    int16_t cb[1]; int ncb = 0;
    vh_ctx_clear_capture(h->v);
    SCPI_ErrorClear(h->ctx);
    n = rq_clear(&h->q, dropped);
    CNT(K_CLEAR);
    for (i = 0; i < n; i++) if (dropped[i].has_text) CNT(K_DROP_CLEAR_TEXT);
    if (n) cb[ncb++] = 0;
    note_callbacks(h, cb, ncb);
}

static void do_count(hist_t * h) {
    long val = -1; int32_t c;
    c = SCPI_ErrorCount(h->ctx); CNT(K_COUNT);
    if (c != rq_count(&h->q)) { fail(h, "C10:count-value", "SCPI_ErrorCount says %ld, the model queue holds %d", (long) c, rq_count(&h->q)); return; }
    vh_ctx_clear_capture(h->v);
    vh_input(h->v, "SYST:ERR:COUN?\n", 15); CNT(K_COUNTQ);
    if (!rq_read_nr1_response(h->v->out.p, h->v->out.len, &val)) fail(h, "C10:countq-malformed-response", "SYST:ERR:COUN? answered \"%s\"", vh_esc(h->v->out.p, h->v->out.len < 60 ? h->v->out.len : 60));
    else if (val != rq_count(&h->q)) fail(h, "C10:countq-value", "SYST:ERR:COUN? answered %ld, the model queue holds %d", val, rq_count(&h->q));
}

static void after_op(hist_t * h, const op_t * o) {
    int32_t c = SCPI_ErrorCount(h->ctx);
    evals_local++;
    if (c != rq_count(&h->q) && !h->dead) fail(h, o->kind <= OP_PUSHT ? "C10:count-after-push" : "C10:count-after-removal", "after %s SCPI_ErrorCount says %ld, the model queue holds %d", opnames[o->kind], (long) c, rq_count(&h->q));
#if CFG_MALLOC
    if (led.double_free) { fail(h, "C10:text-released-twice", "%s released a text that had already been released (second free of the same pointer)", opnames[o->kind]); led.double_free = 0; }
    if (led.lib_freed_client) { fail(h, "C10:library-released-client-text", "%s released a text that SCPI_ErrorPop had handed to the client", opnames[o->kind]); led.lib_freed_client = 0; }
    if (led.table_full || led.client_freed_foreign) { fprintf(stderr, "C10 harness: ledger inconsistency (full=%d foreign=%d)\n", led.table_full, led.client_freed_foreign); exit(2); }
    if (!h->dead) {
        int ql = led_count_owner(OWN_QUEUE), cl = led_count_owner(OWN_CLIENT);
        int must = rq_texts(&h->q, F_OPTIONAL, 0), opt = rq_texts(&h->q, F_OPTIONAL, F_OPTIONAL);
        CNT(K_LEDGER_CHECKS);
        if (ql > must + opt) fail(h, o->kind <= OP_PUSHT ? "C10:text-leak-on-push" : "C10:text-leak-on-removal", "after %s %d text(s) are allocated for the queue but the model queue holds %d (a dropped text was not released)", opnames[o->kind], ql, must + opt);
        else if (ql < must) fail(h, o->kind <= OP_PUSHT ? "C10:queued-text-released-on-push" : "C10:queued-text-released-on-removal", "after %s only %d text(s) are allocated for the queue but the model queue holds %d (a text still queued was released)", opnames[o->kind], ql, must);
        else if (cl != h->nheld) fail(h, "C10:client-text-accounting", "after %s the client holds %d text(s) but %d client-owned allocations are live", opnames[o->kind], h->nheld, cl);
        if (h->nheld) CNT(K_CLIENT_HELD_ACROSS_OP);
    }
#endif
}

#if !VH_ASAN
#define QGUARD 2
#endif

/* run one history on a context whose queue is empty; leaves the queue empty and the ledger clean */
static int run_history(vh_ctx_t * v, int N, const op_t * ops, int nops, int hold_max, long fail_at, scpi_error_t * qmem) {
    hist_t h; int i; op_t fin;
    memset(&h, 0, sizeof h);
    h.v = v; h.ctx = v->ctx; h.N = N; h.ops = ops; h.nops = nops; h.hold_max = hold_max;
    rq_init(&h.q, N);
    SCPI_ErrorInit(v->ctx, qmem, (int16_t) N);
    led.client = 0; led.calls = 0; led.fired = 0; led.double_free = led.lib_freed_client = led.client_freed_foreign = led.table_full = 0;
    led.on = 1; led.fail_at = fail_at;
    CNT(K_HIST); if (fail_at) CNT(K_HIST_FAULT);
    for (i = 0; i < nops && !h.dead; i++) {
        const op_t * o = &ops[i];
        h.cur = i;
        switch (o->kind) {
            case OP_PUSH: case OP_PUSHT: do_push(&h, o); break;
            case OP_POP: do_pop(&h); break;
            case OP_SYST: do_syst(&h, o); break;
            case OP_CLEAR: do_clear(&h); break;
            case OP_REQUEUE:
                /* the application gives the queue new storage at run time (grows it): the old array is released FIRST, then SCPI_ErrorInit is
                 * called on the live context. Only done while no queued entry owns a text (those texts would be the application's to release). */
                if (rq_texts(&h.q, F_OPTIONAL, 0) + rq_texts(&h.q, F_OPTIONAL, F_OPTIONAL) == 0) {
                    scpi_error_t * nq;
                    led.on = 0;
                    nq = (scpi_error_t *) malloc(sizeof(scpi_error_t) * (size_t) N);
                    if (h.own_q) { memset(h.own_q, 0xDD, sizeof(scpi_error_t) * (size_t) N); free(h.own_q); }
                    memset(nq, 0xEE, sizeof(scpi_error_t) * (size_t) N);
                    led.on = 1;
                    SCPI_ErrorInit(v->ctx, nq, (int16_t) N);
                    h.own_q = nq; rq_init(&h.q, N);
                    CNT(K_REQUEUE);
                }
                break;
            default: do_count(&h); break;
        }
        after_op(&h, o);
    }
    if (h.q.n_push - h.q.n_overflow > (uint64_t) N) CNT(K_WRAP); /* more entries stored than slots: the ring indices wrapped */
    /* quiescence: clear the queue, the client releases what it holds, nothing may stay allocated */
    memset(&fin, 0, sizeof fin); fin.kind = OP_CLEAR;
    if (!h.dead) { h.cur = nops - 1; do_clear(&h); after_op(&h, &fin); }
    while (!h.dead && h.nheld) client_release(&h, 0);
    /* after a violation the library state is not trusted any more (a clear could loop): the queue is re-initialised
     * by the next history and every text the ledger still knows is released below */
#if CFG_MALLOC
    if (!h.dead) {
        if (led_nlive) fail(&h, "C10:text-leak-at-quiescence", "queue cleared and client released everything, but %d text allocation(s) are still live (first: \"%s\")", led_nlive, vh_esc(led_live[0].p, led_live[0].len < 40 ? led_live[0].len : 40));
        else CNT(K_QUIESCENT_OK);
    }
    led.on = 0;
    while (led_nlive) { led_nlive--; __real_free(led_live[led_nlive].p); }
    led_flush_quarantine();
#endif
    led.on = 0; led.fail_at = 0;
    if (h.own_q) { SCPI_ErrorInit(v->ctx, qmem, (int16_t) N); free(h.own_q); }
    return h.faults;
}

/* queue memory: exact-size malloc under ASan (from the kit), guard entries in the plain build */
typedef struct { vh_ctx_t * v; scpi_error_t * qmem; scpi_error_t * qblock; int N; } rig_t;
static void rig_open(rig_t * r, int N) {
    r->N = N;
    r->v = vh_ctx_new(cmds, 64, N, 0);
    r->v->log_enabled = 0;
#if VH_ASAN
    r->qblock = NULL; r->qmem = r->v->queue;
#else
    r->qblock = (scpi_error_t *) malloc(sizeof(scpi_error_t) * (size_t) (N + 2 * QGUARD));
    memset(r->qblock, 0xE7, sizeof(scpi_error_t) * (size_t) (N + 2 * QGUARD));
    r->qmem = r->qblock + QGUARD;
#endif
}
static void rig_close(rig_t * r) {
#if !VH_ASAN
    size_t i; const unsigned char * a = (const unsigned char *) r->qblock, * b = (const unsigned char *) (r->qmem + r->N);
    for (i = 0; i < sizeof(scpi_error_t) * QGUARD; i++) if (a[i] != 0xE7 || b[i] != 0xE7) { vh_violation("C10:queue-storage-overrun", "the library wrote outside the %d-entry queue array handed to SCPI_Init (guard byte %zu %s the array changed)", r->N, i, a[i] != 0xE7 ? "before" : "after"); break; }
    free(r->qblock);
#endif
    SCPI_ErrorInit(r->v->ctx, r->v->queue, (int16_t) r->N);
    vh_ctx_free(r->v);
}

/* ---- phase 0: exhaustive histories over a 7-letter alphabet ----------------------------------------------- */
#define ALPHA 7
#define PREFIX 3
static const char txt_short[] = "xy";
static const char txt_quote[] = "p\"q";
static int enum_len(int thorough) {
#if VH_ASAN
    return thorough ? 8 : 7;
#else
    return thorough ? 9 : 7;
#endif
}
static uint64_t ipow(uint64_t b, int e) { uint64_t r = 1; while (e-- > 0) r *= b; return r; }
static uint64_t p0_count(int thorough) { (void) thorough; return 4 * ipow(ALPHA, PREFIX); }

static void letter(op_t * o, int a, uint64_t salt) {
    memset(o, 0, sizeof *o);
    switch (a) {
        case 0: o->kind = OP_PUSH; o->code = (salt % 4 == 1) ? 0 : -100; break; /* 0 is a code like any other: an entry, counted, popped, cleared */
        case 1: o->kind = OP_PUSHT; o->code = -200; o->text = txt_short; o->len = 2; break;
        case 2: o->kind = OP_PUSHT; o->code = -100; o->text = txt_quote; o->len = 3; break;
        case 3: o->kind = OP_POP; break;
        case 4: o->kind = OP_SYST; break;
        case 5: o->kind = OP_CLEAR; break;
        default: o->kind = OP_COUNT; break;
    }
    if (o->kind == OP_PUSHT) { o->mode = (uint8_t) (salt % M__N); o->aux = (uint8_t) (salt % 3); }
    if (o->kind == OP_SYST) o->aux = (uint8_t) (salt & 3);
}

static void p0_run(uint64_t idx, vh_rng_t * rng) {
    int L = enum_len(vh_args.thorough), N = 1 + (int) (idx % 4), i;
    uint64_t pre = idx / 4, nsuf = ipow(ALPHA, L - PREFIX), s;
    int digits[16]; op_t ops[16]; rig_t rig;
    (void) rng;
    for (i = PREFIX - 1; i >= 0; i--) { digits[i] = (int) (pre % ALPHA); pre /= ALPHA; }
    vh_case_desc("exhaustive histories of length %d, capacity %d, prefix letters %d%d%d (0 push,1 push+text,2 push+quoted text,3 errorpop,4 SYST:ERR?,5 clear,6 count)", L, N, digits[0], digits[1], digits[2]);
    vh_watchdog(vh_args.thorough ? 60 : 10);
    rig_open(&rig, N);
    for (s = 0; s < nsuf; s++) {
        uint64_t t = s; long calls, k; int hold = (int) ((s + idx) % 3);
        vh_sub = s;
        for (i = L - 1; i >= PREFIX; i--) { digits[i] = (int) (t % ALPHA); t /= ALPHA; }
        for (i = 0; i < L; i++) letter(&ops[i], digits[i], s + idx + (uint64_t) i);
        run_history(rig.v, N, ops, L, hold, 0, rig.qmem);
        calls = led.calls;
        /* every failpoint of this history: the k-th text allocation fails */
        for (k = 1; k <= calls; k++) {
            if (!run_history(rig.v, N, ops, L, hold, k, rig.qmem)) CNT(K_INJECT_UNREACHED);
        }
        if ((s & 63) == 0) vh_distinct(vh_hash_u64(s, vh_hash_u64(idx, 0x10)));
        if (vh_violations() > 60) break; /* enough witnesses; a broken library may also hang in later histories */
    }
    if (idx % 97 == 5 && vh_want_sample()) {
        vh_buf_t b = { 0 }; hist_t h; memset(&h, 0, sizeof h); h.N = N; h.ops = ops; h.nops = L; h.cur = L - 1; h.hold_max = 0;
        describe(&h, &b);
        vh_sample("last history of block %llu (plus one run per failing text allocation): %s", (unsigned long long) idx, vh_buf_cstr(&b));
        vh_buf_free(&b);
    }
    rig_close(&rig);
    flush_counts();
}

/* ---- phase 1: random long histories ------------------------------------------------------------------------- */
static uint64_t p1_count(int thorough) {
#if VH_ASAN
    return vh_scaled(thorough ? 4000 : 500);
#else
    return vh_scaled(thorough ? 20000 : 2500);
#endif
}

static size_t rnd_len(vh_rng_t * rng) {
    switch (vh_below(rng, 20)) {
        case 0: case 1: case 2: case 3: return vh_below(rng, 4);
        case 4: case 5: case 6: case 7: case 8: case 9: case 10: case 11: return 1 + vh_below(rng, 40);
        case 12: return 254 + vh_below(rng, 3);
        case 13: case 14: return 225 + vh_below(rng, 40);
        default: return vh_below(rng, 301);
    }
}
static const int16_t rnd_codes[] = { -100, -113, -200, -222, -310, -350, -410, -500, 1, 2, 100, 32767, -32768, -1, -999, 0, 0 };

static void p1_run(uint64_t idx, vh_rng_t * rng) {
    int N, nops, i, charset, hold, pw_push, p_text, p_fail_num;
    op_t * ops; size_t * offs; vh_buf_t arena = { 0 }; rig_t rig;
    uint64_t hsh = VH_HASH_INIT;
    switch (vh_below(rng, 10)) { case 0: case 1: case 2: case 3: case 4: N = 1 + (int) vh_below(rng, 4); break; case 5: case 6: case 7: case 8: N = 5 + (int) vh_below(rng, 12); break; default: N = 17 + (int) vh_below(rng, RQ_MAX_CAP - 16); break; }
    nops = vh_chance(rng, 1, 4) ? 2000 + (int) vh_below(rng, 8001) : 5 + (int) vh_below(rng, 300);
    charset = (int) vh_below(rng, 4);
    hold = (int) vh_below(rng, HOLD_MAX + 1);
    pw_push = 25 + 15 * (int) vh_below(rng, 4);           /* 25..70 % pushes */
    p_text = 20 + 20 * (int) vh_below(rng, 4);            /* 20..80 % of the pushes carry text */
    p_fail_num = (int[]) { 0, 0, 1, 4 }[vh_below(rng, 4)]; /* of 8 */
    ops = (op_t *) calloc((size_t) nops, sizeof *ops); offs = (size_t *) calloc((size_t) nops, sizeof *offs);
    for (i = 0; i < nops; i++) {
        op_t * o = &ops[i];
        if ((int) vh_below(rng, 100) < pw_push) {
            o->code = rnd_codes[vh_below(rng, sizeof rnd_codes / sizeof rnd_codes[0])];
            if ((int) vh_below(rng, 100) < p_text) {
                size_t len = rnd_len(rng), j;
                o->kind = OP_PUSHT; o->len = len; offs[i] = arena.len;
                for (j = 0; j < len; j++) {
                    int c;
                    switch (charset) {
                        case 0: c = 'a' + (int) vh_below(rng, 26); break;
                        case 1: c = vh_chance(rng, 1, 6) ? '"' : (int) (32 + vh_below(rng, 95)); break;
                        case 2: c = 1 + (int) vh_below(rng, 255); break;
                        default: c = vh_chance(rng, 1, 2) ? '"' : (vh_chance(rng, 1, 3) ? ';' : 'A' + (int) vh_below(rng, 26)); break;
                    }
                    vh_buf_addc(&arena, c);
                }
                if (len == 0) o->mode = vh_chance(rng, 1, 2) ? M_AUTO : M_NULSHORT;
                else o->mode = (uint8_t) vh_below(rng, M__N);
                o->aux = (uint8_t) vh_below(rng, 9);
                if (CFG_MALLOC && p_fail_num && (int) vh_below(rng, 8) < p_fail_num) o->fail = 1;
            } else o->kind = OP_PUSH;
        } else {
            switch (vh_below(rng, 12)) {
                case 0: o->kind = OP_CLEAR; if (vh_chance(rng, 2, 3)) o->kind = OP_COUNT; break;
                case 1: o->kind = vh_chance(rng, 1, 3) ? OP_REQUEUE : OP_COUNT; break;
                case 2: case 3: case 4: case 5: case 6: o->kind = OP_POP; break;
                default: o->kind = OP_SYST; o->aux = (uint8_t) vh_below(rng, 4); break;
            }
        }
        hsh = vh_hash_u64(((uint64_t) o->kind << 32) ^ ((uint64_t) (uint16_t) o->code << 16) ^ o->len, hsh);
    }
    vh_buf_addc(&arena, 0);
    for (i = 0; i < nops; i++) if (ops[i].kind == OP_PUSHT) ops[i].text = arena.p + offs[i];
    vh_case_desc("random history: %d operations, capacity %d, charset %d, client keeps %d, %d%% pushes, %d%% with text, allocation fails %d/8", nops, N, charset, hold, pw_push, p_text, p_fail_num);
    vh_watchdog(vh_args.thorough ? 60 : 10);
    rig_open(&rig, N);
    run_history(rig.v, N, ops, nops, hold, 0, rig.qmem);
    rig_close(&rig);
    vh_distinct(vh_hash_u64((uint64_t) N, hsh));
    if (vh_want_sample()) vh_sample("random history: %d operations on capacity %d (charset %d, client keeps %d texts, %d%% pushes, %d%% with text, allocation failure rate %d/8)", nops, N, charset, hold, pw_push, p_text, p_fail_num);
    vh_buf_free(&arena); free(ops); free(offs);
    flush_counts();
}

/* ---- phase "large": capacities far beyond the enumerated ones, up to the int16_t limit of the queue size --------------------
 * Own small model (ring of codes / text ids); the ownership ledger is off here, leaks are found by LeakSanitizer's recoverable
 * check at the end of the case (queue storage wiped first so that stale pointers in dead slots do not hide them), writes outside
 * the queue array by ASan on the exact-size allocation. */
static uint64_t pL_count(int thorough) { return thorough ? 64 : 20; }
static void pL_run(uint64_t idx, vh_rng_t * rng) {
    static const int caps[] = { 255, 256, 257, 300, 511, 1000, 16383, 16384, 16385, 20000, 32766, 32767, 5000, 129, 128, 4096, 65, 100, 30000, 16390 };
    int C = caps[idx % 20]; vh_ctx_t * v; int16_t * mcode; unsigned char * mtxt; long head = 0, cnt = 0, i, seq = 0, rot, texts_every; char key[96];
    scpi_error_t e; char tb[24];
    led.on = 0; led.fail_at = 0;
    vh_case_desc("large queue: capacity %d", C);
    v = vh_ctx_new(cmds, 64, C, 0); v->log_enabled = 0;
    mcode = (int16_t *) malloc(sizeof(int16_t) * (size_t) C); mtxt = (unsigned char *) malloc((size_t) C);
    texts_every = C > 5000 ? 7 : 1 + (long) vh_below(rng, 3);
    /* 1. rotate the ring so that the indices are somewhere in the middle - for the biggest queues so far that wr + size - 1 passes 32767 */
    rot = C > 16384 ? (32769 - C) + (long) vh_below(rng, 50) : (long) vh_below(rng, (uint32_t) C);
    if (rot > C) rot = C;
    for (i = 0; i < rot; i++) SCPI_ErrorPush(v->ctx, (int16_t) (100 + i % 50));
    for (i = 0; i < rot; i++) { SCPI_ErrorPop(v->ctx, &e); if (e.error_code != (int16_t) (100 + i % 50)) { vh_violation("C10:large-queue-pop-order", "capacity %d: rotation pop %ld gave %d", C, i, e.error_code); break; } }
#define PUSH_ONE() do { int16_t code = (int16_t) (1 + seq % 30000); int wt = (seq % texts_every) == 0; \
        if (wt) { int n = snprintf(tb, sizeof tb, "t%ld", seq); SCPI_ErrorPushEx(v->ctx, code, tb, (size_t) n); } else SCPI_ErrorPush(v->ctx, code); \
        if (cnt < C) { long at = (head + cnt) % C; mcode[at] = code; mtxt[at] = (unsigned char) (wt && USE_DEVICE_DEPENDENT_ERROR_INFORMATION); cnt++; } \
        else { long at = (head + cnt - 1) % C; mcode[at] = -350; mtxt[at] = 0; } \
        seq++; } while (0)
    /* 2. fill completely, 3. overflow a few times */
    for (i = 0; i < C; i++) PUSH_ONE();
    if (SCPI_ErrorCount(v->ctx) != C) vh_violation("C10:large-queue-count", "capacity %d: count %ld after filling", C, (long) SCPI_ErrorCount(v->ctx));
    for (i = 0; i < 3; i++) PUSH_ONE();
    if (SCPI_ErrorCount(v->ctx) != C) vh_violation("C10:large-queue-count", "capacity %d: count %ld after overflow", C, (long) SCPI_ErrorCount(v->ctx));
    vh_eval((uint64_t) (2 * rot + C + 3));
    /* 4. clear, or pop part and clear, or drain by popping - compare every popped entry */
    {
        int mode = (int) (idx / 20 + vh_below(rng, 3)) % 3; long npop = mode == 0 ? 0 : (mode == 1 ? cnt / 2 : cnt);
        for (i = 0; i < npop; i++) {
            long at = head % C;
            SCPI_ErrorPop(v->ctx, &e);
            if (e.error_code != mcode[at]) { snprintf(key, sizeof key, "C10:large-queue-pop-order"); vh_violation(key, "capacity %d: pop %ld of %ld gave code %d, model %d", C, i, npop, e.error_code, mcode[at]); break; }
#if USE_DEVICE_DEPENDENT_ERROR_INFORMATION
            if ((e.device_dependent_info != NULL) != (mtxt[at] != 0)) { vh_violation("C10:large-queue-text-presence", "capacity %d: pop %ld code %d text %s, model %s", C, i, e.error_code, e.device_dependent_info ? "present" : "absent", mtxt[at] ? "present" : "absent"); }
            free(e.device_dependent_info);
#endif
            head++; cnt--;
        }
        vh_eval((uint64_t) npop);
        if (SCPI_ErrorCount(v->ctx) != cnt) vh_violation("C10:large-queue-count", "capacity %d: count %ld, model %ld", C, (long) SCPI_ErrorCount(v->ctx), cnt);
        SCPI_ErrorClear(v->ctx);
        if (SCPI_ErrorCount(v->ctx) != 0) vh_violation("C10:large-queue-count", "capacity %d: count %ld after clear", C, (long) SCPI_ErrorCount(v->ctx));
        SCPI_ErrorPop(v->ctx, &e);
        if (e.error_code != 0) vh_violation("C10:large-queue-pop-order", "capacity %d: pop on the cleared queue gave %d", C, e.error_code);
        vh_count(mode == 0 ? "large.cleared_while_full" : mode == 1 ? "large.half_popped_then_cleared" : "large.drained_by_pop", 1);
    }
    /* 5. nothing may be left allocated: dead slots are wiped so that stale pointers in them do not keep leaked texts reachable */
    memset(v->queue, 0, sizeof(scpi_error_t) * (size_t) C);
#if VH_ASAN
    if (__lsan_do_recoverable_leak_check()) { vh_violation("C10:text-leak-large-queue", "capacity %d, a text every %ld entries: LeakSanitizer reports unreleased blocks after the queue was cleared", C, texts_every); }
    else vh_count("large.leak_checks_clean", 1);
#endif
    vh_count("large.cases", 1);
    if (C >= 256) vh_count("large.capacity_ge_256", 1);
    if (C > 16384) vh_count("large.capacity_gt_16384", 1);
    vh_distinct(vh_hash_u64((uint64_t) C * 1000 + (uint64_t) rot, 77));
    if (vh_want_sample()) vh_sample("large queue capacity %d: rotate %ld, fill, overflow x3, pop/clear; codes, order, counts and (ASan) leak check", C, rot);
    free(mcode); free(mtxt);
    vh_ctx_free(v);
}

/* ---- phase "uptime": ONE queue that is never cleared or re-initialised serves far more errors than any index type of its bookkeeping counts
 * (an instrument that has been up for weeks): a few entries stay pending all the time, every entry must come back in order with its own text.
 * quick: 70000 errors (past 2^16); thorough, default flavour: 2^32 + 2^17 errors (past 2^32), capacity not a power of two. ------------------ */
static uint64_t pU_count(int thorough) { (void) thorough; return 4; }
static void pU_run(uint64_t idx, vh_rng_t * rng) {
    static const int caps[4] = { 3, 5, 17, 6 };
    int N = caps[idx & 3], pending = 0, keep = 2 + (int) (idx & 1); uint64_t total, i, next_pop = 0; vh_ctx_t * v; char t[24]; int bad = 0;
    (void) rng;
    total = 70000;
    if (vh_args.thorough && VH_FLAVOUR_DEFAULT && !VH_ASAN && idx == 2) total = (1ull << 32) + (1ull << 17);
    vh_case_desc("uptime: %llu errors through one queue of capacity %d, %d pending", (unsigned long long) total, N, keep);
    vh_watchdog(3600);
    v = vh_ctx_new(cmds, 64, N, 0); v->log_enabled = 0;
    for (i = 0; i < total + (uint64_t) keep && !bad; i++) {
        if (i < total) {
            int16_t code = (int16_t) (-100 - (int) (i % 300));
#if CFG_TEXT
            int n = snprintf(t, sizeof t, "e%llu", (unsigned long long) i);
            SCPI_ErrorPushEx(v->ctx, code, t, (size_t) n);
#else
            (void) t; SCPI_ErrorPush(v->ctx, code);
#endif
            pending++;
        }
        while (pending > (i < total ? keep : 0)) {
            scpi_error_t e; int16_t want = (int16_t) (-100 - (int) (next_pop % 300));
            memset(&e, 0xA5, sizeof e);
            SCPI_ErrorPop(v->ctx, &e);
            if (e.error_code != want) { vh_violation("C10:order-lost-after-many-errors", "capacity %d, never cleared: entry number %llu came back with code %d, pushed was %d", N, (unsigned long long) next_pop, (int) e.error_code, (int) want); bad = 1; }
#if CFG_TEXT
            else {
                char w[24]; snprintf(w, sizeof w, "e%llu", (unsigned long long) next_pop);
                if (!e.device_dependent_info || strcmp(e.device_dependent_info, w) != 0) { vh_violation("C10:text-of-another-error-after-many-errors", "capacity %d, never cleared: entry number %llu (code %d) came back with text \"%s\", pushed was \"%s\"", N, (unsigned long long) next_pop, (int) want, e.device_dependent_info ? e.device_dependent_info : "(none)", w); bad = 1; }
            }
#if CFG_MALLOC
            if (!bad) free(e.device_dependent_info);
#endif
#endif
            next_pop++; pending--;
            if (bad) break;
        }
        if ((i & 0xffffff) == 0) vh_watchdog(3600);
    }
    vh_eval(total);
    vh_count(total > 100000 ? "uptime.queue_served_more_than_2^32_errors" : "uptime.queue_served_70000_errors", 1);
    if (bad) SCPI_ErrorInit(v->ctx, v->queue, (int16_t) N); /* do not walk a queue that is known to be inconsistent */
    vh_ctx_free(v);
}

int main(int argc, char ** argv) {
    static const vh_phase_t phases[] = {
        { "enumerated", p0_count, p0_run },
        { "random", p1_count, p1_run },
        { "large", pL_count, pL_run },
        { "uptime", pU_count, pU_run },
    };
    vh_require("overflow.events");
    vh_require("overflow.marker_popped");
    vh_require("history.ring_wraparound"); vh_require("uptime.queue_served_70000_errors"); vh_require("op.queue_storage_replaced_on_live_context");
    vh_require("op.errorpop_on_empty");
    vh_require("op.syst_err_on_empty");
#if CFG_TEXT
    vh_require("text.returned_intact_errorpop");
    vh_require("text.returned_intact_syst_err");
    vh_require("text.with_quote_roundtrip");
    vh_require("ledger.strndup_calls");
    vh_require("ledger.text_freed_by_library");
    vh_require("ledger.text_freed_by_client");
    vh_require("ownership.text_dropped_on_overflow");
    vh_require("ownership.text_dropped_on_clear");
    vh_require("ownership.quiescent_ledger_empty");
    vh_require("ownership.client_held_across_operation");
    vh_require("fault.allocation_failure_injected");
    vh_require("fault.error_queued_without_text");
    vh_require("push.explicit_len_unterminated");
    vh_require("push.automatic_len");
#endif
    vh_require("large.cases"); vh_require("large.capacity_gt_16384");
    return vh_main(argc, argv, "C10", phases, 4);
}
