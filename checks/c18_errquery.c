/* C18 - the error query always yields one well-formed, bounded error response.
 *
 * Oracle (written from the property statement and IEEE 488.2 <STRING RESPONSE DATA>, not from
 * SCPI_ResultError): the bytes captured for one "SYST:ERR?" are read by an independent string reader
 *     [sign] digits , " { any byte except a lone " | "" } " <line ending> <end of output>
 * and then
 *   (1) the number equals the pushed code and nothing precedes/follows the single item pair + line ending,
 *   (2) the unescaped content is a prefix of description;text (description alone when no text was given),
 *   (3) the content between the outer quotes (a doubled quote counts 2) is <= 255 characters,
 *   (4) if it was cut, the next source character would not have fitted (cost 2 for a quote, 1 otherwise),
 *   (5) the entry is consumed: count decreases by one, the next query returns the next entry / 0,"No error".
 * description: own table expanded from LIST_OF_ERRORS (scpi/error.h); codes outside the table must carry one
 * fixed, non-empty fallback description.
 * The statement is silent about a text that is present but empty: `description` and `description;` are both
 * accepted (counted separately), and about flushes (counted, not asserted). */
#include "vh_scpi.h"
#include <stdio.h>
#include <stdlib.h>
#include <string.h>

#define LIMIT 255u          /* from the property statement */
#define HEAP_SIZE 1024u
#define QUEUE_LEN 8
#define MAXTEXT 1100

static const scpi_command_t cmds[] = {
    { .pattern = "SYSTem:ERRor[:NEXT]?", .callback = SCPI_SystemErrorNextQ },
    { .pattern = "SYSTem:ERRor:COUNt?", .callback = SCPI_SystemErrorCountQ },
    SCPI_CMD_LIST_END
};

/* ---- own description table (from the list in error.h) ------------------------------------------- */
typedef struct { int val; const char * str; } desc_t;
static const desc_t desc_tab[] = {
#define X(def, val, str) { val, str },
#if USE_FULL_ERROR_LIST
#define XE X
#else
#define XE(def, val, str)
#endif
    LIST_OF_ERRORS
#if USE_USER_ERROR_LIST
    LIST_OF_USER_ERRORS
#endif
#undef X
#undef XE
};
#define NDESC ((int) (sizeof desc_tab / sizeof desc_tab[0]))

static const char * table_desc(int code) {
    int i;
    for (i = 0; i < NDESC; i++) if (desc_tab[i].val == code) return desc_tab[i].str;
    return NULL;
}

static const char * fallback_desc = NULL; /* established once per process from a code outside the table */
static int16_t fallback_probe_code = 0;
static void establish_fallback(void) {
    int c;
    if (fallback_desc) return;
    for (c = 12345; c < 32767; c++) if (!table_desc(c)) break;
    fallback_probe_code = (int16_t) c;
    fallback_desc = SCPI_ErrorTranslate((int16_t) c);
    if (!fallback_desc || !*fallback_desc) {
        vh_violation("C18:fallback-description-empty", "SCPI_ErrorTranslate(%d) (code without table entry) returned %s: there is no fallback description", c, fallback_desc ? "\"\"" : "NULL");
        if (!fallback_desc) fallback_desc = "";
    }
}
static const char * expected_desc(int code, int * is_fallback) {
    const char * d = table_desc(code);
    if (is_fallback) *is_fallback = d ? 0 : 1;
    return d ? d : fallback_desc;
}

/* ---- local counters (flushed once per case) ------------------------------------------------------ */
enum { K_QUERY, K_TEXT, K_NOTEXT, K_EMPTY_SEMI, K_EMPTY_NOSEMI, K_CUT, K_COMPLETE, K_COMPLETE_FULL, K_CUT_QUOTE_ONE_LEFT, K_CUT_FULL, K_LASTQUOTE_AT_LIMIT,
       K_CUT_IN_DESC_SEP, K_DESC_TABLE, K_DESC_FALLBACK, K_EXPLICIT, K_AUTO, K_AUTO_STORE_CUT, K_QUOTES_DOUBLED, K_Q0, K_Q1, K_Q2, K_Q3, K_QMANY,
       K_8BIT, K_8BIT_HOLD, K_8BIT_DEVIATE, K_CTRL, K_PUNCT, K_SECOND_EMPTY, K_NEXT_ENTRY, K_COUNT_DEC, K_COUNTQ, K_HEAP_WRAPPED, K_HEAP_WRAP_NEAR_CUT, K_HEAP_WRAP_EMPTY2,
       K_HEAP_WRAP_QUOTE_SPLIT, K_HEAP_WRAP_BEFORE_CUT, K_FLUSH_ONE, K_FLUSH_OTHER, K_TRANSLATE_AGREES, K_REENT_ERR, K_REENT_WR, K_REENT_DROPPED, K__N };
static const char * const knames[K__N] = { "query", "text.present", "text.none", "text.empty.semicolon_emitted", "text.empty.description_only", "content.cut", "content.complete",
    "content.complete_exactly_at_limit", "cut.quote_at_limit_one_slot_left", "cut.all_slots_used", "cut.doubled_quote_ends_exactly_at_limit", "cut.would_cut_separator", "desc.table", "desc.fallback",
    "push.explicit_length", "push.automatic_length", "push.automatic_length_stored_cut", "content.quotes_doubled", "text.quotes.0", "text.quotes.1", "text.quotes.2", "text.quotes.3",
    "text.quotes.more", "text.8bit", "text.8bit.prefix_and_cut_rules_hold", "text.8bit.prefix_or_cut_rule_deviates", "text.control_chars", "text.punctuation",
    "second_query.no_error", "order.next_entry_after_pop", "consumed.count_decreased", "count_query.agrees", "heap.wrapped_text", "heap.wrapped_near_cut", "heap.wrapped_second_part_empty",
    "heap.wrapped_quote_at_split", "heap.wrapped_before_cut", "flush.exactly_one", "flush.other", "translate.agrees_with_table",
    "reentrant.error_pushed_from_error_callback_during_query", "reentrant.error_pushed_from_write_callback_during_query", "reentrant.text_dropped_for_lack_of_heap_space" };
static uint64_t kc[K__N];
static void kflush(void) { int i; for (i = 0; i < K__N; i++) if (kc[i]) { vh_count(knames[i], kc[i]); kc[i] = 0; } }

/* ---- independent 488.2 string response reader ---------------------------------------------------- */
static const char LE[] = SCPI_LINE_ENDING;
typedef struct { const char * why; long code; size_t raw_len, clen; unsigned char content[2048]; } resp_t;

/* returns NULL when well formed, else a short reason (static text, no input data) */
static const char * read_response(const char * o, size_t n, resp_t * r) {
    size_t i = 0, nd = 0, start; long val = 0; int neg = 0;
    r->raw_len = r->clen = 0; r->code = 0;
    if (i < n && (o[i] == '-' || o[i] == '+')) { neg = o[i] == '-'; i++; }
    while (i < n && o[i] >= '0' && o[i] <= '9' && nd < 9) { val = val * 10 + (o[i] - '0'); i++; nd++; }
    if (nd == 0) return "no-number";
    r->code = neg ? -val : val;
    if (i >= n || o[i] != ',') return "no-comma-after-number";
    i++;
    if (i >= n || o[i] != '"') return "no-opening-quote";
    i++;
    start = i;
    for (;;) {
        if (i >= n) return "unterminated-string";
        if (o[i] == '"') {
            if (i + 1 < n && o[i + 1] == '"') { if (r->clen < sizeof r->content) r->content[r->clen++] = '"'; i += 2; continue; }
            break;
        }
        if (r->clen < sizeof r->content) r->content[r->clen++] = (unsigned char) o[i];
        i++;
    }
    r->raw_len = i - start;
    i++;
    if (n - i < sizeof LE - 1 || memcmp(o + i, LE, sizeof LE - 1) != 0) return i == n ? "no-line-ending" : "data-after-string";
    i += sizeof LE - 1;
    if (i != n) return "data-after-line-ending";
    return NULL;
}

/* ---- one query and its verdict -------------------------------------------------------------------- */
enum { T_NONE, T_EMPTY, T_TEXT };
typedef struct {
    int code;
    int tstate;
    const unsigned char * text; size_t tlen;   /* stored text expected (already cut at 255 for the automatic-length path) */
    int explicit_len;
    int has8bit;
    const char * flow;                          /* description of how the entry got there */
    long heap_split;                            /* >= 0: offset in the text where the heap copy wraps (heap config) */
} entry_t;

static const char * const spellings[] = { "SYST:ERR?\n", "SYSTem:ERRor:NEXT?\n", "syst:err:next?\n", "SYST:ERR?\r\n", ":SYSTEM:ERROR?\n" };

static void describe(vh_buf_t * b, const entry_t * e, vh_ctx_t * v) {
    vh_buf_printf(b, "code %d, %s, text ", e->code, e->explicit_len ? "explicit length" : "automatic length");
    if (e->tstate == T_NONE) vh_buf_adds(b, "NULL");
    else { vh_buf_printf(b, "(%zu bytes) \"", e->tlen); vh_buf_adds(b, vh_esc(e->text, e->tlen)); vh_buf_adds(b, "\""); }
    if (e->heap_split >= 0) vh_buf_printf(b, ", heap copy wraps after %ld bytes", e->heap_split);
    vh_buf_printf(b, " [%s] -> response \"%s\"", e->flow, vh_esc(v->out.p, v->out.len));
}
#define VIOL(key, what) do { vh_buf_t b_ = { 0, 0, 0 }; describe(&b_, e, v); vh_violation(key, "%s: %s", what, vh_buf_cstr(&b_)); vh_buf_free(&b_); } while (0)

/* re-entrant use: an application may report a problem of its own (SCPI_ErrorPushEx) from inside the callbacks the library invokes while
 * it answers the query - the write callback (transport trouble) or the error callback (invoked with 0 when the queue drains). The
 * response being written must still be the one of the entry being reported, and the entry pushed meanwhile must come back intact. */
static int reent_mode, reent_pushed; static scpi_t * reent_ctx; /* 1: from the error callback called with 0; 2: from the first write of the response */
static const char reent_text[] = "pushed \"inside\" a callback";
static void reent_push(scpi_t * c) { if (reent_pushed || c != reent_ctx) return; reent_pushed = 1; SCPI_ErrorPushEx(c, -360, (char *) reent_text, 0); }
static void reent_on_error(scpi_t * c, int err) { if (reent_mode == 1 && err == 0) reent_push(c); }
static void reent_on_write(scpi_t * c, const char * d, size_t n) { (void) d; (void) n; if (reent_mode == 2) reent_push(c); }

/* sends the query; e == NULL means the queue is expected to be empty */
static unsigned qserial;
static vh_buf_t last_resp; /* response to the most recent query for a pushed entry (samples only) */
static void query_and_check(vh_ctx_t * v, const entry_t * e_in) {
    static resp_t r;
    static unsigned char S[640 + 1 + MAXTEXT + 4]; /* description (user error lists may have long ones) ; text */
    entry_t none; const entry_t * e = e_in;
    const char * sp = spellings[qserial++ % (sizeof spellings / sizeof spellings[0])];
    const char * why, * desc; int is_fb = 0;
    size_t dlen, slen, n, used, i;
    int32_t before, after;

    if (!e) { memset(&none, 0, sizeof none); none.code = 0; none.tstate = T_NONE; none.flow = "query on empty queue"; none.heap_split = -1; e = &none; }
    vh_ctx_clear_capture(v);
    before = SCPI_ErrorCount(v->ctx);
    reent_mode = 0; reent_pushed = 0;
    if (e_in && before == 1 && qserial % 4 == 1 && QUEUE_LEN >= 2) { reent_mode = 1 + (int) ((qserial >> 2) & 1); reent_ctx = v->ctx; vh_on_error_cb = reent_on_error; vh_on_write_cb = reent_on_write; }
    vh_input(v, sp, strlen(sp));
    vh_on_error_cb = NULL; vh_on_write_cb = NULL;
    after = SCPI_ErrorCount(v->ctx) - reent_pushed;
    if (reent_pushed) {
        /* the entry pushed meanwhile is the only one left: take it out with a second query and look at it after the main checks */
        static vh_buf_t keep; static resp_t r2; const char * why2; unsigned nf = v->nflush; int waf = v->write_after_flush;
        vh_buf_reset(&keep); vh_buf_add(&keep, v->out.p, v->out.len);
        vh_ctx_clear_capture(v);
        vh_input(v, "SYST:ERR?\n", 10);
        why2 = read_response(v->out.p, v->out.len, &r2);
        int intact = !why2 && r2.code == -360 && r2.clen >= sizeof reent_text - 1 && memcmp(r2.content + r2.clen - (sizeof reent_text - 1), reent_text, sizeof reent_text - 1) == 0;
#if VH_INFO_HEAP
        /* static info heap: the text of the entry being reported still occupies the heap, the new text may not fit - then it is dropped whole (C20) */
        if (!intact && !why2 && r2.code == -360 && !memchr(r2.content, ';', r2.clen)) { intact = 1; kc[K_REENT_DROPPED]++; }
#endif
        if (!intact) {
            vh_buf_t b_ = { 0, 0, 0 }; describe(&b_, e, v);
            vh_violation("C18:entry-pushed-from-a-callback-during-the-query-damaged", "error -360 \"%s\" pushed from the %s callback while the query was answered came back as \"%s\": %s", reent_text, reent_mode == 1 ? "error(0)" : "write", vh_esc(v->out.p, v->out.len), vh_buf_cstr(&b_));
            vh_buf_free(&b_);
        }
        kc[reent_mode == 1 ? K_REENT_ERR : K_REENT_WR]++;
        SCPI_ErrorClear(v->ctx);
        vh_ctx_clear_capture(v); vh_buf_add(&v->out, keep.p, keep.len); v->nflush = nf; v->write_after_flush = waf;
    }
    vh_eval(1);
    kc[K_QUERY]++;
    if (e_in) { vh_buf_reset(&last_resp); vh_buf_add(&last_resp, v->out.p, v->out.len); }
    if (v->nflush == 1 && !v->write_after_flush) kc[K_FLUSH_ONE]++; else kc[K_FLUSH_OTHER]++;

    /* (5) consumption */
    if (e_in) {
        if (after != before - 1) VIOL("C18:entry-not-consumed", "error count did not decrease by one over the query");
        else kc[K_COUNT_DEC]++;
    } else {
        if (before != 0 || after != 0) VIOL("C18:empty-queue-count", "count not 0 around a query on an empty queue");
    }

    /* (1) one well-formed item pair */
    why = read_response(v->out.p, v->out.len, &r);
    if (why) {
        char key[96];
        snprintf(key, sizeof key, "C18:malformed-response:%s", why);
        VIOL(key, "response is not <number>,<one 488.2 string><line ending>");
        return;
    }
    if (r.code != e->code) { VIOL(e_in ? "C18:code-mismatch" : "C18:empty-queue-not-no-error", "number in the response is not the pushed code"); return; }

    /* (3) bound on the quoted content */
    if (r.raw_len > LIMIT) { VIOL("C18:quoted-content-exceeds-limit", "more than 255 characters between the outer quotes"); return; }

    desc = expected_desc(e->code, &is_fb);
    kc[is_fb ? K_DESC_FALLBACK : K_DESC_TABLE]++;
    { const char * t = SCPI_ErrorTranslate((int16_t) e->code); if (t && strcmp(t, desc) == 0) kc[K_TRANSLATE_AGREES]++; }
    dlen = strlen(desc);
    memcpy(S, desc, dlen); slen = dlen;
    if (e->tstate != T_NONE) { S[slen++] = ';'; memcpy(S + slen, e->text, e->tlen); slen += e->tlen; }

    /* longest prefix of S whose escaped form fits the limit (statement: bound + "cut as late as the limit allows") */
    for (n = 0, used = 0; n < slen; n++) { size_t cost = S[n] == '"' ? 2 : 1; if (used + cost > LIMIT) break; used += cost; }

    if (e->has8bit) {
        /* 8-bit bytes are outside 488.2 string response data: only the structural rules are asserted */
        kc[K_8BIT]++;
        if (r.clen == n && memcmp(r.content, S, n) == 0) kc[K_8BIT_HOLD]++; else kc[K_8BIT_DEVIATE]++;
        return;
    }

    /* (2) prefix of description;text */
    if (e->tstate == T_EMPTY && r.clen == dlen && memcmp(r.content, S, dlen) == 0) { kc[K_EMPTY_NOSEMI]++; return; }
    if (r.clen > slen || memcmp(r.content, S, r.clen) != 0) {
        size_t m = r.clen < dlen ? r.clen : dlen;
        if (memcmp(r.content, desc, m) != 0 || (e->tstate == T_NONE && r.clen > dlen && memcmp(r.content, desc, dlen) != 0)) VIOL(is_fb ? "C18:fallback-description-wrong" : "C18:description-wrong", "content does not start with the description of the code");
        else if (e->tstate == T_NONE) VIOL("C18:content-after-description-without-text", "no text was pushed but the content continues after the description");
        else if (r.clen > dlen && r.content[dlen] != ';') VIOL("C18:separator-wrong", "description not followed by ';'");
        else VIOL("C18:text-not-prefix", "unescaped content is not a prefix of description;text");
        return;
    }
    /* (4) cut as late as the limit allows */
    if (r.clen < n) {
        if (e->tstate == T_TEXT && r.clen == dlen) VIOL("C18:text-dropped", "a text was pushed but the response carries the description only");
        else if (r.clen < dlen) VIOL("C18:description-cut", "the description itself is cut although it fits");
        else if (S[r.clen] == '"') VIOL("C18:cut-early-before-quote", "content cut although the next quote (2 characters) would still fit");
        else VIOL("C18:cut-early", "content cut although the next character would still fit");
        return;
    }
    /* r.clen > n is impossible here: prefix + raw_len <= LIMIT */

    /* observations */
    if (e->tstate == T_NONE) kc[K_NOTEXT]++;
    else if (e->tstate == T_EMPTY) kc[K_EMPTY_SEMI]++;
    else kc[K_TEXT]++;
    if (n < slen) {
        kc[K_CUT]++;
        if (used == LIMIT) kc[K_CUT_FULL]++;
        if (used == LIMIT - 1 && S[n] == '"') kc[K_CUT_QUOTE_ONE_LEFT]++;
        if (used == LIMIT && n > 0 && S[n - 1] == '"') kc[K_LASTQUOTE_AT_LIMIT]++;
    } else {
        kc[K_COMPLETE]++;
        if (used == LIMIT) kc[K_COMPLETE_FULL]++;
    }
    for (i = 0, used = 0; i < n; i++) if (S[i] == '"') used++;
    if (used) kc[K_QUOTES_DOUBLED]++;
    if (e->heap_split >= 0) {
        /* position of the wrap in content coordinates */
        size_t at = dlen + 1 + (size_t) e->heap_split;
        kc[K_HEAP_WRAPPED]++;
        if ((size_t) e->heap_split == e->tlen) kc[K_HEAP_WRAP_EMPTY2]++;
        if (n < slen && at + 3 >= n && at <= n + 3) kc[K_HEAP_WRAP_NEAR_CUT]++;
        if (n < slen && at < n) kc[K_HEAP_WRAP_BEFORE_CUT]++;
        if (e->heap_split > 0 && ((size_t) e->heap_split < e->tlen) && (e->text[e->heap_split - 1] == '"' || e->text[e->heap_split] == '"')) kc[K_HEAP_WRAP_QUOTE_SPLIT]++;
    }
}

/* Source buffers of explicit-length pushes are exact-size everywhere in the malloc configuration.  In the static-heap
 * configuration the tree before repo commit 4fb12fa read one byte past such a text when storing it (scpiheap_strndup
 * copied the terminator position); so that such a defect is attributed to one phase ("exactsrc") instead of aborting every
 * case of the configuration, the other phases append one readable sentinel byte (a double quote) there. */
static int exact_src = !VH_INFO_HEAP;

/* ---- pushing ---------------------------------------------------------------------------------------- */
/* Pushes (code, text) the way an application would; fills *e with what the queue must now hold.
 * text == NULL: no text.  explicit_len: exact-size buffer without terminator; else NUL-terminated, length 0 passed. */
static void push_entry(vh_ctx_t * v, int code, const unsigned char * text, size_t tlen, int explicit_len, entry_t * e, const char * flow, unsigned variant) {
    size_t i;
    memset(e, 0, sizeof *e);
    e->code = code; e->flow = flow; e->heap_split = -1;
    if (!text) {
        e->tstate = T_NONE;
        switch (variant % 3) {
            case 0: SCPI_ErrorPush(v->ctx, (int16_t) code); break;
            case 1: SCPI_ErrorPushEx(v->ctx, (int16_t) code, NULL, 0); break;
            default: SCPI_ErrorPushEx(v->ctx, (int16_t) code, NULL, 1 + variant % 300); break;
        }
        return;
    }
    if (explicit_len && tlen == 0) explicit_len = 0; /* length 0 means automatic by definition */
    e->explicit_len = explicit_len;
    e->text = text;
    e->tlen = explicit_len ? tlen : (tlen > LIMIT ? LIMIT : tlen); /* automatic length looks at no more than 255 characters */
    e->tstate = e->tlen ? T_TEXT : T_EMPTY;
    for (i = 0; i < e->tlen; i++) if (text[i] >= 0x80) { e->has8bit = 1; break; }
    if (!explicit_len) { kc[K_AUTO]++; if (tlen > LIMIT) kc[K_AUTO_STORE_CUT]++; } else kc[K_EXPLICIT]++;
#if VH_INFO_HEAP
    if (e->tlen) {
        size_t rem = v->ctx->error_info_heap.size - v->ctx->error_info_heap.wr; /* workload steering / coverage only */
        if (e->tlen >= rem) e->heap_split = (long) rem;
    }
#endif
    {
        /* explicit length: exact-size buffer without terminator (one byte too far traps under ASan); see exact_src */
        size_t blen = (explicit_len && exact_src) ? tlen : tlen + 1;
        char * src = (char *) malloc(blen);
        memcpy(src, text, tlen);
        if (!explicit_len) src[tlen] = 0;
        else if (!exact_src) src[tlen] = '"'; /* readable, but must never show up in a response */
        SCPI_ErrorPushEx(v->ctx, (int16_t) code, src, explicit_len ? tlen : 0);
        memset(src, 0x5A, blen); /* the library must have taken a copy */
        free(src);
    }
}

/* ---- text generation -------------------------------------------------------------------------------- */
enum { ST_PLAIN, ST_PUNCT, ST_ASCII, ST_8BIT, ST__N };
static const char alnum[] = "abcdefghijklmnopqrstuvwxyzABCDEFGHIJKLMNOPQRSTUVWXYZ0123456789";
static const char punct[] = ";,' :?*#()@!$%&/\\<>=-+._[]{}|~^`\t";
static void gen_base(unsigned char * t, size_t L, vh_rng_t * rng, int style) {
    size_t i; unsigned salt = vh_below(rng, 62);
    for (i = 0; i < L; i++) t[i] = (unsigned char) alnum[(i + salt) % 62];
    if (style == ST_PUNCT) {
        size_t k = 1 + L / 6;
        while (k-- && L) t[vh_below(rng, (uint32_t) L)] = (unsigned char) punct[vh_below(rng, sizeof punct - 1)];
        kc[K_PUNCT]++;
    } else if (style == ST_ASCII) {
        size_t k = 1 + L / 3;
        while (k-- && L) { unsigned c = 1 + vh_below(rng, 127); if (c == '"') c = ';'; t[vh_below(rng, (uint32_t) L)] = (unsigned char) c; }
        kc[K_CTRL]++;
    } else if (style == ST_8BIT) {
        size_t k = 1 + L / 5;
        while (k-- && L) t[vh_below(rng, (uint32_t) L)] = (unsigned char) (128 + vh_below(rng, 128));
    }
}
static void count_quotes(const unsigned char * t, size_t L) {
    size_t i, q = 0;
    for (i = 0; i < L; i++) if (t[i] == '"') q++;
    kc[q == 0 ? K_Q0 : q == 1 ? K_Q1 : q == 2 ? K_Q2 : q == 3 ? K_Q3 : K_QMANY]++;
}

/* ---- flows ------------------------------------------------------------------------------------------ */
static vh_ctx_t * new_ctx(void) {
    vh_ctx_t * v = vh_ctx_new(cmds, 64, QUEUE_LEN, HEAP_SIZE);
    v->log_enabled = 0;
    establish_fallback();
    return v;
}

/* single entry in an otherwise empty queue */
static void flow_single(vh_ctx_t * v, int code, const unsigned char * text, size_t tlen, int explicit_len, int second, unsigned variant) {
    entry_t e;
    push_entry(v, code, text, tlen, explicit_len, &e, "only entry of the queue", variant);
    if (text) count_quotes(e.text, e.tlen);
    query_and_check(v, &e);
    if (second) { uint64_t bad = vh_violations(); query_and_check(v, NULL); if (vh_violations() == bad) kc[K_SECOND_EMPTY]++; }
}

/* entry queued behind two others; in the heap configuration the first filler is sized so that the write
 * cursor of the info heap stands `split` bytes before the end of the heap when the text is stored, i.e. the
 * copy wraps after `split` bytes (split in 1..tlen) */
static void flow_behind(vh_ctx_t * v, int code, const unsigned char * text, size_t tlen, int explicit_len, size_t split, vh_rng_t * rng, int second, unsigned variant) {
    static unsigned char ptext[MAXTEXT]; unsigned char ktext[8];
    entry_t ep, ek, et; size_t plen, klen = 1 + vh_below(rng, 6), i;
    int pcode = (int) vh_below(rng, 65536) - 32768, kcode = vh_chance(rng, 1, 2) ? -(int) vh_below(rng, 500) : (int) vh_below(rng, 65536) - 32768;
    uint64_t bad = vh_violations();
#if VH_INFO_HEAP
    if (split < 1) split = 1;
    if (split > HEAP_SIZE - klen - 3) split = HEAP_SIZE - klen - 3;
    plen = HEAP_SIZE - split - klen - 2;
#else
    (void) split;
    plen = vh_below(rng, 40);
#endif
    gen_base(ptext, plen, rng, ST_PLAIN);
    if (plen > 8 && vh_chance(rng, 1, 2)) ptext[vh_below(rng, (uint32_t) plen)] = '"';
    for (i = 0; i < klen; i++) ktext[i] = (unsigned char) "K\"k;x'"[vh_below(rng, 6)];
    if (plen) push_entry(v, pcode, ptext, plen, 1, &ep, "first of two fillers", variant);
    else push_entry(v, pcode, NULL, 0, 0, &ep, "first of two fillers", variant);
    push_entry(v, kcode, ktext, klen, (int) vh_below(rng, 2), &ek, "second filler, queued while the first is released", variant);
    query_and_check(v, &ep);
    push_entry(v, code, text, tlen, explicit_len, &et, "queued behind a short entry", variant);
    if (text) count_quotes(et.text, et.tlen);
    query_and_check(v, &ek);
    query_and_check(v, &et);
    if (vh_violations() == bad) kc[K_NEXT_ENTRY] += 2;
    if (second) { bad = vh_violations(); query_and_check(v, NULL); if (vh_violations() == bad) kc[K_SECOND_EMPTY]++; }
}

/* ---- codes with descriptions of distinct lengths ---------------------------------------------------- */
static int bcodes[80]; static int nbcodes;
static void build_bcodes(void) {
    int seen[128], i, n = 0;
    if (nbcodes) return;
    memset(seen, 0, sizeof seen);
    /* fixed front: shortest, "Command error", "Input buffer overrun", longest, fallback, code 0 */
    { static const int front[] = { -100, -363, 17, -440, 0, -113, 32767, -32768 }; for (i = 0; i < 8; i++) bcodes[n++] = front[i]; }
    establish_fallback();
    for (i = 0; i < 8; i++) { size_t l = strlen(expected_desc(bcodes[i], NULL)); if (l < 128) seen[l] = 1; }
    for (i = 0; i < NDESC && n < 80; i++) { size_t l = strlen(desc_tab[i].str); if (l < 128 && !seen[l]) { seen[l] = 1; bcodes[n++] = desc_tab[i].val; } }
    nbcodes = n;
}

/* ---- phase 0: every int16_t code once without text --------------------------------------------------- */
static uint64_t p0_count(int thorough) { (void) thorough; return 256; }
static void p0_run(uint64_t idx, vh_rng_t * rng) {
    vh_ctx_t * v = new_ctx();
    static unsigned char t[MAXTEXT];
    int j;
    vh_case_desc("codes %d..%d without text (every 8th also with a text)", (int) idx * 256 - 32768, (int) idx * 256 - 32768 + 255);
    for (j = 0; j < 256; j++) {
        int code = (int) idx * 256 + j - 32768;
        vh_sub = (uint64_t) j;
        flow_single(v, code, NULL, 0, 0, (j & 3) == 0, (unsigned) j + (unsigned) vh_below(rng, 3));
        if ((j & 7) == 5) {
            size_t L = vh_chance(rng, 1, 2) ? vh_below(rng, 401) : 200 + vh_below(rng, 70);
            gen_base(t, L, rng, (int) vh_below(rng, 3));
            if (L) { unsigned q = vh_below(rng, 4); while (q--) t[vh_below(rng, (uint32_t) L)] = '"'; }
            if (vh_chance(rng, 1, 4)) flow_behind(v, code, t, L, (int) vh_below(rng, 2), L ? 1 + vh_below(rng, (uint32_t) L) : 1, rng, 0, (unsigned) j);
            else flow_single(v, code, t, L, (int) vh_below(rng, 2), 0, (unsigned) j);
        }
    }
    if (idx % 16 == 0) vh_distinct(vh_hash_u64(idx, 1));
    if (idx == 127 && vh_want_sample()) {
        static const unsigned char demo[] = "say \"hi\"";
        flow_single(v, -1, demo, sizeof demo - 1, 1, 0, 0);
        vh_sample("SCPI_ErrorPushEx(-1, say \"hi\", 8); SYST:ERR? -> %s", vh_esc(last_resp.p, last_resp.len));
    }
    vh_ctx_free(v);
    kflush();
}

/* ---- phase 1: every text length 0..400 x quote at every position x 1..3 quotes ----------------------- */
#define MAXLEN 400
static uint64_t p1_count(int thorough) { return (uint64_t) (MAXLEN + 1) * (thorough ? 6 : 1); }
static void p1_run(uint64_t idx, vh_rng_t * rng) {
    size_t L = (size_t) (idx % (MAXLEN + 1)), p; unsigned variant = (unsigned) (idx / (MAXLEN + 1)), q;
    vh_ctx_t * v = new_ctx();
    static unsigned char base[MAXTEXT], t[MAXTEXT];
    int style = variant % 3 == 2 ? ST_PUNCT : ST_PLAIN;
    build_bcodes();
    vh_case_desc("text length %zu, 1..3 quotes with the first at every position 0..%zu, variant %u", L, L, variant);
    gen_base(base, L, rng, style);
    for (p = 0; p <= L; p++) {
        vh_sub = p;
        for (q = (p == L ? 0 : 1); q <= (p == L ? 0 : 3); q++) {
            int code = (vh_below(rng, 4) == 0) ? (int) vh_below(rng, 65536) - 32768 : bcodes[(L + p + q + variant) % (unsigned) nbcodes];
            int explicit_len = (int) ((p + q + variant) & 1);
            unsigned k;
            memcpy(t, base, L);
            if (q) t[p] = '"';
            for (k = 1; k < q; k++) {
                /* variant even: adjacent quotes p, p+1, p+2; odd: the others anywhere */
                size_t at = (variant & 1) ? vh_below(rng, (uint32_t) L) : p + k;
                if (at < L) t[at] = '"';
            }
#if VH_INFO_HEAP
            if (L && vh_below(rng, 8) == 0) {
                /* wrap the heap copy at the quote, next to it, or anywhere */
                size_t split = vh_chance(rng, 1, 2) ? p + vh_below(rng, 3) : 1 + vh_below(rng, (uint32_t) L + 2);
                flow_behind(v, code, t, L, explicit_len, split, rng, 0, (unsigned) p);
                continue;
            }
#endif
            flow_single(v, code, t, L, explicit_len, vh_below(rng, 8) == 0, (unsigned) p);
        }
    }
    vh_distinct(vh_hash_u64(L, 100 + variant));
    if (L == 260 && vh_want_sample()) vh_sample("length-260 text with a quote at every position 0..259 pushed for codes such as -363: every response parsed as one 488.2 string of <= 255 characters");
    vh_ctx_free(v);
    kflush();
}

/* ---- phase 2: dense around the limit ------------------------------------------------------------------ */
/* case = (code, total unescaped length of description;text in TOT_LO..TOT_HI); inside: every set of <= 3 quote
 * positions within a window around the cut position x 0..2(3) earlier quotes x explicit/automatic length */
#define TOT_LO 236
#define TOT_HI 268
static int p2_ncodes(int thorough) { build_bcodes(); return thorough ? nbcodes : 8; }
static uint64_t p2_count(int thorough) { return (uint64_t) p2_ncodes(thorough) * (TOT_HI - TOT_LO + 1); }

typedef struct { vh_ctx_t * v; vh_rng_t * rng; int code; const unsigned char * base; size_t L; int pre; long last, w0; uint64_t idx; } p2_env_t;
static void p2_subset(p2_env_t * E, const int * rel, int np) {
    static unsigned char t[MAXTEXT];
    static const long prepos[3] = { 3, 41, 97 };
    int mode, k, sum = 0;
    long pos[3];
    for (k = 0; k < np; k++) { pos[k] = E->w0 + rel[k]; sum += rel[k]; if (pos[k] < 0 || pos[k] >= (long) E->L) return; }
    for (mode = 0; mode < 2; mode++) {
        if (!vh_args.thorough && ((sum + np + E->pre + (int) E->idx) & 1) != mode) continue;
        memcpy(t, E->base, E->L);
        for (k = 0; k < E->pre; k++) { long at = prepos[k] + (long) vh_below(E->rng, 30); if (at < (long) E->L && at < E->w0) t[at] = '"'; }
        for (k = 0; k < np; k++) t[pos[k]] = '"';
#if VH_INFO_HEAP
        if (vh_below(E->rng, 6) == 0) {
            long s = E->last - 4 + (long) vh_below(E->rng, 9);
            if (np && vh_chance(E->rng, 1, 2)) s = pos[vh_below(E->rng, (uint32_t) np)] + (long) vh_below(E->rng, 2);
            if (s < 1) s = 1;
            flow_behind(E->v, E->code, t, E->L, mode, (size_t) s, E->rng, 0, (unsigned) sum);
            continue;
        }
#endif
        flow_single(E->v, E->code, t, E->L, mode, vh_below(E->rng, 16) == 0, (unsigned) sum);
    }
}
static void p2_run(uint64_t idx, vh_rng_t * rng) {
    int thorough = vh_args.thorough, ncodes = p2_ncodes(thorough);
    int code = bcodes[idx % (uint64_t) ncodes]; size_t total = TOT_LO + (size_t) (idx / (uint64_t) ncodes);
    int is_fb; const char * desc; size_t dlen, L; int W = thorough ? 14 : 11, maxpre = thorough ? 3 : 2, pre, rel[3];
    static unsigned char base[MAXTEXT];
    p2_env_t E;
    vh_ctx_t * v = new_ctx();
    desc = expected_desc(code, &is_fb); dlen = strlen(desc);
    L = total - dlen - 1;
    vh_case_desc("code %d (description %zu characters), text length %zu (description;text = %zu), all <=3-subsets of quote positions in a %d-wide window at the limit", code, dlen, L, total, W);
    gen_base(base, L, rng, (idx & 3) == 3 ? ST_PUNCT : ST_PLAIN);
    E.v = v; E.rng = rng; E.code = code; E.base = base; E.L = L; E.idx = idx;
    for (pre = 0; pre <= maxpre; pre++) {
        /* text index of the last character that fits when `pre` quotes precede: content index 254 - pre */
        E.pre = pre;
        E.last = (long) LIMIT - 1 - (long) dlen - 1 - pre;
        E.w0 = E.last - (W - 4);
        vh_sub = (uint64_t) pre << 24;
        p2_subset(&E, rel, 0);
        for (rel[0] = 0; rel[0] < W; rel[0]++) {
            p2_subset(&E, rel, 1);
            for (rel[1] = rel[0] + 1; rel[1] < W; rel[1]++) {
                vh_sub = ((uint64_t) pre << 24) | ((uint64_t) rel[0] << 16) | ((uint64_t) rel[1] << 8);
                p2_subset(&E, rel, 2);
                for (rel[2] = rel[1] + 1; rel[2] < W; rel[2]++) p2_subset(&E, rel, 3);
            }
        }
    }
    vh_distinct(vh_hash_u64(idx, 200));
    if (vh_want_sample() && total == 256 && code == -363) {
        vh_sample("code -363 \"Input buffer overrun\" + ';' + %zu-character text (256 in all): cut to 255 without quotes, to 254 when the 255th source character is a quote", L);
    }
    vh_ctx_free(v);
    kflush();
}

/* ---- phase 3: random codes, lengths, contents --------------------------------------------------------- */
#define P3_BATCH 12
static uint64_t p3_count(int thorough) { return vh_scaled(thorough ? 420000 : 20000); }
static void p3_run(uint64_t idx, vh_rng_t * rng) {
    vh_ctx_t * v = new_ctx();
    static unsigned char t[MAXTEXT];
    int k;
    build_bcodes();
    vh_case_desc("random batch %llu of %d (code, text) pairs", (unsigned long long) idx, P3_BATCH);
    for (k = 0; k < P3_BATCH; k++) {
        int code, style, explicit_len = (int) vh_below(rng, 2), is_fb; size_t L, dlen; unsigned q, nq;
        vh_sub = (uint64_t) k;
        switch (vh_below(rng, 4)) {
            case 0: code = (int) vh_below(rng, 65536) - 32768; break;
            case 1: code = desc_tab[vh_below(rng, (uint32_t) NDESC)].val; break;
            case 2: code = bcodes[vh_below(rng, (uint32_t) nbcodes)]; break;
            default: code = (int) vh_below(rng, 1000) - 500; break;
        }
        dlen = strlen(expected_desc(code, &is_fb));
        switch (vh_below(rng, 5)) {
            case 0: L = vh_below(rng, MAXLEN + 1); break;
            case 1: L = vh_below(rng, 12); break;
            case 2: L = MAXLEN + vh_below(rng, 600); break; /* far beyond the limit */
            default: { long x = (long) LIMIT - (long) dlen - 1 - 12 + (long) vh_below(rng, 26); L = x < 0 ? 0 : (size_t) x; break; } /* total 243..268 */
        }
        { unsigned s = vh_below(rng, 10); style = s < 3 ? ST_PLAIN : s < 6 ? ST_PUNCT : s < 8 ? ST_ASCII : ST_8BIT; }
        gen_base(t, L, rng, style);
        switch (vh_below(rng, 6)) { case 0: nq = 0; break; case 1: nq = 1; break; case 2: nq = 2; break; case 3: nq = 3; break; case 4: nq = 4 + vh_below(rng, 12); break; default: nq = (unsigned) L / 2; break; }
        for (q = 0; q < nq && L; q++) {
            /* half of the quotes near the place where the cut will fall */
            long at = vh_chance(rng, 1, 2) ? (long) LIMIT - (long) dlen - 1 - 6 + (long) vh_below(rng, 10) - (long) q : (long) vh_below(rng, (uint32_t) L);
            if (at >= 0 && at < (long) L) t[at] = '"';
        }
        if (nq == (unsigned) L / 2 && L && vh_chance(rng, 1, 3)) memset(t, '"', L); /* nothing but quotes */
        if (vh_chance(rng, 1, 40)) { flow_single(v, code, NULL, 0, 0, 1, (unsigned) k); continue; }
        if (vh_chance(rng, 1, 3)) flow_behind(v, code, t, L, explicit_len, L ? 1 + vh_below(rng, (uint32_t) L + 2) : 1, rng, vh_chance(rng, 1, 4), (unsigned) k);
        else flow_single(v, code, t, L, explicit_len, vh_chance(rng, 1, 4), (unsigned) k);
        if (k == 0) { uint64_t h = vh_hash(t, L, VH_HASH_INIT); vh_distinct(vh_hash_u64((uint64_t) (uint16_t) code, h)); }
        if (k == 0 && L > 240 && L < 300 && style == ST_PUNCT && vh_want_sample()) {
            vh_sample("code %d, %s length, text(%zu bytes) \"%s\" -> response(%zu bytes) \"%s\"", code, explicit_len ? "explicit" : "automatic", L, vh_esc(t, L), last_resp.len, vh_esc(last_resp.p, last_resp.len));
        }
    }
    /* the count query sees the same number as the API */
    if ((idx & 7) == 0) {
        entry_t e; long c = -1;
        push_entry(v, -222, NULL, 0, 0, &e, "count query", 0);
        vh_ctx_clear_capture(v);
        vh_input(v, "SYST:ERR:COUN?\n", 15);
        if (v->out.len > 0) c = strtol(vh_buf_cstr(&v->out), NULL, 10);
        if (c == 1 && SCPI_ErrorCount(v->ctx) == 1) kc[K_COUNTQ]++;
        query_and_check(v, &e);
    }
    vh_ctx_free(v);
    kflush();
}

/* ---- phase 4 (static-heap configuration): explicit-length pushes from exact-size source buffers ---------- */
static uint64_t p4_count(int thorough) { return VH_INFO_HEAP ? (thorough ? 192 : 48) : 0; }
static void p4_run(uint64_t idx, vh_rng_t * rng) {
    vh_ctx_t * v = new_ctx();
    static unsigned char t[MAXTEXT];
    int k;
    exact_src = 1;
    vh_case_desc("static heap: explicit-length pushes from exact-size, unterminated source buffers, batch %llu", (unsigned long long) idx);
    for (k = 0; k < 64; k++) {
        size_t L = 1 + (size_t) ((idx * 64 + (uint64_t) k) % 320), split; unsigned q = vh_below(rng, 4);
        int code = vh_chance(rng, 1, 2) ? -(int) vh_below(rng, 450) : (int) vh_below(rng, 65536) - 32768;
        vh_sub = (uint64_t) k;
        gen_base(t, L, rng, (int) vh_below(rng, 3));
        while (q--) t[vh_below(rng, (uint32_t) L)] = '"';
        switch (vh_below(rng, 6)) {
            case 0: flow_single(v, code, t, L, 1, 1, (unsigned) k); continue;
            case 1: split = L; break;        /* first part fills the heap to its end, second part empty */
            case 2: split = L + 1; break;    /* text and terminator end exactly at the end of the heap */
            case 3: split = L + 2; break;
            case 4: split = L > 1 ? L - 1 : 1; break;
            default: split = 1 + vh_below(rng, (uint32_t) L); break;
        }
        flow_behind(v, code, t, L, 1, split, rng, 0, (unsigned) k);
    }
    vh_count("heap.exact_size_source_batches", 1);
    exact_src = !VH_INFO_HEAP;
    vh_distinct(vh_hash_u64(idx, 400));
    vh_ctx_free(v);
    kflush();
}

/* ---- phase "wraplimit" (static-heap configuration): the 255 limit falls at / next to the point where the stored text wraps around
 * the end of the heap, with a double quote at / next to that point - enumerated, not sampled ------------------------------------- */
static uint64_t p5_count(int thorough) { build_bcodes(); return VH_INFO_HEAP ? (uint64_t) (thorough ? nbcodes : 10) : 0; }
static void p5_run(uint64_t idx, vh_rng_t * rng) {
    static unsigned char t[MAXTEXT];
    int code, ds, dq, two; size_t k, L = 270;
    build_bcodes();
    code = bcodes[(idx * 7) % (uint64_t) nbcodes];
    k = 254 - strlen(SCPI_ErrorTranslate((int16_t) code)); /* room left for the text behind "description;" */
    vh_case_desc("static heap: wrap point x quote position around the 255 limit, code %d (room %zu)", code, k);
    for (ds = -5; ds <= 5; ds++) for (dq = -5; dq <= 3; dq++) for (two = 0; two < 3; two++) {
        long split = (long) k + ds, q = split + dq; vh_ctx_t * v;
        if (split < 1 || q < 0 || (size_t) q >= L) continue;
        gen_base(t, L, rng, ST_PLAIN);
        { size_t j; for (j = 0; j < L; j++) if (t[j] == '"') t[j] = 'x'; }
        t[q] = '"';
        if (two == 1 && q + 1 < (long) L) t[q + 1] = '"';
        if (two == 2 && q >= 7) t[q - 7] = '"';
        v = new_ctx();
        vh_sub = (uint64_t) ((ds + 5) * 100 + (dq + 5) * 10 + two);
        flow_behind(v, code, t, L, 1, (size_t) split, rng, 0, (unsigned) (ds + dq + two + 20));
        vh_ctx_free(v);
        vh_count("heap.wrap_x_quote_at_limit_flows", 1);
    }
    vh_distinct(vh_hash_u64((uint64_t) code, 500));
    kflush();
}

/* ---- phase "uptime": a context that has been up for a long time - its queue has carried 2^16 (quick) or 2^32 (thorough, default flavour, one
 * case) errors without ever being cleared or re-initialised - still answers the error query with the entry that is next in line ----------------- */
static uint64_t p6_count(int thorough) { (void) thorough; return 2; }
static void p6_run(uint64_t idx, vh_rng_t * rng) {
    vh_ctx_t * v = vh_ctx_new(cmds, 64, 17, HEAP_SIZE); uint64_t total = 70000, i; int k; (void) rng; /* 17 entries, as in the shipped examples: not a power of two */
    v->log_enabled = 0; establish_fallback();
    if (vh_args.thorough && VH_FLAVOUR_DEFAULT && !VH_ASAN && idx == 1) total = (1ull << 32) + 1000;
    vh_case_desc("uptime: error query after %llu errors went through the queue (capacity 17, never cleared)", (unsigned long long) total);
    vh_watchdog(3600);
    /* keep 3 text-less entries pending while the counters run up */
    for (i = 0; i < 3; i++) SCPI_ErrorPush(v->ctx, (int16_t) (-100 - (int) i));
    for (i = 3; i < total + 3; i++) {
        scpi_error_t e; int16_t want = (int16_t) (-100 - (int) ((i - 3) % 200));
        SCPI_ErrorPush(v->ctx, (int16_t) (-100 - (int) (i % 200))); SCPI_ErrorPop(v->ctx, &e);
        if (e.error_code != want) { vh_violation("C18:entry-out-of-order-after-many-errors", "capacity 17, never cleared: after %llu errors the entry taken from the queue has code %d, the one pushed first was %d", (unsigned long long) i, (int) e.error_code, (int) want); break; }
        if ((i & 0xffffff) == 0) vh_watchdog(3600);
    }
    for (i = 0; i < 3; i++) { scpi_error_t e; SCPI_ErrorPop(v->ctx, &e); } /* the flows below start from an empty queue; whatever counters the queue keeps run on */
    /* now the property's own flows on this context */
    for (k = 0; k < 6; k++) {
        static const unsigned char t1[] = "fir\"st", t2[] = "second";
        flow_single(v, -101 - k, t1, sizeof t1 - 1, k & 1, 1, (unsigned) k);
        { entry_t a, b; push_entry(v, -113, t2, sizeof t2 - 1, 1, &a, "two entries pending after a long uptime", 0); push_entry(v, -222, t1, sizeof t1 - 1, 0, &b, "two entries pending after a long uptime", 1); query_and_check(v, &a); query_and_check(v, &b); }
    }
    vh_eval(total);
    vh_count(total > 100000 ? "uptime.queries_after_more_than_2^32_errors" : "uptime.queries_after_70000_errors", 1);
    vh_ctx_free(v);
    kflush();
}

int main(int argc, char ** argv) {
    static const vh_phase_t phases[] = {
        { "codes", p0_count, p0_run },
        { "lengths", p1_count, p1_run },
        { "limit", p2_count, p2_run },
        { "random", p3_count, p3_run },
        { "exactsrc", p4_count, p4_run },
        { "wraplimit", p5_count, p5_run },
        { "uptime", p6_count, p6_run },
    };
    vh_decoy_enable(7); vh_require("reentrant.error_pushed_from_error_callback_during_query"); vh_require("reentrant.error_pushed_from_write_callback_during_query"); vh_require("decoy.messages_run_on_a_second_context"); vh_require("query");
    vh_require("text.present"); vh_require("uptime.queries_after_70000_errors");
    vh_require("text.none");
    vh_require("content.cut");
    vh_require("content.complete_exactly_at_limit");
    vh_require("cut.quote_at_limit_one_slot_left");
    vh_require("cut.doubled_quote_ends_exactly_at_limit");
    vh_require("content.quotes_doubled");
    vh_require("desc.fallback");
    vh_require("desc.table");
    vh_require("push.explicit_length");
    vh_require("push.automatic_length");
    vh_require("second_query.no_error");
    vh_require("order.next_entry_after_pop");
#if VH_INFO_HEAP
    vh_require("heap.wrapped_text");
    vh_require("heap.wrapped_near_cut");
    vh_require("heap.wrapped_quote_at_split");
#endif
    return vh_main(argc, argv, "C18", phases, 7);
}
