/* C17 - binary results are valid definite-length blocks in the requested byte order.
 *
 * A query handler of our own executes a scripted sequence of result calls (binary arrays of the ten
 * element types, whole arbitrary blocks, streamed header + data calls, plain integers around them).
 * The bytes captured from the write callback are compared with an independent encoder written from the
 * statement: '#', one digit = number of length digits, the decimal byte count, the elements MSB first
 * (NORMAL) or LSB first (SWAPPED) produced with shifts from the element VALUES.  Item accounting is
 * observed through the delimiter of the NEXT result of the same response. */
#include "vh_scpi.h"
#include <stdio.h>
#include <stdlib.h>
#include <string.h>

/* ---- independent encoder ------------------------------------------------------------------------- */
static int enc_header(vh_buf_t * b, uint64_t nbytes) {
    char d[24]; int n = 0, nd;
    do { d[n++] = (char) ('0' + (int) (nbytes % 10)); nbytes /= 10; } while (nbytes);
    nd = n;
    vh_buf_addc(b, '#'); vh_buf_addc(b, '0' + n);
    while (n) vh_buf_addc(b, d[--n]);
    return nd;
}
static void enc_elem(vh_buf_t * b, uint64_t bits, int size, int fmt) {
    int k;
    if (fmt == SCPI_FORMAT_NORMAL) for (k = size - 1; k >= 0; k--) vh_buf_addc(b, (int) ((bits >> (8 * k)) & 0xff)); /* big-endian: most significant first */
    else for (k = 0; k < size; k++) vh_buf_addc(b, (int) ((bits >> (8 * k)) & 0xff));                                 /* little-endian: least significant first */
}
static int ndigits(uint64_t v) { int n = 1; while (v >= 10) { v /= 10; n++; } return n; }

/* host order: used ONLY to name witness classes / counters, never by the oracle */
static int host_fmt(void) { union { uint16_t u; unsigned char c[2]; } x; x.u = 0x0102; return x.c[0] == 1 ? SCPI_FORMAT_NORMAL : SCPI_FORMAT_SWAPPED; }

/* ---- element types ----------------------------------------------------------------------------------- */
enum { T_I8, T_U8, T_I16, T_U16, T_I32, T_U32, T_I64, T_U64, T_F32, T_F64, T__N };
static const int tsize[T__N] = { 1, 1, 2, 2, 4, 4, 8, 8, 4, 8 };
static const char * const tname[T__N] = { "Int8", "UInt8", "Int16", "UInt16", "Int32", "UInt32", "Int64", "UInt64", "Float", "Double" };
static const char * fmtname(int f) { return f == SCPI_FORMAT_NORMAL ? "NORMAL" : f == SCPI_FORMAT_SWAPPED ? "SWAPPED" : "ASCII"; }

/* ---- script -------------------------------------------------------------------------------------------- */
enum { OP_ARR, OP_BLOCK, OP_HDR, OP_DATA, OP_INT };
enum { EX_WRITES, EX_REFUSED };
typedef struct {
    int op, type, fmt;
    void * buf;            /* exact-size heap input (array / block / data chunk), may be NULL for zero-length data */
    void * base;           /* allocation that buf points into when the array is a window of a longer record (else NULL) */
    size_t n;              /* ARR: elements; BLOCK/DATA: bytes; HDR: announced length */
    int32_t ival;
    int expect, soft;      /* soft: the statement does not determine the bytes of this call (counted, not asserted) */
    int incomplete_before; /* INT only: an announced block is still open and no complete item precedes */
    int after_complete;    /* the call before this one completed a block */
    int hdr_digits;
    size_t exp_off, exp_len; /* what this call must write: region of g_exp */
    /* recorded by the handler */
    size_t ret, out_before, out_after; int err_before, err_after, done;
} op_t;
#define MAX_OPS 16
static op_t g_ops[MAX_OPS];
static int g_nops;
static vh_buf_t g_exp;     /* expected response bytes (without line ending) */
/* oracle model of the response being built: complete items so far, announced block still open, bytes it still lacks */
static int m_items, m_open, m_soft, m_refusals, m_prev_complete;
static uint64_t m_remaining;

static void s_begin(void) {
    int i;
    for (i = 0; i < g_nops; i++) { if (g_ops[i].base) free(g_ops[i].base); else free(g_ops[i].buf); g_ops[i].base = NULL; }
    memset(g_ops, 0, sizeof g_ops);
    g_nops = 0; vh_buf_reset(&g_exp);
    m_items = 0; m_open = 0; m_soft = 0; m_refusals = 0; m_remaining = 0; m_prev_complete = 0;
}
static op_t * s_new(int op) {
    op_t * o;
    if (g_nops >= MAX_OPS) { fprintf(stderr, "c17: script too long\n"); abort(); }
    o = &g_ops[g_nops++];
    o->op = op; o->soft = m_soft; o->exp_off = g_exp.len; o->after_complete = m_prev_complete;
    m_prev_complete = 0;
    return o;
}
static void s_delim(void) { if (m_items > 0) vh_buf_addc(&g_exp, ','); }

static void s_int(int32_t v) {
    op_t * o = s_new(OP_INT);
    o->ival = v;
    if (m_open && m_remaining == 0) o->soft = 1; /* Header(0) without any data call: statement silent on whether it is complete */
    if (m_open && m_remaining > 0 && m_items == 0) o->incomplete_before = 1;
    s_delim();
    vh_buf_printf(&g_exp, "%ld", (long) v);
    m_items++;
    if (m_open) m_soft = 1; /* whatever follows an item emitted inside an open block is not described */
    o->exp_len = g_exp.len - o->exp_off;
}

/* boundary-biased element bit patterns */
static uint64_t gen_bits(int type, vh_rng_t * rng, size_t i, int mode) {
    int w = tsize[type] * 8;
    uint64_t ones = w == 64 ? ~0ULL : ((1ULL << w) - 1), r;
    if (mode == 1) return vh_rand(rng);
    if (mode == 2) return 0x0102030405060708ULL + (uint64_t) i * 0x0101010101010101ULL;
    r = vh_rand(rng);
    switch (vh_below(rng, 16)) {
        case 0: return 0;
        case 1: return ones;                          /* -1 / max unsigned */
        case 2: return 1ULL << (w - 1);               /* min signed / -0.0 */
        case 3: return (1ULL << (w - 1)) - 1;         /* max signed */
        case 4: return 0x0102030405060708ULL;         /* low part is 0x...0708: every byte different */
        case 5: return 0x0102030405060708ULL >> (64 - w);
        case 6: return 1;
        case 7: return 0xffULL << (8 * vh_below(rng, (uint32_t) tsize[type]));
        case 8: return ones ^ (0xffULL << (8 * vh_below(rng, (uint32_t) tsize[type])));
        case 9: if (type == T_F32) { static const uint32_t f[] = { 0x3f800000u, 0xbf800000u, 0x7f800000u, 0xff800000u, 0x7fc00000u, 0x00000001u, 0x007fffffu, 0x00800000u, 0x7f7fffffu, 0x40490fdbu }; return f[vh_below(rng, 10)]; }
                if (type == T_F64) { static const uint64_t f[] = { 0x3ff0000000000000ULL, 0xbff0000000000000ULL, 0x7ff0000000000000ULL, 0xfff0000000000000ULL, 0x7ff8000000000000ULL, 1ULL, 0x000fffffffffffffULL, 0x0010000000000000ULL, 0x7fefffffffffffffULL, 0x400921fb54442d18ULL }; return f[vh_below(rng, 10)]; }
                return (uint64_t) ((int64_t) vh_below(rng, 257) - 128);
        case 10: return 0x2c23300aULL | (r << 32);    /* bytes that look like ',' '#' '0' '\n' */
        case 11: return r >> vh_below(rng, 64);
        default: return r;
    }
}

/* stores the value with the given bit pattern into element i and returns the bit pattern of the VALUE stored */
static uint64_t put_elem(void * buf, int type, size_t i, uint64_t bits) {
    switch (type) {
        case T_I8: ((int8_t *) buf)[i] = (int8_t) (uint8_t) bits; return (uint64_t) (uint8_t) ((int8_t *) buf)[i];
        case T_U8: ((uint8_t *) buf)[i] = (uint8_t) bits; return (uint64_t) ((uint8_t *) buf)[i];
        case T_I16: ((int16_t *) buf)[i] = (int16_t) (uint16_t) bits; return (uint64_t) (uint16_t) ((int16_t *) buf)[i];
        case T_U16: ((uint16_t *) buf)[i] = (uint16_t) bits; return (uint64_t) ((uint16_t *) buf)[i];
        case T_I32: ((int32_t *) buf)[i] = (int32_t) (uint32_t) bits; return (uint64_t) (uint32_t) ((int32_t *) buf)[i];
        case T_U32: ((uint32_t *) buf)[i] = (uint32_t) bits; return (uint64_t) ((uint32_t *) buf)[i];
        case T_I64: ((int64_t *) buf)[i] = (int64_t) bits; return (uint64_t) ((int64_t *) buf)[i];
        case T_U64: ((uint64_t *) buf)[i] = bits; return ((uint64_t *) buf)[i];
        case T_F32: { union { uint32_t u; float f; } a, b; a.u = (uint32_t) bits; ((float *) buf)[i] = a.f; b.f = ((float *) buf)[i]; return b.u; }
        default: { union { uint64_t u; double f; } a, b; a.u = bits; ((double *) buf)[i] = a.f; b.f = ((double *) buf)[i]; return b.u; }
    }
}

static uint64_t g_last_hash; /* hash of the normal form of the last array / block built */
static void s_array(int type, int fmt, size_t count, vh_rng_t * rng) {
    op_t * o = s_new(OP_ARR);
    size_t i; int sz = tsize[type];
    int mode = (int) vh_below(rng, 4); /* 0 biased, 1 random, 2 counting pattern, 3 biased */
    uint64_t h = vh_hash_u64((uint64_t) (type * 4 + fmt), VH_HASH_INIT);
    o->type = type; o->fmt = fmt; o->n = count;
    /* the caller's array may be a window into a longer record: it then starts at an element offset, i.e. at an address that is
     * aligned for the element type only (address % 4 == 2 for 16-bit items, % 8 == 4 for 32-bit items); the block must not depend on it.
     * The window still ends exactly at the end of the allocation, so over-reads trap. */
    { size_t lead = (sz < 8 && vh_below(rng, 3) == 0) ? 1 + vh_below(rng, (uint32_t) (8 / sz - 1)) : 0;
      if (lead) { o->base = malloc((count + lead) * (size_t) sz); memset(o->base, 0x5A, lead * (size_t) sz); o->buf = (char *) o->base + lead * (size_t) sz; vh_count("array.window_at_element_offset", 1); }
      else { o->base = NULL; o->buf = malloc(count * (size_t) sz); } /* exact size, malloc(0) for the empty array */ }
    if (fmt == SCPI_FORMAT_ASCII) { /* other properties: smoke only */
        for (i = 0; i < count; i++) put_elem(o->buf, type, i, gen_bits(type, rng, i, mode));
        o->soft = 1; m_soft = 1; m_items += (int) count;
        return;
    }
    s_delim();
    o->hdr_digits = enc_header(&g_exp, (uint64_t) count * (uint64_t) sz);
    for (i = 0; i < count; i++) {
        uint64_t v = put_elem(o->buf, type, i, gen_bits(type, rng, i, mode));
        enc_elem(&g_exp, v, sz, fmt);
        if (i < 8) h = vh_hash_u64(v, h);
    }
    g_last_hash = vh_hash_u64(count, h);
    m_items++; m_prev_complete = 1; /* a complete block is one result item */
    o->exp_len = g_exp.len - o->exp_off;
}
static void * heap_copy(const void * data, size_t len) { void * p = malloc(len); if (len) memcpy(p, data, len); return p; }

static void s_block(const unsigned char * data, size_t len) {
    op_t * o = s_new(OP_BLOCK);
    o->n = len; o->buf = heap_copy(data, len);
    s_delim();
    o->hdr_digits = enc_header(&g_exp, len);
    vh_buf_add(&g_exp, data, len);
    m_items++; m_prev_complete = 1;
    o->exp_len = g_exp.len - o->exp_off;
}
static void s_header(uint64_t len) {
    op_t * o = s_new(OP_HDR);
    o->n = (size_t) len;
    s_delim();
    o->hdr_digits = enc_header(&g_exp, len);
    m_open = 1; m_remaining = len;
    o->exp_len = g_exp.len - o->exp_off;
}
static void s_data(const unsigned char * data, size_t len, int null_ptr) {
    op_t * o = s_new(OP_DATA);
    o->n = len; o->buf = (len == 0 && null_ptr) ? NULL : heap_copy(data, len);
    if (len > (m_open ? m_remaining : 0)) { /* beyond the announced length: refused, nothing emitted */
        o->expect = EX_REFUSED; m_refusals++;
        m_soft = 1; /* what later calls of this response do is not stated */
    } else {
        vh_buf_add(&g_exp, data, len);
        if (m_open) { m_remaining -= len; if (m_remaining == 0) { m_open = 0; m_items++; m_prev_complete = 1; } }
        else m_prev_complete = o->after_complete; /* zero-length call after completion changes nothing */
    }
    o->exp_len = g_exp.len - o->exp_off;
}

/* ---- handler: executes the script ------------------------------------------------------------------- */
static size_t call_array(scpi_t * c, const op_t * o) {
    scpi_array_format_t f = (scpi_array_format_t) o->fmt;
    switch (o->type) {
        case T_I8: return SCPI_ResultArrayInt8(c, (const int8_t *) o->buf, o->n, f);
        case T_U8: return SCPI_ResultArrayUInt8(c, (const uint8_t *) o->buf, o->n, f);
        case T_I16: return SCPI_ResultArrayInt16(c, (const int16_t *) o->buf, o->n, f);
        case T_U16: return SCPI_ResultArrayUInt16(c, (const uint16_t *) o->buf, o->n, f);
        case T_I32: return SCPI_ResultArrayInt32(c, (const int32_t *) o->buf, o->n, f);
        case T_U32: return SCPI_ResultArrayUInt32(c, (const uint32_t *) o->buf, o->n, f);
        case T_I64: return SCPI_ResultArrayInt64(c, (const int64_t *) o->buf, o->n, f);
        case T_U64: return SCPI_ResultArrayUInt64(c, (const uint64_t *) o->buf, o->n, f);
        case T_F32: return SCPI_ResultArrayFloat(c, (const float *) o->buf, o->n, f);
        default: return SCPI_ResultArrayDouble(c, (const double *) o->buf, o->n, f);
    }
}
static scpi_result_t c17_handler(scpi_t * context) {
    vh_ctx_t * v = VH_OF(context);
    int i;
    for (i = 0; i < g_nops; i++) {
        op_t * o = &g_ops[i];
        o->out_before = v->out.len; o->err_before = (int) SCPI_ErrorCount(context);
        switch (o->op) {
            case OP_ARR: o->ret = call_array(context, o); break;
            case OP_BLOCK: o->ret = SCPI_ResultArbitraryBlock(context, o->buf, o->n); break;
            case OP_HDR: o->ret = SCPI_ResultArbitraryBlockHeader(context, o->n); break;
            case OP_DATA: o->ret = SCPI_ResultArbitraryBlockData(context, o->buf, o->n); break;
            default: o->ret = SCPI_ResultInt32(context, o->ival); break;
        }
        o->out_after = v->out.len; o->err_after = (int) SCPI_ErrorCount(context);
        o->done = 1;
    }
    return SCPI_RES_OK;
}
static const scpi_command_t c17_cmds[] = { { .pattern = "TEST:ARR?", .callback = c17_handler }, SCPI_CMD_LIST_END };

/* ---- verdict ----------------------------------------------------------------------------------------- */
static void describe(vh_buf_t * d) {
    int i;
    for (i = 0; i < g_nops; i++) {
        const op_t * o = &g_ops[i];
        if (i) vh_buf_adds(d, "; ");
        switch (o->op) {
            case OP_ARR: vh_buf_printf(d, "ResultArray%s(count=%zu,%s)", tname[o->type], o->n, fmtname(o->fmt)); break;
            case OP_BLOCK: vh_buf_printf(d, "ResultArbitraryBlock(len=%zu)", o->n); break;
            case OP_HDR: vh_buf_printf(d, "ResultArbitraryBlockHeader(%zu)", o->n); break;
            case OP_DATA: vh_buf_printf(d, "ResultArbitraryBlockData(%s,len=%zu)", o->buf ? "p" : "NULL", o->n); break;
            default: vh_buf_printf(d, "ResultInt32(%ld)", (long) o->ival); break;
        }
        if (o->done) vh_buf_printf(d, "=%zu", o->ret);
    }
}
static const char * excerpt(const char * p, size_t len, size_t at) {
    size_t from = at > 16 ? at - 16 : 0, to = at + 24 < len ? at + 24 : len;
    static vh_buf_t ring[4]; static int k; vh_buf_t * b = &ring[k++ & 3];
    vh_buf_reset(b);
    if (from) vh_buf_printf(b, "..@%zu:", from);
    vh_buf_add_escaped(b, p + from, to - from);
    if (to < len) vh_buf_printf(b, "..(%zu)", len);
    return vh_buf_cstr(b);
}
static void report(const char * key, int opi, const char * what, const vh_ctx_t * v, size_t got_at, size_t exp_at) {
    vh_buf_t d = { 0 };
    describe(&d);
    vh_violation(key, "%s (call %d of: %s) wrote \"%s\" expected \"%s\"", what, opi + 1, vh_buf_cstr(&d),
                 excerpt(v->out.p ? v->out.p : "", v->out.len, got_at), excerpt(g_exp.p ? g_exp.p : "", g_exp.len, exp_at));
    vh_buf_free(&d);
}

/* runs the script as one query and judges every call; returns 1 when everything asserted held */
static int run_script(vh_ctx_t * v) {
    int i, ok = 1, hard_ok = 1;
    SCPI_ErrorClear(v->ctx); /* may call the error callback: before the capture is cleared */
    vh_ctx_clear_capture(v);
    vh_eval(1);
    vh_input(v, "TEST:ARR?\n", 10);
    for (i = 0; i < g_nops; i++) {
        const op_t * o = &g_ops[i];
        const char * got, * exp; size_t gl, el;
        if (!o->done) { report("C17:handler-not-run", i, "the query handler did not execute the call", v, 0, 0); return 0; }
        got = v->out.p ? v->out.p + o->out_before : ""; gl = o->out_after - o->out_before;
        exp = g_exp.p ? g_exp.p + o->exp_off : ""; el = o->exp_len;
        if (o->expect == EX_REFUSED) {
            int good = 1;
            if (gl != 0) { report("C17:overlength-data-emitted", i, "data beyond the announced length was written", v, o->out_before, o->exp_off); good = 0; }
            if (o->err_after <= o->err_before) { report("C17:overlength-data-no-error", i, "data beyond the announced length queued no error", v, o->out_before, o->exp_off); good = 0; }
            if (gl == 0 && o->ret != 0) { report("C17:overlength-data-return", i, "refused data call reports bytes written", v, o->out_before, o->exp_off); good = 0; }
            if (good) vh_count("refusal.refused_nothing_written_error_queued", 1);
            else ok = 0;
            continue;
        }
        if (gl == el && (el == 0 || memcmp(got, exp, el) == 0)) {
            if (o->soft) { vh_count(o->fmt == SCPI_FORMAT_ASCII && o->op == OP_ARR ? "ascii.smoke_calls" : "unspecified.call_as_if_earlier_call_had_no_effect", 1); continue; }
            vh_count(o->ret == gl ? "retval.equals_bytes_written" : "retval.differs_from_bytes_written", 1);
            if (o->op == OP_INT && o->incomplete_before) vh_count("incomplete.next_item_not_delimited", 1);
            if (o->after_complete && el > 0 && exp[0] == ',') vh_count("item.one_comma_after_complete_block", 1);
            continue;
        }
        if (o->soft) { vh_count(o->fmt == SCPI_FORMAT_ASCII && o->op == OP_ARR ? "ascii.smoke_calls" : "unspecified.call_differs", 1); hard_ok = 0; continue; }
        if (!hard_ok) continue;
        ok = 0; hard_ok = 0;
        /* classify the witness */
        if (el > 0 && exp[0] == ',' && gl + 1 == el && memcmp(got, exp + 1, gl) == 0) {
            /* delimiter missing: the preceding block was not counted */
            const op_t * p = i > 0 ? &g_ops[i - 1] : o;
            if (p->op == OP_ARR && p->n == 0)
                report(p->fmt != host_fmt() ? "C17:empty-swapped-array-not-counted" : "C17:empty-array-not-counted", i, "no ',' after an empty binary array", v, o->out_before, o->exp_off);
            else if (o->after_complete) report("C17:complete-block-not-counted", i, "no ',' after a complete block", v, o->out_before, o->exp_off);
            else report("C17:delimiter-missing", i, "no ',' before the item", v, o->out_before, o->exp_off);
        } else if (gl == el + 1 && got[0] == ',' && (el == 0 || memcmp(got + 1, exp, el) == 0)) {
            if (o->op == OP_INT && o->incomplete_before) report("C17:incomplete-block-counted-as-item", i, "',' after a block that is not complete", v, o->out_before, o->exp_off);
            else report("C17:extra-delimiter", i, "unexpected ','", v, o->out_before, o->exp_off);
        } else {
            size_t k = 0, hl = (size_t) o->hdr_digits + 2 + (el > 0 && exp[0] == ',' ? 1 : 0);
            while (k < gl && k < el && got[k] == exp[k]) k++;
            switch (o->op) {
                case OP_ARR:
                    if (k < hl) report("C17:array-header", i, "binary array header", v, o->out_before + k, o->exp_off + k);
                    else if (gl != el) report("C17:array-byte-count", i, "binary array payload length", v, o->out_before + k, o->exp_off + k);
                    else report(tsize[o->type] == 1 ? "C17:array-bytes-single" : o->type >= T_F32 ? "C17:array-byte-order-float" : "C17:array-byte-order-int", i, "binary array element bytes", v, o->out_before + k, o->exp_off + k);
                    break;
                case OP_BLOCK:
                    if (k < hl) report("C17:block-header", i, "arbitrary block header", v, o->out_before + k, o->exp_off + k);
                    else report("C17:block-data-changed", i, "arbitrary block data", v, o->out_before + k, o->exp_off + k);
                    break;
                case OP_HDR: report("C17:block-header", i, "streamed block header", v, o->out_before + k, o->exp_off + k); break;
                case OP_DATA: report(gl == 0 ? "C17:stream-data-refused-within-length" : "C17:stream-data-changed", i, "streamed block data within the announced length", v, o->out_before + k, o->exp_off + k); break;
                default: report("C17:item-after-block", i, "result following the block", v, o->out_before + k, o->exp_off + k); break;
            }
        }
    }
    /* refusal codes */
    if (m_refusals) {
        int k, sys = 0;
        for (k = 0; k < v->nerrs; k++) if (v->errs[k] == SCPI_ERROR_SYSTEM_ERROR) sys++;
        vh_count(sys >= m_refusals ? "refusal.code_system_error_minus310" : "refusal.code_other", 1);
    }
    /* termination of the response: only where every call was determined and matched */
    if (ok && hard_ok && !m_soft) {
        size_t end = g_nops ? g_ops[g_nops - 1].out_after : 0;
        if (v->out.len != end + 2 || memcmp(v->out.p + end, "\r\n", 2) != 0 || v->out.len != g_exp.len + 2) {
            const op_t * last = &g_ops[g_nops - 1];
            /* a response consisting of an empty array only: whether it is terminated depends on the block being counted as an item */
            if (g_nops == 1 && last->op == OP_ARR && last->n == 0 && v->out.len == end)
                report(last->fmt != host_fmt() ? "C17:empty-swapped-array-not-counted" : "C17:empty-array-not-counted", g_nops - 1, "response holding only an empty binary array is not terminated", v, end, g_exp.len);
            else report("C17:response-termination", g_nops - 1, "response not terminated by exactly the line ending", v, end, g_exp.len);
            ok = 0;
        }
        else if (v->nflush != 1) { report("C17:response-flush", g_nops - 1, "response not flushed exactly once", v, end, g_exp.len); ok = 0; }
        else if (v->nerrs_total != 0) { report("C17:spurious-error", g_nops - 1, "error reported for a correct call sequence", v, end, g_exp.len); ok = 0; }
        else vh_count("response.terminated_and_flushed_once", 1);
    }
    return ok;
}

static vh_ctx_t * new_ctx(void) {
    vh_ctx_t * v = vh_ctx_new(c17_cmds, 32, 16, 0);
    v->log_enabled = 0;
    return v;
}

/* counters for one array just run */
static void count_array(int type, int fmt, size_t count) {
    char name[64];
    uint64_t bytes = (uint64_t) count * (uint64_t) tsize[type];
    snprintf(name, sizeof name, "array.%s.%s", tname[type], fmtname(fmt)); vh_count(name, 1);
    snprintf(name, sizeof name, "array.length_digits.%d", ndigits(bytes)); vh_count(name, 1);
    if (count == 0) {
        vh_count(fmt == SCPI_FORMAT_NORMAL ? "array.empty.NORMAL" : "array.empty.SWAPPED", 1);
        if (tsize[type] > 1 && fmt != host_fmt()) vh_count("array.empty.multibyte_nonnative_order", 1);
    }
    vh_count(fmt == host_fmt() ? "array.native_order" : "array.swapped_order", 1);
    if (count) vh_distinct(g_last_hash);
}

static int pick_fmt(vh_rng_t * rng) { return vh_below(rng, 2) ? SCPI_FORMAT_NORMAL : SCPI_FORMAT_SWAPPED; }

/* ---- phase 0: every type x format x length 0..300 -------------------------------------------------------- */
static uint64_t p0_count(int thorough) { (void) thorough; return (uint64_t) T__N * 2 * 301; }
static void p0_run(uint64_t idx, vh_rng_t * rng) {
    int type = (int) (idx % T__N), fmt = (idx / T__N) % 2 ? SCPI_FORMAT_SWAPPED : SCPI_FORMAT_NORMAL;
    size_t count = (size_t) (idx / (T__N * 2));
    vh_ctx_t * v = new_ctx();
    vh_case_desc("ResultArray%s count=%zu %s: first item, second item, followed by another array", tname[type], count, fmtname(fmt));
    /* the array is the first item, an integer follows */
    vh_sub = 0; s_begin(); s_array(type, fmt, count, rng); s_int(7); run_script(v); count_array(type, fmt, count);
    if (vh_want_sample() && count > 0 && count < 4) vh_sample("ResultArray%s(count %zu, %s); ResultInt32(7) -> \"%s\"", tname[type], count, fmtname(fmt), vh_esc(v->out.p, v->out.len));
    /* an integer precedes */
    vh_sub = 1; s_begin(); s_int(5); s_array(type, fmt, count, rng); s_int(-7); run_script(v); count_array(type, fmt, count);
    /* two arrays in one response */
    {
        int t2 = (int) vh_below(rng, T__N), f2 = pick_fmt(rng); size_t c2 = vh_below(rng, 4) ? vh_below(rng, 12) : 0;
        vh_sub = 2; s_begin();
        if (vh_below(rng, 2)) { s_array(type, fmt, count, rng); s_array(t2, f2, c2, rng); } else { s_array(t2, f2, c2, rng); s_array(type, fmt, count, rng); }
        s_int(7); run_script(v); count_array(type, fmt, count); count_array(t2, f2, c2);
    }
    /* the array ends the response */
    vh_sub = 3; s_begin(); s_array(type, fmt, count, rng); run_script(v); count_array(type, fmt, count);
    vh_ctx_free(v);
}

/* ---- phase 1: random arrays ----------------------------------------------------------------------------- */
static const uint32_t len_bounds[] = { 9, 10, 11, 99, 100, 101, 999, 1000, 1001, 9999, 10000, 10001 };
static size_t pick_count(vh_rng_t * rng, int size) {
    switch (vh_below(rng, 12)) {
        case 0: return 0;
        case 1: return vh_below(rng, 4);
        case 2: case 3: { uint32_t b = len_bounds[vh_below(rng, 9)]; return (size_t) ((b + vh_below(rng, (uint32_t) size)) / (uint32_t) size); } /* byte counts around 10, 100, 1000 */
        case 4: if (vh_below(rng, 40) == 0) { static const uint32_t big[] = { 9999, 10000, 10001, 99999, 100000, 100001 }; return (size_t) ((big[vh_below(rng, 6)] + vh_below(rng, (uint32_t) size)) / (uint32_t) size); }
                return vh_below(rng, 301);
        default: return vh_below(rng, 301);
    }
}
static uint64_t p1_count(int thorough) { return vh_scaled(thorough ? 1250000 : 45000); }
static void p1_run(uint64_t idx, vh_rng_t * rng) {
    vh_ctx_t * v = new_ctx();
    int q;
    (void) idx;
    for (q = 0; q < 2; q++) {
        int t1 = (int) vh_below(rng, T__N), f1 = pick_fmt(rng), t2 = (int) vh_below(rng, T__N), f2 = pick_fmt(rng);
        size_t c1 = pick_count(rng, tsize[t1]), c2 = pick_count(rng, tsize[t2]);
        int lead = (int) vh_below(rng, 3) == 0, mid = (int) vh_below(rng, 3) == 0, tail = vh_below(rng, 8) != 0;
        vh_sub = (uint64_t) q;
        vh_case_desc("random arrays: %s%s[%zu] %s,%s%s[%zu] %s%s", lead ? "int," : "", tname[t1], c1, fmtname(f1), mid ? "int," : "", tname[t2], c2, fmtname(f2), tail ? ",int" : "");
        s_begin();
        if (lead) s_int((int32_t) vh_below(rng, 2000) - 1000);
        s_array(t1, f1, c1, rng);
        { uint64_t h1 = g_last_hash;
          if (mid) s_int((int32_t) vh_rand(rng));
          s_array(t2, f2, c2, rng);
          if (tail) s_int(7);
          run_script(v);
          count_array(t2, f2, c2); g_last_hash = h1; count_array(t1, f1, c1); }
    }
    vh_ctx_free(v);
}

/* ---- phase 2: whole arbitrary blocks ----------------------------------------------------------------------- */
static void fill_bytes(unsigned char * d, size_t len, vh_rng_t * rng) {
    size_t i; int mode = (int) vh_below(rng, 4);
    for (i = 0; i < len; i++) {
        if (mode == 0) d[i] = (unsigned char) i;
        else if (mode == 1) d[i] = (unsigned char) "#,;\r\n\0\"0"[vh_below(rng, 8)];
        else d[i] = (unsigned char) vh_rand(rng);
    }
}
static const uint32_t big_lens[] = { 9998, 9999, 10000, 10001, 65535, 65536, 99999, 100000, 100001, 999999, 1000000, 1000001 };
#define P2_SMALL 1200
static uint64_t p2_count(int thorough) { return P2_SMALL + sizeof big_lens / sizeof big_lens[0] + vh_scaled(thorough ? 20000 : 2000); }
static void p2_run(uint64_t idx, vh_rng_t * rng) {
    size_t nbig = sizeof big_lens / sizeof big_lens[0];
    size_t len = idx < P2_SMALL ? (size_t) idx : idx < P2_SMALL + nbig ? big_lens[idx - P2_SMALL] : (vh_below(rng, 4) ? vh_below(rng, 1200) : vh_below(rng, 20000));
    unsigned char * d = (unsigned char *) malloc(len ? len : 1);
    vh_ctx_t * v = new_ctx();
    char name[64];
    fill_bytes(d, len, rng);
    vh_case_desc("ResultArbitraryBlock len=%zu", len);
    vh_sub = 0; s_begin(); s_block(d, len); s_int(7); run_script(v);
    if (vh_want_sample() && len > 0 && len < 8) vh_sample("ResultArbitraryBlock(%zu bytes); ResultInt32(7) -> \"%s\"", len, vh_esc(v->out.p, v->out.len));
    {
        size_t l2 = vh_below(rng, 3) ? vh_below(rng, 12) : 0;
        vh_sub = 1; s_begin(); s_int(5); s_block(d, len); s_block(d, l2 < len ? l2 : len); s_int(7); run_script(v);
        vh_sub = 2; s_begin(); s_block(d, len); run_script(v);
    }
    vh_count("block.whole", 4);
    snprintf(name, sizeof name, "block.length_digits.%d", ndigits(len)); vh_count(name, 1);
    if (len == 0) vh_count("block.empty", 1);
    if (len) vh_distinct(vh_hash(d, len < 64 ? len : 64, vh_hash_u64(len, 5)));
    vh_ctx_free(v); free(d);
}

/* ---- streamed blocks ------------------------------------------------------------------------------------------ */
enum { SV_COMPLETE, SV_OVER_AT, SV_EXTRA_AFTER, SV_INCOMPLETE, SV_COMPLETE_LEAD, SV__N };
static void stream_script(vh_ctx_t * v, const unsigned char * d, size_t L, const size_t * chunk, int k, int variant, int pos, size_t over, int null_ptr) {
    size_t off = 0, announced = L; int j, closed = 0;
    static unsigned char junk[8] = { 'X', 'Y', 'Z', 'W', 'V', 'U', 'T', 'S' };
    s_begin();
    if (variant == SV_COMPLETE_LEAD) s_int(5);
    if (variant == SV_INCOMPLETE) announced = L + over;
    s_header(announced);
    for (j = 0; j < k; j++) {
        if (variant == SV_OVER_AT && j == pos) {
            /* everything that is still missing plus `over` bytes: must be refused as a whole */
            size_t rem = L - off, n = rem + over;
            unsigned char * t = (unsigned char *) malloc(n);
            memcpy(t, d + off, rem); memcpy(t + rem, junk, over);
            s_data(t, n, 0); free(t);
            vh_count(j == k - 1 && over == 1 && chunk[j] == rem ? "refusal.last_call_one_byte_too_many" : "refusal.call_exceeding_remaining", 1);
        }
        s_data(d + off, chunk[j], null_ptr);
        if (chunk[j] == 0) vh_count(closed ? "stream.zero_length_call_after_completion" : L == 0 ? "stream.zero_length_call_completes_empty_block" : "stream.zero_length_call_inside", 1);
        off += chunk[j];
        if (off == announced) closed = 1;
    }
    if (variant == SV_EXTRA_AFTER) { s_data(junk, over, 0); vh_count("refusal.extra_call_after_completion", 1); }
    s_int(7);
    run_script(v);
    switch (variant) {
        case SV_COMPLETE: case SV_COMPLETE_LEAD: { char name[48]; snprintf(name, sizeof name, "stream.complete.data_calls_%d", k); vh_count(name, 1); break; }
        case SV_INCOMPLETE: vh_count("stream.incomplete_then_item", 1); break;
        default: break;
    }
}

/* phase 3: every split of L bytes into k calls (zero-length calls included), L 0..20, k 1..4 */
#define P3_MAXL 20
static uint64_t p3_count(int thorough) { (void) thorough; return (uint64_t) (P3_MAXL + 1) * 4; }
static void p3_run(uint64_t idx, vh_rng_t * rng) {
    size_t L = (size_t) (idx / 4); int k = (int) (idx % 4) + 1;
    unsigned char d[P3_MAXL + 1];
    size_t c[4] = { 0, 0, 0, 0 };
    uint64_t nsplit = 0;
    vh_ctx_t * v = new_ctx();
    fill_bytes(d, L, rng);
    vh_case_desc("stream: every split of %zu bytes into %d data calls", L, k);
    /* odometer over c[0..k-2] in 0..L with prefix sum <= L; last chunk takes the rest */
    for (;;) {
        size_t sum = 0; int j;
        for (j = 0; j < k - 1; j++) sum += c[j];
        if (sum <= L) {
            c[k - 1] = L - sum;
            vh_sub = nsplit++;
            stream_script(v, d, L, c, k, SV_COMPLETE, 0, 0, (int) (nsplit & 1));
            stream_script(v, d, L, c, k, SV_COMPLETE_LEAD, 0, 0, 0);
            stream_script(v, d, L, c, k, SV_OVER_AT, k - 1, 1, 0);                                       /* one byte too many in the last call */
            stream_script(v, d, L, c, k, SV_OVER_AT, (int) (nsplit % (uint64_t) k), 1 + (nsplit % 3), 0); /* too much at some call */
            stream_script(v, d, L, c, k, SV_EXTRA_AFTER, 0, 1 + (nsplit % 4), 0);
            stream_script(v, d, L, c, k, SV_INCOMPLETE, 0, 1 + (nsplit % 5), 0);
            vh_distinct(vh_hash(c, sizeof c, vh_hash_u64(L * 8 + (uint64_t) k, 3)));
        }
        /* next tuple */
        for (j = 0; j < k - 1; j++) { if (++c[j] <= L) break; c[j] = 0; }
        if (j >= k - 1) break;
    }
    vh_count("stream.splits_enumerated", nsplit);
    vh_ctx_free(v);
}

/* phase 4: random streamed blocks */
static uint64_t p4_count(int thorough) { return vh_scaled(thorough ? 300000 : 20000); }
static void p4_run(uint64_t idx, vh_rng_t * rng) {
    size_t L = vh_below(rng, 4) == 0 ? len_bounds[vh_below(rng, 12)] : vh_below(rng, 301);
    int k = 1 + (int) vh_below(rng, 4), j, variant = (int) vh_below(rng, SV__N);
    size_t c[4], left = L;
    unsigned char * d = (unsigned char *) malloc(L ? L : 1);
    vh_ctx_t * v = new_ctx();
    (void) idx;
    fill_bytes(d, L, rng);
    for (j = 0; j < k - 1; j++) {
        switch (vh_below(rng, 5)) { case 0: c[j] = 0; break; case 1: c[j] = left; break; case 2: c[j] = left ? 1 : 0; break; default: c[j] = vh_below(rng, (uint32_t) left + 1); break; }
        left -= c[j];
    }
    c[k - 1] = left;
    vh_case_desc("stream: %zu bytes in %d calls (%zu,%zu,%zu,%zu) variant %d", L, k, c[0], k > 1 ? c[1] : 0, k > 2 ? c[2] : 0, k > 3 ? c[3] : 0, variant);
    stream_script(v, d, L, c, k, variant, (int) vh_below(rng, (uint32_t) k), 1 + vh_below(rng, 8), (int) vh_below(rng, 2));
    if (variant != SV_COMPLETE) stream_script(v, d, L, c, k, SV_COMPLETE, 0, 0, 0);
    { char name[48]; snprintf(name, sizeof name, "stream.length_digits.%d", ndigits(L)); vh_count(name, 1); }
    if (L) vh_distinct(vh_hash(c, sizeof(size_t) * (size_t) k, vh_hash_u64(L, 4)));
    vh_ctx_free(v); free(d);
}

/* ---- phase 5: header-only calls: every power of ten +-1 below 10^9 ---------------------------------------- */
#define P5_FIXED 28
static uint64_t p5_len(uint64_t idx, vh_rng_t * rng) {
    if (idx < 27) { uint64_t p = 1; int e = (int) (idx / 3); while (e--) p *= 10; return p + (idx % 3) - 1; } /* 10^e-1, 10^e, 10^e+1 for e = 0..8 */
    if (idx == 27) return 999999999ULL;
    { int nd = 1 + (int) vh_below(rng, 9); uint64_t lo = 1, hi; while (--nd) lo *= 10; hi = lo * 10; if (lo == 1) lo = 0; return lo + vh_rand(rng) % (hi - lo); }
}
static uint64_t p5_count(int thorough) { return P5_FIXED + vh_scaled(thorough ? 20000 : 2000); }
static void p5_run(uint64_t idx, vh_rng_t * rng) {
    uint64_t len = p5_len(idx, rng);
    vh_ctx_t * v = new_ctx();
    char name[64];
    vh_case_desc("ResultArbitraryBlockHeader(%llu) alone", (unsigned long long) len);
    /* header alone: the bytes written by the call are the header; what ends such a response is not stated */
    vh_sub = 0; s_begin(); s_header(len); m_soft = 1; run_script(v);
    if (vh_want_sample() && idx < P5_FIXED) vh_sample("ResultArbitraryBlockHeader(%llu) -> \"%s\"", (unsigned long long) len, vh_esc(v->out.p, g_ops[0].out_after));
    vh_sub = 1; s_begin(); s_int(5); s_header(len); m_soft = 1; run_script(v);
    /* an item emitted while the block is incomplete: the block does not count yet */
    vh_sub = 2; s_begin(); s_header(len); s_int(7); run_script(v);
    if (len == 0) vh_count(v->out.len >= 4 && v->out.p[3] == ',' ? "header_zero_without_data_call.next_item_delimited" : "header_zero_without_data_call.next_item_not_delimited", 1);
    snprintf(name, sizeof name, "header_only.length_digits.%d", ndigits(len)); vh_count(name, 1);
    if (idx < 27 && idx % 3 == 1) vh_count("header_only.power_of_ten", 1);
    vh_distinct(vh_hash_u64(len, 6));
    vh_ctx_free(v);
}

/* ---- phase 6: ASCII format smoke (belongs to other properties: executed, nothing asserted) ------------------- */
static uint64_t p6_count(int thorough) { (void) thorough; return 40; }
static void p6_run(uint64_t idx, vh_rng_t * rng) {
    vh_ctx_t * v = new_ctx();
    int type = (int) (idx % T__N);
    vh_case_desc("ASCII smoke ResultArray%s", tname[type]);
    s_begin(); s_array(type, SCPI_FORMAT_ASCII, vh_below(rng, 6), rng); s_int(7); run_script(v);
    vh_ctx_free(v);
}

/* ---- phase 7: large REAL payloads (a waveform record): one write of more than 64 KiB and of more than 128 KiB of data, as a whole block,
 * as one data call behind a header, and as arrays in both byte orders ---------------------------------------------------------------------- */
static const size_t p7_bytes[] = { 65535, 65536, 131070, 131071, 131072, 200000, 262144, 400000, 1000000 };
static uint64_t p7_count(int thorough) { return (uint64_t) (sizeof p7_bytes / sizeof p7_bytes[0]) * (thorough ? 8 : 4); }
static void p7_run(uint64_t idx, vh_rng_t * rng) {
    size_t nb = p7_bytes[idx % (sizeof p7_bytes / sizeof p7_bytes[0])], i; int shape = (int) (idx / (sizeof p7_bytes / sizeof p7_bytes[0])) % 8;
    vh_ctx_t * v = new_ctx(); unsigned char * d;
    vh_case_desc("payload of %zu bytes, shape %d", nb, shape);
    s_begin();
    switch (shape) {
        case 0: d = (unsigned char *) malloc(nb); for (i = 0; i < nb; i++) d[i] = (unsigned char) (i * 31 + (i >> 8) * 7 + (i >> 16)); s_block(d, nb); s_int(7); run_script(v); free(d); break;
        case 1: d = (unsigned char *) malloc(nb); for (i = 0; i < nb; i++) d[i] = (unsigned char) (i * 13 + (i >> 9)); s_int(5); s_header(nb); s_data(d, nb, 0); run_script(v); free(d); break;
        case 2: s_array(T_U8, SCPI_FORMAT_NORMAL, nb, rng); s_int(7); run_script(v); break;
        case 3: s_array(T_I16, SCPI_FORMAT_SWAPPED, nb / 2, rng); run_script(v); break;
        case 4: s_array(T_I16, SCPI_FORMAT_NORMAL, nb / 2, rng); run_script(v); break;
        case 5: s_array(T_F64, SCPI_FORMAT_SWAPPED, nb / 8, rng); s_int(-1); run_script(v); break;
        case 6: s_array(T_U32, SCPI_FORMAT_NORMAL, nb / 4, rng); run_script(v); break;
        default: s_array(T_I8, SCPI_FORMAT_SWAPPED, nb, rng); run_script(v); break;
    }
    vh_count(nb > 131070 ? "payload.more_than_131070_bytes_in_one_call" : "payload.64KiB_to_128KiB_in_one_call", 1);
    vh_ctx_free(v);
}

int main(int argc, char ** argv) {
    vh_decoy_enable(5); vh_require("decoy.messages_run_on_a_second_context"); vh_require("array.window_at_element_offset");
    static const vh_phase_t phases[] = {
        { "arrays_every_type_format_length", p0_count, p0_run },
        { "arrays_random", p1_count, p1_run },
        { "whole_blocks", p2_count, p2_run },
        { "stream_every_split", p3_count, p3_run },
        { "stream_random", p4_count, p4_run },
        { "header_only", p5_count, p5_run },
        { "ascii_smoke", p6_count, p6_run },
        { "large_payloads", p7_count, p7_run },
    };
    int rc;
    vh_require("array.native_order"); vh_require("payload.more_than_131070_bytes_in_one_call");
    vh_require("array.swapped_order");
    vh_require("array.empty.multibyte_nonnative_order");
    vh_require("array.empty.NORMAL");
    vh_require("array.empty.SWAPPED");
    vh_require("array.length_digits.1");
    vh_require("array.length_digits.2");
    vh_require("array.length_digits.3");
    vh_require("array.length_digits.4");
    vh_require("item.one_comma_after_complete_block");
    vh_require("response.terminated_and_flushed_once");
    vh_require("block.whole");
    vh_require("block.empty");
    vh_require("stream.splits_enumerated");
    vh_require("stream.zero_length_call_inside");
    vh_require("stream.zero_length_call_completes_empty_block");
    vh_require("stream.zero_length_call_after_completion");
    vh_require("refusal.last_call_one_byte_too_many");
    vh_require("refusal.extra_call_after_completion");
    vh_require("refusal.refused_nothing_written_error_queued");
    vh_require("incomplete.next_item_not_delimited");
    vh_require("header_only.power_of_ten");
    vh_require("header_only.length_digits.9");
    rc = vh_main(argc, argv, "C17", phases, 8);
    s_begin(); vh_buf_free(&g_exp);
    return rc;
}
