/* C06 - responses are framed: ';' between units, ',' between items, one terminator + one flush.
 * Oracle: byte-exact prediction of the whole response built WITHOUT the library (own item encoders). */
#include "vh_scpi.h"
#include <stdio.h>
#include <stdlib.h>
#include <string.h>

#define NQ 8
#define NC 3
static const scpi_command_t cmds[] = {
    { "Q1?", vh_handler, 1 }, { "Q2?", vh_handler, 2 }, { "Q3?", vh_handler, 3 }, { "Q4?", vh_handler, 4 },
    { "QUEry?", vh_handler, 5 }, { "SYSTem:Q6?", vh_handler, 6 }, { "SYSTem:Q7?", vh_handler, 7 }, { "*Q8?", vh_handler, 8 },
    { "C1", vh_handler, 9 }, { "SYSTem:C2", vh_handler, 10 }, { "*C3", vh_handler, 11 },
    /* entries without a handler (the callback column is the application's): they accept their header, run nothing, answer nothing */
    { "STANDby", NULL, 12 }, { "SYSTem:IDLE", NULL, 13 }, { "H3?", NULL, 14 }, { "*H4", NULL, 15 },
    SCPI_CMD_LIST_END
};
static const char * const hdr_short[NQ + NC] = { "Q1?", "q2?", ":Q3?", "Q4?", "QUE?", ":SYST:Q6?", "SYSTEM:Q7?", "*Q8?", "C1", ":SYST:C2", "*C3" };
static const char * const hdr_long[NQ + NC] = { "Q1?", "Q2?", "Q3?", "q4?", "QUERY?", ":SYSTem:Q6?", ":system:q7?", "*q8?", "c1", ":SYSTEM:C2", "*c3" };

/* ---- independent item encoders --------------------------------------------------------------- */
static void enc_unsigned(vh_buf_t * b, uint64_t v, int base) {
    char t[70]; int n = 0;
    if (base == 2) vh_buf_adds(b, "#B"); else if (base == 8) vh_buf_adds(b, "#Q"); else if (base == 16) vh_buf_adds(b, "#H"); else base = 10;
    if (v == 0) t[n++] = '0';
    while (v) { t[n++] = "0123456789ABCDEF"[v % (unsigned) base]; v /= (unsigned) base; }
    while (n) vh_buf_addc(b, t[--n]);
}
static void enc_signed(vh_buf_t * b, int64_t v) {
    if (v < 0) { vh_buf_addc(b, '-'); enc_unsigned(b, (uint64_t) (-(v + 1)) + 1, 10); } else enc_unsigned(b, (uint64_t) v, 10);
}
static void enc_text(vh_buf_t * b, const char * s) { vh_buf_addc(b, '"'); for (; *s; s++) { vh_buf_addc(b, *s); if (*s == '"') vh_buf_addc(b, '"'); } vh_buf_addc(b, '"'); }
static void enc_block(vh_buf_t * b, const char * d, size_t n) { char t[24]; int k = snprintf(t, sizeof t, "%zu", n); vh_buf_printf(b, "#%d%s", k, t); vh_buf_add(b, d, n); }

/* floating point values with short exact decimal expansions and their canonical %g texts */
static const struct { double v; const char * txt; } fpvals[] = {
    { 0.5, "0.5" }, { 1.25, "1.25" }, { -2.75, "-2.75" }, { 1024, "1024" }, { 0.125, "0.125" }, { 3, "3" }, { 42.5, "42.5" }, { -0.375, "-0.375" }, { 100, "100" }, { 0, "0" }, { -7, "-7" }, { 65536.5, "65536.5" } };
#define NFP (sizeof fpvals / sizeof fpvals[0])
static const char * const texts[] = { "", "abc", "a\"b", "\"", "\"\"", "semi;colon", "com,ma", "new\nline", "it's", "x" };
static const char * const mnems[] = { "ABC", "MIN", "X1_Y", "0", "VOLT", "", "" }; /* character data may be empty: an item all the same (it is counted, separated and makes its unit a responder) */
static const char blockdata[] = "\n;\",#0\x00\xff\x80 abcdefghijklmnopqrstuvwxyz0123456789";

static uint16_t long_array[700];
static void gen_out(vh_rng_t * rng, vh_out_t * o, vh_buf_t * exp) {
    static const int bases[] = { 10, 16, 8, 2 };
    uint64_t r = vh_rand(rng) >> vh_below(rng, 64);
    memset(o, 0, sizeof *o);
    if (vh_below(rng, 50) == 0) {
        /* one handler may emit hundreds of items (ASCII array result): item counts beyond the range of small integer types */
        static const int ns[] = { 255, 256, 257, 300, 511, 512, 513, 600, 1, 2 };
        int n = ns[vh_below(rng, 10)], i;
        if (!long_array[1]) for (i = 0; i < 700; i++) long_array[i] = (uint16_t) ((i * 7) & 0x3ff);
        o->kind = VO_ARR_UINT16; o->fmt = SCPI_FORMAT_ASCII; o->data = (const char *) long_array; o->len = (size_t) n * 2;
        for (i = 0; i < n; i++) { if (i) vh_buf_addc(exp, ','); enc_unsigned(exp, long_array[i], 10); }
        vh_count("items.long_ascii_array", 1);
        return;
    }
    switch (vh_below(rng, 14)) {
        case 0: o->kind = VO_INT32; o->u = (uint64_t) (int64_t) (int32_t) r; enc_signed(exp, (int32_t) r); break;
        case 1: o->kind = VO_UINT32; o->base = (int8_t) bases[vh_below(rng, 4)]; o->u = (uint32_t) r; enc_unsigned(exp, (uint32_t) r, o->base); break;
        case 2: o->kind = VO_INT64; o->u = vh_chance(rng, 1, 2) ? r : ~r; enc_signed(exp, (int64_t) o->u); break;
        case 3: o->kind = VO_UINT64; o->base = (int8_t) bases[vh_below(rng, 4)]; o->u = r; enc_unsigned(exp, r, o->base); break;
        case 4: o->kind = VO_INT8; o->u = (uint64_t) (int64_t) (int8_t) r; enc_signed(exp, (int8_t) r); break;
        case 5: o->kind = VO_UINT16; o->base = (int8_t) bases[vh_below(rng, 4)]; o->u = (uint16_t) r; enc_unsigned(exp, (uint16_t) r, o->base); break;
        case 6: o->kind = VO_BOOL; o->u = r & 1; vh_buf_addc(exp, (r & 1) ? '1' : '0'); break;
        case 7: { const char * t = texts[vh_below(rng, sizeof texts / sizeof texts[0])]; o->kind = VO_TEXT; o->data = t; o->len = strlen(t); enc_text(exp, t); break; }
        case 8: { const char * t = mnems[vh_below(rng, sizeof mnems / sizeof mnems[0])]; o->kind = VO_MNEM; o->data = t; o->len = strlen(t); vh_buf_adds(exp, t); if (!*t) vh_count("items.empty_character_data", 1); break; }
        case 9: { size_t n = vh_below(rng, sizeof blockdata); o->kind = VO_BLOCK; o->data = blockdata; o->len = n; enc_block(exp, blockdata, n); break; }
        case 10: { size_t n = vh_below(rng, sizeof blockdata); o->kind = VO_BLOCK_STREAM; o->data = blockdata; o->len = n; o->split[0] = (uint16_t) vh_below(rng, 5); o->split[1] = (uint16_t) vh_below(rng, 20); o->split[2] = (uint16_t) vh_below(rng, 3); enc_block(exp, blockdata, n); break; }
        case 11: { int k = (int) vh_below(rng, NFP); o->kind = VO_DOUBLE; o->d = fpvals[k].v; vh_buf_adds(exp, fpvals[k].txt); break; }
        case 12: { int k = (int) vh_below(rng, NFP); o->kind = VO_FLOAT; o->d = fpvals[k].v; vh_buf_adds(exp, fpvals[k].txt); break; }
        default: o->kind = VO_INT16; o->u = (uint64_t) (int64_t) (int16_t) r; enc_signed(exp, (int16_t) r); break;
    }
}

/* ---- message generation -------------------------------------------------------------------------- */
typedef struct { vh_buf_t text; vh_buf_t expect; int responders; int units; int nerr_units; vh_buf_t shape; } msg_t;
static vh_sig_t sigs[NQ + NC];

/* a header without leading ':'/'*' is relative to the path of the preceding compound header; once any unit of the message
 * had an inner colon every later compound header is written with a leading colon, so that resolution never depends on C02 */
static int need_colon;
static void put_header(msg_t * m, const char * h) {
    if (h[0] != ':' && h[0] != '*' && need_colon) vh_buf_addc(&m->text, ':');
    vh_buf_adds(&m->text, h);
    if (h[0] != '*' && strchr(h + 1, ':')) need_colon = 1;
}

static void gen_message(vh_rng_t * rng, msg_t * m) {
    int nu = 1 + (int) vh_below(rng, 6), u, used_q[NQ + NC];
    need_colon = 0;
    memset(used_q, 0, sizeof used_q);
    vh_buf_reset(&m->text); vh_buf_reset(&m->expect); vh_buf_reset(&m->shape);
    m->responders = 0; m->units = nu; m->nerr_units = 0;
    memset(sigs, 0, sizeof sigs);
    for (u = 0; u < nu; u++) {
        uint32_t kind = vh_below(rng, 100);
        if (u) vh_buf_addc(&m->text, ';');
        if (vh_chance(rng, 1, 5)) vh_buf_adds(&m->text, vh_chance(rng, 1, 2) ? " " : "\t ");
        if (kind < 70) {
            /* a query with a random behaviour; every query tag is used at most once per message so that its script is unambiguous */
            int q = (int) vh_below(rng, NQ), tries = 0, nouts, i, emitted;
            vh_sig_t * s;
            while (used_q[q] && tries++ < 20) q = (int) vh_below(rng, NQ);
            if (used_q[q]) { put_header(m, "*C3"); sigs[10].verdict = VV_OK; vh_buf_addc(&m->shape, 'c'); continue; }
            used_q[q] = 1; s = &sigs[q];
            /* headers after a SYSTem: unit are written with leading colon or as common commands so that path composition never makes them undefined */
            put_header(m, vh_chance(rng, 1, 2) ? hdr_short[q] : hdr_long[q]);
            nouts = (int) vh_below(rng, 5); /* 0..4 items */
            s->nouts = nouts;
            {
                uint32_t b = vh_below(rng, 100);
                vh_buf_t tmp = { 0, 0, 0 };
                if (b < 55) { s->verdict = VV_OK; emitted = nouts; vh_buf_addc(&m->shape, nouts ? 'Q' : 'n'); }
                else if (b < 70) { s->verdict = VV_ERR; s->fail_after = 0; emitted = 0; vh_buf_addc(&m->shape, 'f'); }
                else if (b < 82) { s->verdict = vh_chance(rng, 1, 2) ? VV_ERR : VV_OWNERR_ERR; s->own_err = -221; s->fail_after = (uint8_t) (nouts ? 1 + vh_below(rng, (uint32_t) nouts) : 0); emitted = s->fail_after; vh_buf_addc(&m->shape, emitted ? 'p' : 'f'); }
                else if (b < 92) { s->verdict = VV_OWNERR_OK; s->own_err = -222; s->fail_after = (uint8_t) nouts; emitted = nouts; vh_buf_addc(&m->shape, nouts ? 'e' : 'E'); }
                else { s->verdict = VV_OWNERR_ERR; s->own_err = -230; s->fail_after = 0; emitted = 0; vh_buf_addc(&m->shape, 'f'); }
                if (s->verdict != VV_OK && s->verdict != VV_OWNERR_OK) m->nerr_units++;
                for (i = 0; i < nouts; i++) {
                    vh_buf_reset(&tmp);
                    gen_out(rng, &s->outs[i], &tmp);
                    if (i < emitted) {
                        if (i == 0) { if (m->responders) vh_buf_addc(&m->expect, ';'); m->responders++; } else vh_buf_addc(&m->expect, ',');
                        vh_buf_add(&m->expect, tmp.p, tmp.len);
                    }
                }
                vh_buf_free(&tmp);
            }
            /* sometimes an unread parameter: the unit still responds, then -108 is queued */
            if (vh_chance(rng, 1, 12)) { vh_buf_adds(&m->text, " 1"); vh_buf_addc(&m->shape, '+'); }
        } else if (kind < 74) {
            static const char * const nohandler[] = { "STANDBY", "stand", ":SYST:IDLE", "H3?", "*H4", "*h4" };
            put_header(m, nohandler[vh_below(rng, 6)]); vh_buf_addc(&m->shape, 'h'); vh_count("units.accepted_by_an_entry_without_handler", 1);
        } else if (kind < 82) {
            int c = NQ + (int) vh_below(rng, NC);
            put_header(m, vh_chance(rng, 1, 2) ? hdr_short[c] : hdr_long[c]);
            sigs[c].verdict = vh_chance(rng, 1, 4) ? VV_ERR : VV_OK; /* same tag may repeat: verdict of the last assignment applies to all, harmless (no output either way) */
            vh_buf_addc(&m->shape, 'c');
        } else if (kind < 91) {
            static const char * const undef[] = { "FOO:BAR?", "*NOPE?", ":UNDEF", "Q9?", "*Q1?" };
            put_header(m, undef[vh_below(rng, 5)]); vh_buf_addc(&m->shape, 'u'); m->nerr_units++;
        } else if (kind < 96) {
            static const char * const bad[] = { "$", "Q1? \"abc", "C1 1,,2", "@", "C1 #" };
            /* syntax errors; none of them can respond. "Q1? \"abc" swallows the rest of the line as an invalid unit start */
            const char * t = bad[vh_below(rng, 5)];
            if (t[0] == 'Q') { t = "$"; }
            vh_buf_adds(&m->text, t); vh_buf_addc(&m->shape, 'x'); m->nerr_units++;
        } else {
            vh_buf_addc(&m->shape, '0'); /* empty unit */
        }
    }
    if (m->responders) vh_buf_adds(&m->expect, SCPI_LINE_ENDING);
}

static const char * classify(const char * got, size_t gl, const char * exp, size_t el, unsigned nflush, int responders, int flush_after_last_write) {
    size_t le = strlen(SCPI_LINE_ENDING);
    if (gl == el && memcmp(got, exp, gl) == 0) {
        if (nflush != (responders ? 1u : 0u)) return nflush > 1 ? "C06:flush-repeated" : (nflush == 0 ? "C06:flush-missing" : "C06:flush-without-response");
        if (responders && !flush_after_last_write) return "C06:flush-before-last-write";
        return NULL;
    }
    if (el == 0) return (gl == le && memcmp(got, SCPI_LINE_ENDING, le) == 0) ? "C06:terminator-without-response" : "C06:output-without-response";
    if (gl + le == el && memcmp(got, exp, gl) == 0) return "C06:terminator-missing";
    if (gl == el + le && memcmp(got, exp, el) == 0) return "C06:terminator-repeated";
    {
        /* separator diagnosis: remove/insert a single ';' or ',' */
        size_t i = 0; while (i < gl && i < el && got[i] == exp[i]) i++;
        if (i < gl && got[i] == ';' && gl > el) return "C06:separator-without-response";
        if (i < el && exp[i] == ';' && gl < el) return "C06:unit-separator-missing";
        if (i < gl && got[i] == ',' && gl > el) return "C06:item-separator-extra";
        if (i < el && exp[i] == ',' && gl < el) return "C06:item-separator-missing";
    }
    return "C06:bytes-differ";
}

static void run_message(vh_ctx_t * v, msg_t * m, int via_flush, const char * how) {
    const char * key;
    vh_ctx_clear_capture(v);
    v->sigs = sigs; v->nsigs = NQ + NC;
    if (via_flush) { if (m->text.len) vh_deliver(v, m->text.p, m->text.len, 0, 1 + (int) (m->text.len % 2)); else vh_input(v, NULL, 0); }
    else { vh_buf_t t = { 0, 0, 0 }; vh_buf_add(&t, m->text.p, m->text.len); vh_buf_adds(&t, (via_flush & 2) ? "\r\n" : "\n"); vh_input(v, t.p, t.len); vh_buf_free(&t); }
    vh_eval(1);
    if (v->nsrq) vh_count("status.service_request_raised_during_the_message", 1);
    key = classify(v->out.p ? v->out.p : "", v->out.len, m->expect.p ? m->expect.p : "", m->expect.len, v->nflush, m->responders, !v->write_after_flush);
    if (key) vh_violation(key, "message \"%s\" (%s; unit kinds %s): wrote \"%s\" with %u flush(es), expected \"%s\" with %d", vh_esc(m->text.p, m->text.len), how, vh_buf_cstr(&m->shape),
                          vh_esc(v->out.p, v->out.len), v->nflush, vh_esc(m->expect.p, m->expect.len), m->responders ? 1 : 0);
    SCPI_ErrorClear(v->ctx);
}

/* ---- a second context ("module") whose parser runs inside the callbacks of the first ("mainframe" forwarding a query) --------- */
static vh_ctx_t * vB; static vh_sig_t sigsB[NQ + NC]; static int nested_stage; static unsigned nested_runs, nested_bad; static char nested_got[80];
static void nested_hook(scpi_t * context, int stage) {
    static const char fwd[] = "Q1?;C1;Q2?\n"; char want[24]; size_t wl = (size_t) snprintf(want, sizeof want, "15;\"m\"%s", SCPI_LINE_ENDING);
    if (!vB || context == vB->ctx || stage != nested_stage) return;
    vh_ctx_clear_capture(vB);
    vh_input(vB, fwd, sizeof fwd - 1);
    nested_runs++;
    if (vB->out.len != wl || memcmp(vB->out.p, want, wl) != 0 || vB->nflush != 1) { if (!nested_bad++) snprintf(nested_got, sizeof nested_got, "%s", vh_esc(vB->out.p ? vB->out.p : "", vB->out.len)); }
}
static void nested_begin(uint64_t idx) {
    memset(sigsB, 0, sizeof sigsB);
    sigsB[0].nouts = 1; sigsB[0].outs[0].kind = VO_INT32; sigsB[0].outs[0].u = 15;
    sigsB[1].nouts = 1; sigsB[1].outs[0].kind = VO_TEXT; sigsB[1].outs[0].data = "m"; sigsB[1].outs[0].len = 1;
    vB = vh_ctx_new(cmds, 64, 4, 64); vB->log_enabled = 0; vB->sigs = sigsB; vB->nsigs = NQ + NC;
    nested_stage = (int) ((idx >> 2) & 1); nested_runs = nested_bad = 0;
    vh_nested_hook = nested_hook;
}
static void nested_end(const msg_t * m) {
    vh_nested_hook = NULL;
    if (nested_bad) vh_violation("C06:other-context-response-differs", "message \"%s\" on context A; every handler of A forwards \"Q1?;C1;Q2?\" to context B (%s): B wrote \"%s\" (%u of %u forwards differ)", vh_esc(m->text.p, m->text.len), nested_stage ? "before its first result" : "on entry", nested_got, nested_bad, nested_runs);
    if (nested_runs) vh_count(nested_stage ? "nested.other_context_parsed_before_first_result" : "nested.other_context_parsed_on_handler_entry", nested_runs);
    vh_ctx_free(vB); vB = NULL;
}

/* the status system is enabled the way an application polling by service request has it: errors and failing units of the message then
 * raise MSS and call the control callback in the middle of the response - framing and the single flush must not depend on that */
static int g_status_on;
static vh_ctx_t * new_ctx(void) {
    vh_ctx_t * v = vh_ctx_new(cmds, 700, 8, 64); v->log_enabled = 0;
    if (g_status_on) { SCPI_RegSet(v->ctx, SCPI_REG_ESE, 0xFF); SCPI_RegSet(v->ctx, SCPI_REG_SRE, 0xBF); SCPI_RegSet(v->ctx, SCPI_REG_OPERE, 0xFFFF); SCPI_RegSet(v->ctx, SCPI_REG_QUESE, 0xFFFF); }
    return v;
}

static uint64_t p0_count(int thorough) {
#if VH_ASAN
    return vh_scaled(thorough ? 600000 : 60000);
#else
    return vh_scaled(thorough ? 6000000 : 300000);
#endif
}
static void p0_run(uint64_t idx, vh_rng_t * rng) {
    static msg_t m, prev;
    vh_ctx_t * v;
    gen_message(rng, &m);
    g_status_on = (idx % 3 == 1);
    vh_case_desc("message \"%s\"", vh_esc(m.text.p, m.text.len));
    /* 1. fresh context */
    v = new_ctx();
    run_message(v, &m, (idx % 5 == 0) ? 1 : 0, "fresh context");
    vh_ctx_free(v);
    /* 1b. the same while every callback runs the parser of another context (nothing in the library is shared between contexts) */
    if (idx % 4 == 2) {
        nested_begin(idx);
        v = new_ctx();
        run_message(v, &m, 0, "fresh context, callbacks forward a query to a second context");
        vh_ctx_free(v);
        nested_end(&m);
    }
    /* 2. after a random previous message on the same context (its own framing is checked too) */
    {
        vh_rng_t r2 = *rng; msg_t keep = m; vh_sig_t keep_sigs[NQ + NC];
        memcpy(keep_sigs, sigs, sizeof sigs);
        memset(&m, 0, sizeof m);
        gen_message(&r2, &m); /* previous message */
        prev = m; m = keep;
        v = new_ctx();
        run_message(v, &prev, 0, "as previous message");
        memcpy(sigs, keep_sigs, sizeof sigs);
        run_message(v, &m, 0, "after a previous message");
        vh_ctx_free(v);
        vh_buf_free(&prev.text); vh_buf_free(&prev.expect); vh_buf_free(&prev.shape);
    }
    /* observations */
    vh_count("messages", 1);
    vh_count(m.responders ? "msg.with_response" : "msg.nothing_responds", 1);
    if (m.responders >= 2) vh_count("msg.two_or_more_responders", 1);
    { const char * s = vh_buf_cstr(&m.shape); size_t i, n = strlen(s);
      for (i = 0; i + 1 < n; i++) {
          int a_resp = strchr("Qpe", s[i]) != NULL, b_silent = strchr("nfEuxc0h", s[i + 1]) != NULL;
          if (a_resp && b_silent) vh_count("shape.responder_then_silent_unit", 1);
          if (strchr("nfEuxc0h", s[i]) && strchr("Qpe", s[i + 1])) vh_count("shape.silent_unit_then_responder", 1);
      }
      if (strchr(s, 'p')) vh_count("shape.fails_after_partial_output", 1);
      if (strchr(s, 'n')) vh_count("shape.query_emitting_nothing", 1);
      if (strchr(s, 'f')) vh_count("shape.query_failing_before_output", 1);
      if (strchr(s, 'u')) vh_count("shape.undefined_header", 1);
      if (strchr(s, 'x')) vh_count("shape.syntax_error_unit", 1);
      if (n && strchr("pf", s[n - 1]) && m.responders) vh_count("shape.last_unit_fails_message_responds", 1);
      if (n == 1 && s[0] == 'p') vh_count("shape.single_partial_failure", 1);
    }
    vh_distinct(vh_hash(m.text.p, m.text.len, vh_hash(m.expect.p, m.expect.len, 6)));
    if (m.responders >= 2 && vh_want_sample()) vh_sample("\"%s\" [%s] -> \"%s\"", vh_esc(m.text.p, m.text.len), vh_buf_cstr(&m.shape), vh_esc(m.expect.p, m.expect.len));
}

/* ---- phase 1: a parse that never finishes, and a parse started from the flush callback ---------------------------------------------------
 * (a) IEEE 488.2 device clear while a handler is busy: the handler does not return (longjmp to the main loop, a C++ exception, a cancelled
 *     connection thread), the application discards the pending input and goes on using the context. (b) The flush callback hands the next
 *     line to the parser at once (tail re-entrancy: nothing of the outer call is touched afterwards). In both cases the messages that follow
 *     are framed like any other. */
#include <setjmp.h>
static jmp_buf p1_jmp; static int p1_armed; static scpi_t * p1_ctx;
static void p1_abandon_hook(scpi_t * context, int stage) { if (p1_armed && context == p1_ctx && stage == 1) { p1_armed = 0; longjmp(p1_jmp, 1); } }
static int p1_in_flush; static vh_buf_t p1_tail;
static void p1_flush_hook(scpi_t * context) {
    static char line[] = "Q1?;C1;Q2?\n";
    if (p1_in_flush || context != p1_ctx) return;
    p1_in_flush = 1; SCPI_Parse(context, line, (int) (sizeof line - 1)); p1_in_flush = 2;
}
static uint64_t p1_count(int thorough) { return vh_scaled(thorough ? 40000 : 4000); }
static void p1_run(uint64_t idx, vh_rng_t * rng) {
    static msg_t m; vh_ctx_t * v; static char first[] = "Q1?;Q2?;Q3?\n";
    gen_message(rng, &m);
    g_status_on = 0;
    v = new_ctx(); v->sigs = sigs; v->nsigs = NQ + NC; p1_ctx = v->ctx;
    vh_case_desc("%s, then message \"%s\"", (idx & 1) ? "parse started from the flush callback" : "handler that never returns + device clear", vh_esc(m.text.p, m.text.len));
    if (!(idx & 1)) {
        /* (a) */
        vh_nested_hook = p1_abandon_hook; p1_armed = 1;
        if (setjmp(p1_jmp) == 0) { SCPI_Input(v->ctx, first, (int) (sizeof first - 1)); p1_armed = 0; }
        vh_nested_hook = NULL;
        vh_device_clear(v);
        run_message(v, &m, 0, "after a handler left its parse by longjmp and the application cleared the input");
        vh_count("abandoned.message_after_a_parse_that_never_finished", 1);
    } else {
        /* (b): the outer message is m; the line parsed from the flush callback answers 15;"m" behind it */
        const char * key; size_t el;
        vh_ctx_clear_capture(v);
        p1_in_flush = 0; vh_on_flush_cb = p1_flush_hook;
        { vh_buf_t t = { 0, 0, 0 }; vh_buf_add(&t, m.text.p, m.text.len); vh_buf_adds(&t, "\n"); vh_input(v, t.p, t.len); vh_buf_free(&t); }
        vh_on_flush_cb = NULL;
        vh_buf_reset(&p1_tail); vh_buf_add(&p1_tail, m.expect.p, m.expect.len);
        if (m.responders) { static const vh_sig_t * dummy; (void) dummy; }
        el = m.expect.len;
        if (p1_in_flush == 2) {
            /* what Q1?;C1;Q2? answers with this case's signatures is whatever the model says for those units: compare only the outer part
             * and the framing of the tail (starts after the outer response, ends with one terminator) */
            const char * out = v->out.p ? v->out.p : ""; size_t le = strlen(SCPI_LINE_ENDING);
            if (v->out.len < el || memcmp(out, m.expect.p ? m.expect.p : "", el) != 0) key = "C06:bytes-differ";
            else if (v->out.len > el && (v->out.len - el < le || memcmp(out + v->out.len - le, SCPI_LINE_ENDING, le) != 0)) key = "C06:terminator-missing";
            else key = NULL;
            if (key) vh_violation(key, "message \"%s\" with the next line parsed from the flush callback: wrote \"%s\", the outer response must be \"%s\"", vh_esc(m.text.p, m.text.len), vh_esc(v->out.p, v->out.len), vh_esc(m.expect.p, m.expect.len));
            vh_count("reentrant.line_parsed_from_the_flush_callback", 1);
        } else if (m.responders) vh_violation("C06:flush-missing", "message \"%s\" responds but the flush callback was not called", vh_esc(m.text.p, m.text.len));
        SCPI_ErrorClear(v->ctx);
    }
    vh_ctx_free(v);
}

int main(int argc, char ** argv) {
    static const vh_phase_t phases[] = { { "messages", p0_count, p0_run }, { "abandoned and re-entered parses", p1_count, p1_run } };
    vh_scribble_chunk_in_callbacks(1); vh_decoy_enable(7); vh_require("decoy.messages_run_on_a_second_context"); vh_require("items.long_ascii_array"); vh_require("abandoned.message_after_a_parse_that_never_finished"); vh_require("reentrant.line_parsed_from_the_flush_callback"); vh_require("status.service_request_raised_during_the_message"); vh_require("nested.other_context_parsed_before_first_result"); vh_require("nested.other_context_parsed_on_handler_entry"); vh_require("msg.with_response"); vh_require("msg.nothing_responds"); vh_require("msg.two_or_more_responders");
    vh_require("units.accepted_by_an_entry_without_handler"); vh_require("items.empty_character_data"); vh_require("shape.responder_then_silent_unit"); vh_require("shape.silent_unit_then_responder"); vh_require("shape.fails_after_partial_output");
    vh_require("shape.query_emitting_nothing"); vh_require("shape.query_failing_before_output"); vh_require("shape.single_partial_failure");
    return vh_main(argc, argv, "C06", phases, 2);
}
