/* C15 - no formatting or copying API writes past the buffer the caller gave it.
 * Oracle: exact-size heap buffers under ASan (guard bytes in the plain build) plus the statement's
 * termination / returned-length rules. */
#include "vh_scpi.h"
#include <stdio.h>
#include <stdlib.h>
#include <string.h>
#include <math.h>

#define GUARD 24
#define MAXL 48

typedef struct { char * base; char * buf; size_t L; } cell_t;

static cell_t cell_new(size_t L) {
    cell_t c; c.L = L;
#if VH_ASAN
    c.base = (char *) malloc(L); c.buf = c.base;
    if (L) memset(c.buf, 0xA5, L);
#else
    c.base = (char *) malloc(L + 2 * GUARD); memset(c.base, 0xA5, L + 2 * GUARD); c.buf = c.base + GUARD;
#endif
    return c;
}
/* returns 0 ok, 1 underrun, 2 overrun (plain build only) */
static int cell_guards(cell_t * c) {
#if VH_ASAN
    (void) c; return 0;
#else
    size_t i;
    for (i = 0; i < GUARD; i++) if ((unsigned char) c->base[i] != 0xA5) return 1;
    for (i = 0; i < GUARD; i++) if ((unsigned char) c->buf[c->L + i] != 0xA5) return 2;
    return 0;
#endif
}
static void cell_free(cell_t * c) { free(c->base); }

/* common post-conditions. n = length of the untruncated result (from a big-buffer call), r = returned length
 * (or (size_t)-1 when the function returns no length) */
static void post(const char * fn, const char * what, cell_t * c, size_t n, size_t r, int has_ret) {
    size_t L = c->L, i, first_nul = L;
    int g = cell_guards(c);
    char key[96];
    if (g) { snprintf(key, sizeof key, "C15:%s:%s", g == 1 ? "underrun" : "overrun", fn); vh_violation(key, "%s(%s, len=%zu) wrote %s the buffer", fn, what, L, g == 1 ? "before" : "past"); return; }
    for (i = 0; i < L; i++) if (c->buf[i] == 0) { first_nul = i; break; }
    if (n < L && first_nul == L) { snprintf(key, sizeof key, "C15:unterminated:%s", fn); vh_violation(key, "%s(%s, len=%zu): result of %zu characters fits but the buffer holds no NUL", fn, what, L, n); return; }
    if (has_ret) {
        if (r > L) { snprintf(key, sizeof key, "C15:returned-length-exceeds-buffer:%s", fn); vh_violation(key, "%s(%s, len=%zu) returned %zu", fn, what, L, r); return; }
        if (r != first_nul && !(first_nul == L && r == L)) { snprintf(key, sizeof key, "C15:returned-length-mismatch:%s", fn); vh_violation(key, "%s(%s, len=%zu) returned %zu but the buffer holds %zu characters before the NUL%s", fn, what, L, r, first_nul, first_nul == L ? " (none)" : ""); return; }
    }
    if (n < L) vh_count("post.fits", 1); else if (n == L) vh_count("post.exact", 1); else vh_count("post.truncated", 1);
}

/* ---- values ----------------------------------------------------------------------------- */
static double pick_double(vh_rng_t * rng) {
    static const double fixed[] = { 0, 1, -1, 10.5, -10.5, 0.1, 1e10, 1e15, 1e16, 123456789012345.0, 1.5e-300, -1.5e-300, 1e300, 0.000123456789012345,
                                    99999.5, 1e-5, 1234.5678, -0.0, 7, 42, 1e100, 2.5e-10 };
    uint64_t b; double d;
    switch (vh_below(rng, 4)) {
        case 0: return fixed[vh_below(rng, sizeof fixed / sizeof fixed[0])];
        case 1: { int k = (int) vh_below(rng, 17); double v = 1; while (k--) v = v * 10 + (double) vh_below(rng, 10); return vh_chance(rng, 1, 2) ? v : -v / 1000.0; }
        case 2: b = vh_rand(rng); memcpy(&d, &b, 8); if (isnan(d) || isinf(d)) d = 3.25; return d;
        default: return (double) (int32_t) vh_rand(rng) / (double) (1 << vh_below(rng, 20));
    }
}

/* the units table belongs to the application (argument of SCPI_Init): names of any length are legal, compound suffixes too */
static const scpi_unit_def_t user_units[] = {
    { "REV/MIN", SCPI_UNIT_REVOLUTION, 1 }, { "OHM.CM", SCPI_UNIT_OHM, 1 }, { "DBUV/M", SCPI_UNIT_DECIBEL, 1 }, { "KILOGRAMFORCE", SCPI_UNIT_NEWTON, 1 },
    { "V", SCPI_UNIT_VOLT, 1 }, { "MICROSIEMENS.CM-1", SCPI_UNIT_SIEMENS, 1 }, { "X", SCPI_UNIT_UNITLESS, 1 }, { "ABCDEF", SCPI_UNIT_HENRY, 1 }, { "ABCDEFG", SCPI_UNIT_FARAD, 1 },
    SCPI_UNITS_LIST_END
};
/* ---- phase 0: SCPI_NumberToStr, every unit and special name, L = 0..40 --------------------- */
static int n_units(void) { int n = 0; while (scpi_units_def[n].name) n++; return n; }
static uint64_t p0_count(int thorough) { return vh_scaled(thorough ? 60000 : 3000); }
static void p0_run(uint64_t idx, vh_rng_t * rng) {
    vh_ctx_t * v = vh_ctx_new(NULL, 16, 2, 16);
    scpi_number_t num; char big[160]; size_t n, L;
    int nu = n_units();
    memset(&num, 0, sizeof num);
    if (idx % 7 == 0) {
        int k = (int) vh_below(rng, 10); /* special numbers; tag 9 + unknown tags */
        num.special = TRUE; num.content.tag = k < 9 ? scpi_special_numbers_def[k].tag : 1234;
        num.unit = SCPI_UNIT_NONE; num.base = 10;
    } else {
        const scpi_unit_def_t * u = &scpi_units_def[(idx / 7 + vh_below(rng, (uint32_t) nu)) % (uint64_t) nu];
        if (idx % 3 == 1) { v->ctx->units = user_units; u = &user_units[vh_below(rng, 9)]; vh_count("number.user_units_table", 1); }
        num.special = FALSE; num.content.value = pick_double(rng);
        num.unit = vh_chance(rng, 1, 8) ? SCPI_UNIT_NONE : u->unit; num.base = 10;
        /* a number as SCPI_ParamNumber delivers it for #H / #Q / #B data: non-negative integral value, no unit, base 16 / 8 / 2 */
        if (idx % 5 == 2) { static const int8_t bases[] = { 16, 8, 2, 16 }; num.base = bases[vh_below(rng, 4)]; num.unit = SCPI_UNIT_NONE; num.content.value = (double) (vh_rand(rng) >> vh_below(rng, 64)); vh_count("number.nondecimal_base", 1); }
    }
    memset(big, 0, sizeof big);
    n = SCPI_NumberToStr(v->ctx, scpi_special_numbers_def, &num, big, sizeof big);
    vh_case_desc("SCPI_NumberToStr special=%d tag=%d value=%a unit=%d full=\"%s\"", (int) num.special, num.special ? (int) num.content.tag : 0, num.special ? 0.0 : num.content.value, (int) num.unit, big);
    if (n != strlen(big)) vh_violation("C15:returned-length-mismatch:SCPI_NumberToStr", "len=160 returned %zu for \"%s\"", n, big);
    for (L = 0; L <= 48; L++) {
        cell_t c = cell_new(L); size_t r; char what[200];
        vh_sub = L;
        r = SCPI_NumberToStr(v->ctx, scpi_special_numbers_def, &num, c.buf, L);
        vh_eval(1);
        if (L == 0) { if (r != 0) vh_violation("C15:returned-length-exceeds-buffer:SCPI_NumberToStr", "len=0 returned %zu", r); if (cell_guards(&c)) vh_violation("C15:overrun:SCPI_NumberToStr", "len=0 wrote"); }
        else { snprintf(what, sizeof what, "\"%s\"", big); post("SCPI_NumberToStr", what, &c, n, r, 1); }
        cell_free(&c);
    }
    if (!num.special) { const char * t = strchr(big, ' '); vh_count(t ? "number.with_unit" : "number.without_unit", 1); if (t) { char cn[40]; snprintf(cn, sizeof cn, "number.unitlen_%zu", strlen(t + 1)); vh_count(cn, 1); } }
    else vh_count("number.special", 1);
    vh_distinct(vh_hash(big, strlen(big), 1));
    if (vh_want_sample()) vh_sample("SCPI_NumberToStr -> \"%s\" into buffers of 0..40 bytes", big);
    vh_ctx_free(v);
}

/* ---- phase 1: float/double to string and SCPI_dtostre ------------------------------------------ */
static uint64_t p1_count(int thorough) { return vh_scaled(thorough ? 200000 : 8000); }
static void p1_run(uint64_t idx, vh_rng_t * rng) {
    double d = pick_double(rng); float f = (float) d;
    char big[160], what[200]; size_t n, L;
    int prec = 1 + (int) vh_below(rng, 15), flags = (int) vh_below(rng, 8);
    if (idx % 11 == 0) d = vh_chance(rng, 1, 2) ? NAN : (vh_chance(rng, 1, 2) ? INFINITY : -INFINITY);
    if (idx % 11 == 0) f = (float) d;
    vh_case_desc("double/float/dtostre value=%a prec=%d flags=%d", d, prec, flags);
    /* double */
    n = SCPI_DoubleToStr(d, big, sizeof big);
    for (L = 0; L <= 40; L++) { cell_t c = cell_new(L); size_t r; vh_sub = L; r = SCPI_DoubleToStr(d, c.buf, L); vh_eval(1); snprintf(what, sizeof what, "%a=\"%s\"", d, big); post("SCPI_DoubleToStr", what, &c, n, r, 1); cell_free(&c); }
    vh_distinct(vh_hash(big, n, 2));
    /* float */
    n = SCPI_FloatToStr(f, big, sizeof big);
    for (L = 0; L <= 24; L++) { cell_t c = cell_new(L); size_t r; vh_sub = 100 + L; r = SCPI_FloatToStr(f, c.buf, L); vh_eval(1); snprintf(what, sizeof what, "%a=\"%s\"", (double) f, big); post("SCPI_FloatToStr", what, &c, n, r, 1); cell_free(&c); }
    /* built-in formatter (linked in every configuration) */
    memset(big, 0, sizeof big);
    SCPI_dtostre(d, big, sizeof big, (unsigned char) prec, (unsigned char) flags);
    n = strlen(big);
    for (L = 0; L <= 40; L++) {
        cell_t c = cell_new(L); char * r; vh_sub = 200 + L;
        r = SCPI_dtostre(d, c.buf, L, (unsigned char) prec, (unsigned char) flags);
        vh_eval(1);
        if (r != c.buf) vh_violation("C15:dtostre-return-pointer", "SCPI_dtostre returned %p, buffer %p", (void *) r, (void *) c.buf);
        snprintf(what, sizeof what, "%a prec=%d flags=%d =\"%s\"", d, prec, flags, big);
        post("SCPI_dtostre", what, &c, n, 0, 0);
        /* the formatter promises termination for every size >= 1 */
        if (L >= 1 && !cell_guards(&c) && memchr(c.buf, 0, L) == NULL) vh_violation("C15:unterminated:SCPI_dtostre", "size=%zu %s", L, what);
        cell_free(&c);
    }
    vh_distinct(vh_hash(big, n, 3));
    vh_count("fp.values", 1);
    if (vh_want_sample()) vh_sample("SCPI_dtostre(%a, prec %d, flags %d) -> \"%s\" into 0..40 bytes; SCPI_DoubleToStr/FloatToStr likewise", d, prec, flags, big);
}

/* ---- phase 2: SCPI_ParamCopyText ------------------------------------------------------------------ */
static size_t g_L; static cell_t g_cell; static size_t g_copy_len; static int g_ok; static int g_called; static int g_null_copy_len;
static scpi_result_t h_copy(scpi_t * context) {
    size_t * cl = (size_t *) malloc(sizeof(size_t));
    *cl = 0x5a5a5a5a;
    g_called++;
    g_cell = cell_new(g_L);
    g_ok = SCPI_ParamCopyText(context, g_cell.buf, g_L, g_null_copy_len ? NULL : cl, TRUE);
    g_copy_len = *cl; free(cl);
    return SCPI_RES_OK;
}
static const scpi_command_t copy_cmds[] = { { "TXT", h_copy, 1 }, SCPI_CMD_LIST_END };

static uint64_t p2_count(int thorough) { return vh_scaled(thorough ? 150000 : 6000); }
static void p2_run(uint64_t idx, vh_rng_t * rng) {
    /* unescaped text U of length m with quotes placed around the cut positions */
    char U[64], msg[200]; size_t m = vh_below(rng, 41), i, k = 0, L; char q = (idx & 1) ? '"' : '\'';
    vh_ctx_t * v;
    for (i = 0; i < m; i++) { uint32_t r = vh_below(rng, 10); U[i] = r < 3 ? q : (r < 4 ? (q == '"' ? '\'' : '"') : (char) ('a' + vh_below(rng, 26))); }
    if (idx % 5 == 0) for (i = 0; i < m; i++) U[i] = q; /* only quotes */
    k = 0; memcpy(msg, "TXT ", 4); k = 4; msg[k++] = q;
    for (i = 0; i < m; i++) { msg[k++] = U[i]; if (U[i] == q) msg[k++] = q; }
    msg[k++] = q; msg[k++] = '\n';
    vh_case_desc("SCPI_ParamCopyText text=%s", vh_esc(msg, k));
    for (L = 0; L <= m + 3 && L <= MAXL; L++) {
        size_t first_nul, j;
        v = vh_ctx_new(copy_cmds, 256, 4, 64);
        g_L = L; g_called = 0; vh_sub = L;
        vh_input(v, msg, k);
        vh_eval(1);
        if (!g_called) { vh_violation("C15:copytext-harness", "handler not called for %s", vh_esc(msg, k)); vh_ctx_free(v); break; }
        /* the same call without the optional place for the length (a caller that only wants the terminated text): whatever the
         * function answers, the stated buffer length bounds what it writes */
        {
            cell_t first = g_cell; int ok1 = g_ok; size_t cl1 = g_copy_len; vh_ctx_t * v2 = vh_ctx_new(copy_cmds, 256, 4, 64);
            g_null_copy_len = 1; g_called = 0;
            vh_input(v2, msg, k); vh_eval(1);
            g_null_copy_len = 0;
            if (g_called) {
                if (cell_guards(&g_cell)) vh_violation("C15:overrun:SCPI_ParamCopyText:copy_len-null", "buffer_len=%zu copy_len=NULL result=%d text=%s", L, g_ok, vh_esc(msg, k));
                vh_count(g_ok ? "copytext.null_copy_len.accepted" : "copytext.null_copy_len.refused", 1); vh_count("copytext.null_copy_len.calls", 1);
                cell_free(&g_cell);
            }
            vh_ctx_free(v2);
            g_cell = first; g_ok = ok1; g_copy_len = cl1;
        }
        if (!g_ok && cell_guards(&g_cell)) vh_violation("C15:overrun:SCPI_ParamCopyText:failed-call", "buffer_len=%zu text=%s", L, vh_esc(msg, k));
        if (g_ok) {
            int g = cell_guards(&g_cell);
            if (g) vh_violation("C15:overrun:SCPI_ParamCopyText", "buffer_len=%zu text=%s", L, vh_esc(msg, k));
            else if (g_copy_len > L) vh_violation("C15:returned-length-exceeds-buffer:SCPI_ParamCopyText", "buffer_len=%zu copy_len=%zu text=%s", L, g_copy_len, vh_esc(msg, k));
            else {
                /* bytes [0,copy_len) are text, a NUL follows whenever a byte remains */
                first_nul = L; for (j = 0; j < L; j++) if (g_cell.buf[j] == 0) { first_nul = j; break; }
                if (g_copy_len < L && first_nul != g_copy_len) vh_violation("C15:returned-length-mismatch:SCPI_ParamCopyText", "buffer_len=%zu copy_len=%zu but first NUL at %zu; text=%s", L, g_copy_len, first_nul, vh_esc(msg, k));
                else if (memcmp(g_cell.buf, U, g_copy_len) != 0) vh_violation("C15:copytext-content", "buffer_len=%zu copied \"%s\" which is not a prefix of the text; message %s", L, vh_esc(g_cell.buf, g_copy_len), vh_esc(msg, k));
                else if (m < L && first_nul == L) vh_violation("C15:unterminated:SCPI_ParamCopyText", "buffer_len=%zu text length %zu", L, m);
                vh_count(m < L ? "copytext.fits" : "copytext.truncated", 1);
                if (m < L && g_copy_len < m) vh_count("copytext.short_although_fits", 1);
            }
        } else vh_count("copytext.reader_failed", 1);
        cell_free(&g_cell);
        vh_ctx_free(v);
    }
    vh_distinct(vh_hash(U, m, 4));
    if (vh_want_sample()) vh_sample("SCPI_ParamCopyText on %s with buffer_len 0..%zu", vh_esc(msg, k), m + 3);
}

/* ---- phase 3: integer formatters with tight buffers (the full sweep is C14) ------------------------- */
static uint64_t p3_count(int thorough) { return vh_scaled(thorough ? 100000 : 5000); }
static void p3_run(uint64_t idx, vh_rng_t * rng) {
    uint64_t val = vh_rand(rng) >> vh_below(rng, 64); size_t L; char big[80], what[100]; size_t n;
    static const int bases[] = { 2, 8, 10, 16 }; int base = bases[idx & 3];
    if (idx % 9 == 0) val = ~val;
    vh_case_desc("integer formatters val=0x%llx base=%d", (unsigned long long) val, base);
    n = SCPI_UInt64ToStrBase(val, big, sizeof big, (int8_t) base);
    snprintf(what, sizeof what, "0x%llx base %d", (unsigned long long) val, base);
    for (L = 0; L <= n + 2; L++) { cell_t c = cell_new(L); size_t r = SCPI_UInt64ToStrBase(val, c.buf, L, (int8_t) base); vh_eval(1); post("SCPI_UInt64ToStrBase", what, &c, n, r, 1); cell_free(&c); }
    n = SCPI_Int32ToStr((int32_t) val, big, sizeof big);
    for (L = 0; L <= n + 2; L++) { cell_t c = cell_new(L); size_t r = SCPI_Int32ToStr((int32_t) val, c.buf, L); vh_eval(1); post("SCPI_Int32ToStr", what, &c, n, r, 1); cell_free(&c); }
    n = SCPI_Int64ToStr((int64_t) val, big, sizeof big);
    for (L = 0; L <= n + 2; L++) { cell_t c = cell_new(L); size_t r = SCPI_Int64ToStr((int64_t) val, c.buf, L); vh_eval(1); post("SCPI_Int64ToStr", what, &c, n, r, 1); cell_free(&c); }
    n = SCPI_UInt32ToStrBase((uint32_t) val, big, sizeof big, (int8_t) base);
    for (L = 0; L <= n + 2; L++) { cell_t c = cell_new(L); size_t r = SCPI_UInt32ToStrBase((uint32_t) val, c.buf, L, (int8_t) base); vh_eval(1); post("SCPI_UInt32ToStrBase", what, &c, n, r, 1); cell_free(&c); }
    vh_count("int.values", 1);
}

int main(int argc, char ** argv) {
    static const vh_phase_t phases[] = {
        { "NumberToStr", p0_count, p0_run },
        { "FloatDoubleDtostre", p1_count, p1_run },
        { "ParamCopyText", p2_count, p2_run },
        { "IntToStr", p3_count, p3_run },
    };
    vh_require("post.fits"); vh_require("post.exact"); vh_require("post.truncated");
    vh_require("number.with_unit"); vh_require("number.nondecimal_base"); vh_require("number.user_units_table"); vh_require("number.special"); vh_require("copytext.truncated"); vh_require("copytext.fits"); vh_require("copytext.null_copy_len.calls");
    return vh_main(argc, argv, "C15", phases, 4);
}
