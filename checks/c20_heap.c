/* C20 - the allocation-free build stores error texts intact or not at all.
 *
 * Configuration -DUSE_MEMORY_ALLOCATION_FREE=0 only: device-dependent texts live in a caller-supplied circular
 * static heap (SCPI_InitHeap).  Model-based runtime monitor: kit/ref_queue with the RELAXED text rule of the
 * statement - every popped error carries exactly the text it was pushed with (cut at 255 characters on the
 * automatic-length path) OR no text; never a truncated, merged or foreign one.  Additional clauses:
 *   - once the queue is empty the whole heap is reusable: a text pushed onto the empty queue that fits the heap
 *     (up to heap_size-1 characters) must be stored;
 *   - nothing outside the supplied heap is written: exact-size malloc under ASan, guard bytes in the plain build.
 * Every push uses its own error code and its own letter, so that a popped entry identifies its push and merged /
 * foreign / truncated texts are recognisable.  Pops go through SYST:ERR? (the release path of this configuration)
 * and through SCPI_ErrorPop + scpiheap_get_parts + scpiheap_free. */
#include "vh_scpi.h"
#include "ref_queue.h"
#include <stdio.h>
#include <stdlib.h>
#include <string.h>

#if !(USE_DEVICE_DEPENDENT_ERROR_INFORMATION && !USE_MEMORY_ALLOCATION_FREE)
#error "C20 is defined for the static-heap configuration (-DUSE_MEMORY_ALLOCATION_FREE=0) only"
#endif

/* ---- counters ---------------------------------------------------------------------------------------------- */
enum { K_PUSH, K_PUSH_TEXT, K_POP_API, K_POP_SYST, K_POP_EMPTY, K_CLEAR, K_OVERFLOW, K_OVERFLOW_TEXT, K_OVERFLOW_POPPED,
       K_INTACT_API, K_INTACT_SYST, K_DROPPED, K_DROPPED_TOO_BIG, K_NOTEXT_OK, K_TWO_PARTS, K_REUSE_ANY, K_REUSE_FULL, K_REUSE_FULL_INTACT,
       K_EMPTY_TEXT, K_AUTOCUT_255, K_AUTOCUT_FULL, K_SYST_LIMITED, K_MODE_EXPL, K_MODE_AUTO, K_MODE_NULSHORT,
       K_HIST, K_WRAP, K_GUARD_CHECKS, K_CLEAR_TEXT, K_CLIENT_KEEPS, K_ADJACENT, K_QUOTED_TEXT, K__N };
static const char * const kname[K__N] = { "op.push", "op.push_text", "op.errorpop", "op.syst_err", "op.pop_on_empty", "op.clear",
    "overflow.events", "overflow.dropped_text", "overflow.marker_popped",
    "text.returned_intact_errorpop", "text.returned_intact_syst_err", "text.dropped", "text.dropped_larger_than_heap", "text.absent_as_expected", "text.returned_in_two_parts",
    "reuse.text_pushed_on_empty_queue", "reuse.full_heap_text_pushed", "reuse.full_heap_text_intact",
    "text.empty_pushed", "text.auto_length_cut_255", "text.auto_length_full", "syst_err.over_255_prefix_only",
    "push.explicit_len", "push.automatic_len", "push.explicit_len_beyond_nul",
    "history.runs", "history.ring_wraparound", "heap.guard_checks", "clear.dropped_text", "errorpop.text_kept_by_the_application_for_good", "push.text_buffer_adjacent_to_the_heap", "syst_err.text_with_double_quotes_reported" };
static uint64_t kval[K__N];
static uint64_t evals_local;
#define CNT(k) (kval[k]++)
static void flush_counts(void) {
    int i;
    for (i = 0; i < K__N; i++) if (kval[i]) { vh_count(kname[i], kval[i]); kval[i] = 0; }
    vh_eval(evals_local); evals_local = 0;
}

/* ---- texts: every push has its own letter; every fourth character is a position digit ----------------------- */
#define RUN_MAX 640
static char runs[52][RUN_MAX];
static void runs_init(void) {
    int l, i;
    /* every second letter's texts carry a double quote at each position 1 mod 4: stored as it is, doubled in the response, and it lands on every
     * heap offset - the last byte before the wrap-around included - as the histories rotate the write position */
    for (l = 0; l < 52; l++) for (i = 0; i < RUN_MAX; i++) runs[l][i] = (i % 4 == 3) ? (char) ('0' + (i / 4) % 10) : ((l & 1) && i % 4 == 1) ? '"' : (char) (l < 26 ? 'A' + l : 'a' + l - 26);
}

enum { OP_PUSH, OP_PUSHT, OP_POP_API, OP_POP_SYST, OP_CLEAR, OP__N };
enum { M_EXPL, M_AUTO, M_NULSHORT, M__N };
typedef struct { uint8_t kind, mode, aux; uint16_t len; } op_t;
static const char * const opnames[OP__N] = { "push", "push", "errorpop", "SYST:ERR?", "clear" };
static const char * const modenames[M__N] = { "len=explicit", "len=auto", "len>strlen" };

#define F_MUST 1    /* pushed onto the empty queue and fits the heap: must be stored */
#define F_AUTOCUT 2 /* automatic length and longer than 255 */
#define F_EMPTY 4   /* empty text */

typedef struct {
    vh_ctx_t * v; scpi_t * ctx; int N; size_t H; char * heap;
    ref_queue_t q;
    const op_t * ops; int nops, cur;
    int dead;
    int client_holds; /* the application took a text with SCPI_ErrorPop and keeps it: that part of the heap is not the queue's any more */
    uint64_t tag;
} hist_t;
static int g_client_keeps;
/* the application's text buffer is the heap's immediate neighbour in memory (members of one struct, consecutive statics, one carved-up arena):
 * this history passes its texts from the bytes right behind the heap */
static char * g_adjacent_src; static size_t g_adjacent_cap; /* this history: texts taken through SCPI_ErrorPop are never given back (the public API has no call for it) */

static const scpi_command_t cmds[] = {
    { .pattern = "SYSTem:ERRor[:NEXT]?", .callback = SCPI_SystemErrorNextQ },
    { .pattern = "SYSTem:ERRor:COUNt?", .callback = SCPI_SystemErrorCountQ },
    SCPI_CMD_LIST_END
};

static int16_t code_of(uint64_t tag) { return (int16_t) (1 + tag % 30000); }
static const char * text_of(uint64_t tag) { return runs[tag % 52]; }

static void describe(const hist_t * h, vh_buf_t * b) {
    int i, from = 0, upto = h->cur < h->nops ? h->cur : h->nops - 1; uint64_t tag = 0;
    vh_buf_printf(b, "heap %zu bytes, queue capacity %d; history:", h->H, h->N);
    if (upto > 40) from = upto - 40;
    for (i = 0; i <= upto; i++) {
        const op_t * o = &h->ops[i];
        if (o->kind <= OP_PUSHT) tag++;
        if (i < from) continue;
        if (i == from && from) vh_buf_printf(b, " ...(%d earlier operations)", from);
        if (o->kind == OP_PUSH) vh_buf_printf(b, " push(%d)", (int) code_of(tag));
        else if (o->kind == OP_PUSHT) {
            size_t show = o->len < 16 ? o->len : 16;
            vh_buf_printf(b, " push(%d,\"%.*s\"%s[%u],%s)", (int) code_of(tag), (int) show, text_of(tag), show < o->len ? "..." : "", (unsigned) o->len, modenames[o->mode]);
        } else vh_buf_printf(b, " %s", opnames[o->kind]);
    }
    vh_buf_printf(b, " <- operation %d", upto + 1);
}

static void fail(hist_t * h, const char * key, const char * fmt, ...) __attribute__((format(printf, 3, 4)));
static void fail(hist_t * h, const char * key, const char * fmt, ...) {
    va_list ap; char msg[700]; vh_buf_t b = { 0 };
    va_start(ap, fmt); vsnprintf(msg, sizeof msg, fmt, ap); va_end(ap);
    describe(h, &b);
    vh_violation(key, "%s | %s", msg, vh_buf_cstr(&b));
    vh_buf_free(&b);
    h->dead = 1;
}

static void do_push(hist_t * h, const op_t * o) {
    rq_entry_t in, dropped[2]; int nd = 0, i;
    char * src = NULL; size_t srcsize = 0, info_len = 0;
    memset(&in, 0, sizeof in);
    in.tag = ++h->tag; in.code = code_of(in.tag);
    if (o->kind == OP_PUSHT) {
        const char * t = text_of(in.tag);
        size_t eff = o->len; /* length of the text as the library is told it */
        in.has_text = 1; in.text = t; in.len = o->len;
        switch (o->mode) {
            case M_EXPL: /* len characters followed by one more, different character (never a terminator within len) */
                if (o->len == 0) goto automatic;
                srcsize = o->len + 1; src = (char *) malloc(srcsize); memcpy(src, t, o->len); src[o->len] = '#'; info_len = o->len; CNT(K_MODE_EXPL); break;
            case M_NULSHORT:
                /* the length bound lies beyond the terminator and the bytes between them are stale, non-zero data (a re-used message buffer) */
                info_len = o->len + 1 + o->aux; srcsize = info_len; src = (char *) malloc(srcsize); memset(src, '@', srcsize); memcpy(src, t, o->len); src[o->len] = 0; CNT(K_MODE_NULSHORT); break;
            default: automatic:
                srcsize = o->len + 1; src = (char *) malloc(srcsize); memcpy(src, t, o->len); src[o->len] = 0; info_len = 0; CNT(K_MODE_AUTO);
                if (o->len > 255) { in.flags |= F_AUTOCUT; eff = 255; }
                break;
        }
        if (g_adjacent_src && src && srcsize <= g_adjacent_cap) { memcpy(g_adjacent_src, src, srcsize); memset(src, '%', srcsize); free(src); src = g_adjacent_src; srcsize = 0; CNT(K_ADJACENT); }
        if (o->len == 0) { in.flags |= F_EMPTY; CNT(K_EMPTY_TEXT); }
        /* "heap space is completely reusable once the queue is empty" */
        if (rq_count(&h->q) == 0 && eff >= 1 && eff + 1 <= h->H && !h->client_holds) {
            in.flags |= F_MUST; CNT(K_REUSE_ANY);
            if (eff + 1 == h->H) CNT(K_REUSE_FULL);
        }
        CNT(K_PUSH_TEXT);
    } else CNT(K_PUSH);
    vh_ctx_clear_capture(h->v);
    if (o->kind == OP_PUSH) SCPI_ErrorPush(h->ctx, in.code);
    else SCPI_ErrorPushEx(h->ctx, in.code, src, info_len);
    if (src && src != g_adjacent_src) { memset(src, '%', srcsize); free(src); }
    if (src && src == g_adjacent_src) memset(g_adjacent_src, '%', g_adjacent_cap);
    if (!rq_push(&h->q, &in, dropped, &nd)) {
        CNT(K_OVERFLOW);
        for (i = 0; i < nd; i++) if (dropped[i].has_text && !(dropped[i].flags & F_EMPTY)) CNT(K_OVERFLOW_TEXT);
    }
}

/* compare the text reported for model entry m; got == NULL: no text reported.
 * limited: SYST:ERR? response that cannot hold the complete text (255-character rule): only "is a prefix" */
static void judge_text(hist_t * h, const rq_entry_t * m, const char * got, size_t glen, const char * via, int limited, int intact_counter) {
    size_t want = m->len;
    if (!got) {
        if (!m->has_text || (m->flags & F_EMPTY)) { CNT(K_NOTEXT_OK); return; }
        if (m->flags & F_MUST)
            fail(h, "C20:text-dropped-on-empty-queue", "%s: error %d was pushed with a text of %zu characters onto the EMPTY queue (heap %zu bytes) but came back without text: the heap was not completely reusable", via, (int) m->code, m->len, h->H);
        else { CNT(K_DROPPED); if (want + 1 > h->H && !(m->flags & F_AUTOCUT)) CNT(K_DROPPED_TOO_BIG); }
        return;
    }
    if (!m->has_text) {
        fail(h, "C20:text-on-textless-error", "%s: error %d was pushed without text but came back with \"%s\"[%zu] (a foreign text)", via, (int) m->code, vh_esc(got, glen < 40 ? glen : 40), glen);
        return;
    }
    if (limited) {
        if (glen <= want && memcmp(got, m->text, glen) == 0) { CNT(K_SYST_LIMITED); return; }
    } else {
        int lenok = glen == want || ((m->flags & F_AUTOCUT) && glen == 255);
        if (lenok && memcmp(got, m->text, glen) == 0) {
            CNT(intact_counter);
            if (m->flags & F_AUTOCUT) { if (glen == 255) CNT(K_AUTOCUT_255); else CNT(K_AUTOCUT_FULL); }
            if ((m->flags & F_MUST) && glen + 1 == h->H) CNT(K_REUSE_FULL_INTACT);
            return;
        }
    }
    {
        const char * key = "C20:text-foreign";
        size_t common = glen < want ? glen : want;
        if (glen < want && memcmp(got, m->text, glen) == 0) key = "C20:text-truncated";
        else if (glen > want && memcmp(got, m->text, want) == 0) key = "C20:text-merged";
        else if (common && memcmp(got, m->text, common) != 0 && got[0] == m->text[0]) key = "C20:text-corrupted";
        fail(h, key, "%s: error %d was pushed with text \"%s\"[%zu] but came back with \"%s\"[%zu]", via, (int) m->code, vh_esc(m->text, want < 40 ? want : 40), want, vh_esc(got, glen < 60 ? glen : 60), glen);
    }
}

static char tbuf[2048];
static void do_pop_api(hist_t * h) {
    rq_entry_t m; int had;
    scpi_error_t * e = (scpi_error_t *) malloc(sizeof *e);
    memset(e, 0xA5, sizeof *e);
    vh_ctx_clear_capture(h->v);
    SCPI_ErrorPop(h->ctx, e);
    had = rq_pop(&h->q, &m);
    CNT(K_POP_API); if (!had) CNT(K_POP_EMPTY);
    if (had && !m.tag && m.code == RQ_CODE_OVERFLOW) CNT(K_OVERFLOW_POPPED);
    if (e->error_code != m.code) fail(h, "C20:errorpop-code-differs-from-model", "SCPI_ErrorPop returned code %d, the model queue says %d", (int) e->error_code, (int) m.code);
    else {
        char * t = e->device_dependent_info;
        if (!t) judge_text(h, &m, NULL, 0, "SCPI_ErrorPop", 0, K_INTACT_API);
        else if (t < h->heap || t >= h->heap + h->H) fail(h, "C20:text-pointer-outside-heap", "SCPI_ErrorPop (code %d) returned a text pointer outside the supplied heap", (int) m.code);
        else {
            const char * s2 = NULL; size_t l1 = 0, l2 = 0, n = 0;
            if (scpiheap_get_parts(&h->ctx->error_info_heap, t, &l1, &s2, &l2)) {
                if (l1 > sizeof tbuf / 2) l1 = sizeof tbuf / 2;
                if (l2 > sizeof tbuf / 2) l2 = sizeof tbuf / 2;
                memcpy(tbuf, t, l1); n = l1;
                if (s2) { memcpy(tbuf + n, s2, l2); n += l2; CNT(K_TWO_PARTS); }
                judge_text(h, &m, tbuf, n, "SCPI_ErrorPop+scpiheap_get_parts", 0, K_INTACT_API);
            } else judge_text(h, &m, "", 0, "SCPI_ErrorPop+scpiheap_get_parts", 0, K_INTACT_API); /* a pointer to an empty string */
            if (g_client_keeps) { h->client_holds = 1; CNT(K_CLIENT_KEEPS); } /* e.g. a front-panel error display that shows the text as long as it likes */
            else scpiheap_free(&h->ctx->error_info_heap, t, false); /* the client releases at once, in pop order */
        }
    }
    free(e);
}

static void do_pop_syst(hist_t * h, const op_t * o) {
    static const char * const spell[2] = { "SYST:ERR?\n", "SYSTem:ERRor:NEXT?\r\n" };
    rq_entry_t m; int had; long code = 0; size_t dlen = 0, rawlen = 0, dl;
    const char * desc, * cmd = spell[o->aux & 1];
    vh_ctx_clear_capture(h->v);
    vh_input(h->v, cmd, strlen(cmd));
    had = rq_pop(&h->q, &m);
    CNT(K_POP_SYST); if (!had) CNT(K_POP_EMPTY);
    if (had && !m.tag && m.code == RQ_CODE_OVERFLOW) CNT(K_OVERFLOW_POPPED);
    if (!rq_read_error_response(h->v->out.p, h->v->out.len, &code, tbuf, sizeof tbuf, &dlen, &rawlen)) {
        fail(h, "C20:systerr-malformed-response", "SYST:ERR? answered \"%s\", which is not <NR1>,\"<string>\"<line end>", vh_esc(h->v->out.p, h->v->out.len < 80 ? h->v->out.len : 80));
        return;
    }
    if (code != m.code) { fail(h, "C20:systerr-code-differs-from-model", "SYST:ERR? answered code %ld, the model queue says %d", code, (int) m.code); return; }
    desc = SCPI_ErrorTranslate(m.code); dl = strlen(desc);
    if (dlen < dl || memcmp(tbuf, desc, dl) != 0) { fail(h, "C20:systerr-description", "SYST:ERR? answered \"%s\" for code %d, expected it to start with \"%s\"", vh_esc(tbuf, dlen < 60 ? dlen : 60), (int) m.code, desc); return; }
    if (dlen == dl) judge_text(h, &m, NULL, 0, "SYST:ERR?", 0, K_INTACT_SYST);
    else if (tbuf[dl] != ';') fail(h, "C20:systerr-description", "SYST:ERR? answered \"%s\" for code %d: no ';' after the description", vh_esc(tbuf, dlen < 60 ? dlen : 60), (int) m.code);
    else {
        size_t want = (m.flags & F_AUTOCUT) ? 255 : m.len;
        size_t nq = 0, qi; int limited;
        for (qi = 0; qi < want && m.has_text; qi++) if (m.text[qi] == '"') nq++; /* a quote costs two characters of the 255 */
        if (nq) CNT(K_QUOTED_TEXT);
        limited = m.has_text && dl + 1 + want + nq > 255;
        judge_text(h, &m, tbuf + dl + 1, dlen - dl - 1, "SYST:ERR?", limited, K_INTACT_SYST);
    }
}

static void do_clear(hist_t * h) {
    rq_entry_t dropped[RQ_MAX_CAP]; int n, i;
    vh_ctx_clear_capture(h->v);
    SCPI_ErrorClear(h->ctx);
    n = rq_clear(&h->q, dropped);
    for (i = 0; i < n; i++) if (dropped[i].has_text && !(dropped[i].flags & F_EMPTY)) CNT(K_CLEAR_TEXT);
    CNT(K_CLEAR);
}

#define HGUARD 32
#define QGUARD 2
typedef struct { vh_ctx_t * v; int N; size_t H; char * heap; char * hblock; scpi_error_t * qmem; scpi_error_t * qblock; int adjacent; } rig_t;
static void rig_open(rig_t * r, int N, size_t H) {
    r->N = N; r->H = H; r->adjacent = 0;
    r->v = vh_ctx_new(cmds, 64, N, H);
    r->v->log_enabled = 0;
#if VH_ASAN
    r->hblock = NULL; r->heap = r->v->heap;     /* exact-size malloc: one byte outside traps */
    r->qblock = NULL; r->qmem = r->v->queue;
#else
    r->hblock = (char *) malloc(H + 2 * HGUARD); memset(r->hblock, 0xA5, H + 2 * HGUARD); r->heap = r->hblock + HGUARD;
    r->qblock = (scpi_error_t *) malloc(sizeof(scpi_error_t) * (size_t) (N + 2 * QGUARD)); memset(r->qblock, 0xE7, sizeof(scpi_error_t) * (size_t) (N + 2 * QGUARD)); r->qmem = r->qblock + QGUARD;
#endif
}
/* returns 0 if a guard byte changed */
static int rig_guards_ok(const rig_t * r, const char ** what) {
#if !VH_ASAN
    size_t i; const unsigned char * a = (const unsigned char *) r->hblock, * b = (const unsigned char *) r->heap + r->H;
    const unsigned char * c = (const unsigned char *) r->qblock, * d = (const unsigned char *) (r->qmem + r->N);
    if (r->adjacent) a = (const unsigned char *) r->heap - HGUARD;
    for (i = 0; i < HGUARD; i++) { if (a[i] != 0xA5) { *what = "before the heap"; return 0; } if (!r->adjacent && b[i] != 0xA5) { *what = "after the heap"; return 0; } }
    for (i = 0; i < sizeof(scpi_error_t) * QGUARD; i++) if (c[i] != 0xE7 || d[i] != 0xE7) { *what = "around the queue array"; return 0; }
#else
    (void) r; (void) what;
#endif
    return 1;
}
static void rig_close(rig_t * r) {
    SCPI_ErrorInit(r->v->ctx, r->v->queue, (int16_t) r->N);
    SCPI_InitHeap(r->v->ctx, r->v->heap, r->v->heap_len);
#if !VH_ASAN
    free(r->hblock); free(r->qblock);
#endif
    vh_ctx_free(r->v);
}

static void run_history(rig_t * r, const op_t * ops, int nops) {
    hist_t h; int i; const char * what = "";
    memset(&h, 0, sizeof h);
    h.v = r->v; h.ctx = r->v->ctx; h.N = r->N; h.H = r->H; h.heap = r->heap; h.ops = ops; h.nops = nops;
    rq_init(&h.q, r->N);
    SCPI_ErrorInit(h.ctx, r->qmem, (int16_t) r->N);
    memset(r->heap, 0xEE, r->H);
    SCPI_InitHeap(h.ctx, r->heap, r->H);
    CNT(K_HIST);
    for (i = 0; i < nops && !h.dead; i++) {
        const op_t * o = &ops[i];
        h.cur = i;
        switch (o->kind) {
            case OP_PUSH: case OP_PUSHT: do_push(&h, o); break;
            case OP_POP_API: do_pop_api(&h); break;
            case OP_POP_SYST: do_pop_syst(&h, o); break;
            default: do_clear(&h); break;
        }
        evals_local++;
        if (!h.dead && SCPI_ErrorCount(h.ctx) != rq_count(&h.q))
            fail(&h, "C20:count-differs-from-model", "after %s SCPI_ErrorCount says %ld, the model queue holds %d", opnames[o->kind], (long) SCPI_ErrorCount(h.ctx), rq_count(&h.q));
#if !VH_ASAN
        if (nops > 64 && !h.dead && !rig_guards_ok(r, &what)) fail(&h, "C20:write-outside-heap", "%s wrote %s (guard byte changed)", opnames[o->kind], what);
#endif
    }
    if (h.q.n_push - h.q.n_overflow > (uint64_t) r->N) CNT(K_WRAP);
    CNT(K_GUARD_CHECKS);
    if (!h.dead && !rig_guards_ok(r, &what)) {
        h.cur = nops - 1;
        fail(&h, "C20:write-outside-heap", "the history wrote %s (guard byte changed)", what);
#if !VH_ASAN
        memset(r->hblock, 0xA5, HGUARD); memset(r->heap + r->H, 0xA5, HGUARD);
        memset(r->qblock, 0xE7, sizeof(scpi_error_t) * QGUARD); memset(r->qmem + r->N, 0xE7, sizeof(scpi_error_t) * QGUARD);
#endif
    }
}

/* ---- enumerated phases -------------------------------------------------------------------------------------- */
#define H_MIN 2
#define H_MAX 12
#define N_MAX 4
/* alphabet of a heap size: rich = 0: {no text, 1, H/2, H-1, H} + pop (path alternating) + clear
 *                          rich = 1: {no text, 1, 2, H/2, H-2, H-1, H} + errorpop + SYST:ERR? + clear */
static int alphabet(size_t H, int rich, op_t * a) {
    size_t cand[6]; int nc = 0, n = 0, i, j;
    cand[nc++] = 1; if (rich) cand[nc++] = 2;
    cand[nc++] = H / 2; if (rich && H >= 2) cand[nc++] = H - 2;
    cand[nc++] = H - 1; cand[nc++] = H;
    memset(a, 0, sizeof(op_t) * 10);
    a[n++].kind = OP_PUSH;
    for (i = 0; i < nc; i++) {
        int dup = cand[i] < 1;
        for (j = 1; j < n && !dup; j++) if (a[j].kind == OP_PUSHT && a[j].len == cand[i]) dup = 1;
        if (!dup) { a[n].kind = OP_PUSHT; a[n].len = (uint16_t) cand[i]; n++; }
    }
    a[n++].kind = OP_POP_API; /* rich = 0: the path is chosen per position */
    if (rich) a[n++].kind = OP_POP_SYST;
    a[n++].kind = OP_CLEAR;
    return n;
}
static uint64_t ipow(uint64_t b, int e) { uint64_t r = 1; while (e-- > 0) r *= b; return r; }

static void enum_block(size_t H, int N, int rich, int L, const int * prefix, int P, uint64_t salt0) {
    op_t a[10], ops[16]; int A = alphabet(H, rich, a), digits[16], i;
    uint64_t nsuf, s; rig_t rig;
    for (i = 0; i < P; i++) { if (prefix[i] >= A) return; digits[i] = prefix[i]; }
    nsuf = ipow((uint64_t) A, L - P);
    rig_open(&rig, N, H);
    for (s = 0; s < nsuf; s++) {
        uint64_t t = s;
        vh_sub = s;
        for (i = L - 1; i >= P; i--) { digits[i] = (int) (t % (uint64_t) A); t /= (uint64_t) A; }
        for (i = 0; i < L; i++) {
            uint64_t salt = salt0 + s + (uint64_t) i;
            ops[i] = a[digits[i]];
            if (ops[i].kind == OP_PUSHT) { ops[i].mode = (uint8_t) (salt % M__N); ops[i].aux = (uint8_t) (salt % 3); }
            if (ops[i].kind == OP_POP_API && !rich && (salt & 1)) ops[i].kind = OP_POP_SYST;
            if (ops[i].kind == OP_POP_SYST) ops[i].aux = (uint8_t) ((salt >> 1) & 1);
        }
        run_history(&rig, ops, L);
        if ((s & 63) == 0) vh_distinct(vh_hash_u64(s, vh_hash_u64(salt0, (uint64_t) rich)));
        if (vh_violations() > 60) break;
    }
    if (salt0 % 89 == 7 && vh_want_sample()) {
        vh_buf_t b = { 0 }; hist_t h; memset(&h, 0, sizeof h); h.N = N; h.H = H; h.ops = ops; h.nops = L; h.cur = L - 1;
        describe(&h, &b); vh_sample("last history of an enumerated block: %s", vh_buf_cstr(&b)); vh_buf_free(&b);
    }
    rig_close(&rig);
}

/* phase 0: 5..7-letter alphabet, length 6 (quick) / 8 (thorough; ASan 7); case = (heap, capacity, 2 prefix letters) */
static int p0_len(int thorough) {
#if VH_ASAN
    return thorough ? 7 : 6;
#else
    return thorough ? 8 : 6;
#endif
}
static uint64_t p0_count(int thorough) { (void) thorough; return (uint64_t) (H_MAX - H_MIN + 1) * N_MAX * 49; }
static void p0_run(uint64_t idx, vh_rng_t * rng) {
    int prefix[2]; uint64_t t = idx; size_t H; int N;
    (void) rng;
    prefix[1] = (int) (t % 7); t /= 7; prefix[0] = (int) (t % 7); t /= 7;
    N = 1 + (int) (t % N_MAX); t /= N_MAX; H = H_MIN + (size_t) t;
    vh_case_desc("exhaustive histories of length %d on a %zu-byte heap, capacity %d, prefix letters %d,%d of {push, push+text of 1, H/2, H-1, H characters (duplicates removed), pop, clear}", p0_len(vh_args.thorough), H, N, prefix[0], prefix[1]);
    vh_watchdog(vh_args.thorough ? 60 : 10);
    enum_block(H, N, 0, p0_len(vh_args.thorough), prefix, 2, idx);
    flush_counts();
}

/* phase 1: rich alphabet (up to 10 letters), length 5 (quick) / 6 (thorough); case = (heap, capacity, 1 prefix letter) */
static int p1_len(int thorough) { return thorough ? 6 : 5; }
static uint64_t p1_count(int thorough) { (void) thorough; return (uint64_t) (H_MAX - H_MIN + 1) * N_MAX * 10; }
static void p1_run(uint64_t idx, vh_rng_t * rng) {
    int prefix[1]; uint64_t t = idx; size_t H; int N;
    (void) rng;
    prefix[0] = (int) (t % 10); t /= 10;
    N = 1 + (int) (t % N_MAX); t /= N_MAX; H = H_MIN + (size_t) t;
    vh_case_desc("exhaustive histories of length %d on a %zu-byte heap, capacity %d, first letter %d of the rich alphabet {push, push+text of 1, 2, H/2, H-2, H-1, H characters, errorpop, SYST:ERR?, clear}", p1_len(vh_args.thorough), H, N, prefix[0]);
    vh_watchdog(vh_args.thorough ? 60 : 10);
    enum_block(H, N, 1, p1_len(vh_args.thorough), prefix, 1, idx);
    flush_counts();
}

/* ---- phase 2: random long histories on heaps up to 600 bytes -------------------------------------------------- */
static uint64_t p2_count(int thorough) {
#if VH_ASAN
    return vh_scaled(thorough ? 10000 : 2000);
#else
    return vh_scaled(thorough ? 50000 : 8000);
#endif
}
static void p2_run(uint64_t idx, vh_rng_t * rng) {
    size_t H; int N, nops, i, pw_push, p_text, style; op_t * ops; rig_t rig; uint64_t hsh = VH_HASH_INIT;
    switch (vh_below(rng, 10)) { case 0: case 1: case 2: H = 2 + vh_below(rng, 15); break; case 3: case 4: case 5: case 6: H = 17 + vh_below(rng, 84); break; default: H = 101 + vh_below(rng, 500); break; }
    N = vh_chance(rng, 1, 8) ? 9 + (int) vh_below(rng, 24) : 1 + (int) vh_below(rng, 8);
    nops = vh_chance(rng, 1, 4) ? 2000 + (int) vh_below(rng, 8001) : 5 + (int) vh_below(rng, 300);
    pw_push = 30 + 15 * (int) vh_below(rng, 4);
    p_text = 40 + 20 * (int) vh_below(rng, 3);
    style = (int) vh_below(rng, 3); /* 0: many small texts, 1: mixed, 2: texts near the heap size */
    ops = (op_t *) calloc((size_t) nops, sizeof *ops);
    for (i = 0; i < nops; i++) {
        op_t * o = &ops[i];
        if ((int) vh_below(rng, 100) < pw_push) {
            if ((int) vh_below(rng, 100) < p_text) {
                size_t len; uint32_t r = vh_below(rng, 100);
                uint32_t small = 40 + (style == 0 ? 40 : 0) - (style == 2 ? 25 : 0);
                o->kind = OP_PUSHT;
                if (r < small) len = 1 + vh_below(rng, (uint32_t) (H / 8 + 1));
                else if (r < small + 15) len = 1 + vh_below(rng, (uint32_t) (H / 2 + 1));
                else if (r < small + 30) len = (H > 3 ? H - 3 : 0) + vh_below(rng, 5);
                else if (r < small + 33) len = 0;
                else len = vh_below(rng, (uint32_t) H + 6);
                if (len > RUN_MAX - 1) len = RUN_MAX - 1;
                o->len = (uint16_t) len;
                o->mode = (uint8_t) vh_below(rng, M__N);
                o->aux = (uint8_t) vh_below(rng, 9);
            } else o->kind = OP_PUSH;
        } else {
            uint32_t r = vh_below(rng, 20);
            o->kind = r == 0 ? OP_CLEAR : (r < 10 ? OP_POP_API : OP_POP_SYST);
            o->aux = (uint8_t) vh_below(rng, 2);
        }
        hsh = vh_hash_u64(((uint64_t) o->kind << 32) ^ ((uint64_t) o->mode << 16) ^ o->len, hsh);
    }
    vh_case_desc("random history: %d operations, heap %zu bytes, capacity %d, %d%% pushes, %d%% with text, length style %d", nops, H, N, pw_push, p_text, style);
    vh_watchdog(vh_args.thorough ? 60 : 10);
    rig_open(&rig, N, H);
    g_client_keeps = (idx % 4 == 3);
    if (idx % 4 == 2) {
        /* heap and text buffer in ONE block, nothing in between; the guard behind the heap is given up for this history */
        char * blk = (char *) malloc(HGUARD + H + 1400), * saveh = rig.heap, * saveb = rig.hblock;
        memset(blk, 0xA5, HGUARD + H + 1400);
        rig.heap = blk + HGUARD; g_adjacent_src = rig.heap + H; g_adjacent_cap = 1400; rig.adjacent = 1;
        run_history(&rig, ops, nops);
        g_adjacent_src = NULL; rig.adjacent = 0; rig.heap = saveh; rig.hblock = saveb;
        SCPI_InitHeap(rig.v->ctx, rig.v->heap, rig.v->heap_len);
        free(blk);
    } else
    run_history(&rig, ops, nops);
    g_client_keeps = 0;
    rig_close(&rig);
    vh_distinct(vh_hash_u64((uint64_t) N * 1000 + H, hsh));
    if (vh_want_sample()) vh_sample("random history: %d operations on a %zu-byte heap, capacity %d (%d%% pushes, %d%% with text, length style %d)", nops, H, N, pw_push, p_text, style);
    free(ops);
    flush_counts();
}

int main(int argc, char ** argv) {
    static const vh_phase_t phases[] = {
        { "enumerated", p0_count, p0_run },
        { "enumerated_rich", p1_count, p1_run },
        { "random", p2_count, p2_run },
    };
    runs_init();
    vh_require("errorpop.text_kept_by_the_application_for_good"); vh_require("push.text_buffer_adjacent_to_the_heap"); vh_require("overflow.events");
    vh_require("overflow.dropped_text");
    vh_require("overflow.marker_popped");
    vh_require("history.ring_wraparound");
    vh_require("text.returned_intact_errorpop");
    vh_require("text.returned_intact_syst_err");
    vh_require("text.returned_in_two_parts");
    vh_require("text.dropped");
    vh_require("text.dropped_larger_than_heap");
    vh_require("reuse.full_heap_text_pushed");
    vh_require("reuse.full_heap_text_intact");
    vh_require("clear.dropped_text");
    vh_require("heap.guard_checks");
    return vh_main(argc, argv, "C20", phases, 3);
}
