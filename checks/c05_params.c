/* C05 - wrong, missing or surplus parameters raise the right error, never mis-delivered.
 * Oracle: executable model of the parameter protocol written from the statement; units are generated from
 * the IEEE 488.2 program-data grammar so that the item structure is known by construction. */
#include "vh_scpi.h"
#include <stdio.h>
#include <stdlib.h>
#include <string.h>
#include <math.h>

enum { IT_DEC, IT_DECSUF, IT_DECBADSUF, IT_HEX, IT_OCT, IT_BIN, IT_MN_CHOICE, IT_MN_SPECIAL, IT_MN_BOOL, IT_MN_UNKNOWN, IT_STR, IT_BLOCK, IT_EXPR, IT__N };
static const char * const itnames[IT__N] = { "decimal", "decimal+suffix", "decimal+unknown-suffix", "hex", "oct", "bin", "mnemonic-choice", "mnemonic-special",
    "mnemonic-bool", "mnemonic-unknown", "string", "block", "expression" };
typedef struct {
    int type; char text[720]; size_t len;
    double dval; int64_t ival; int is_integer, is_plain; /* is_plain: [+-]digits[.digits] without exponent */
    int unit; double mult; int tag;
    char payload[720]; size_t plen; /* unescaped string content / block data / raw text of the token as SCPI_Parameter reports it */
    int ws_after; /* white space between this item and the following comma / end */
} item_t;

#define MAXI 5
static item_t I[MAXI]; static int NI;
static vh_sig_t sig;
static const scpi_command_t cmds[] = { { "CMD", vh_handler, 1 }, { "QRY?", vh_handler, 1 }, { "NOOP", vh_handler, 2 }, { "FAIL", vh_handler, 3 }, SCPI_CMD_LIST_END };

/* suffix pool with its meaning in two unit tables: A = the library's scpi_units_def, B = a small application table
 * (different contexts of one process may use different tables; a lookup must never leak from one into the other) */
static const struct { const char * s; int ua; double ma; int ub; double mb; } pool[] = {
    { "V", SCPI_UNIT_VOLT, 1, SCPI_UNIT_VOLT, 1 }, { "MV", SCPI_UNIT_VOLT, 1e-3, SCPI_UNIT_VOLT, 1e-3 }, { "kohm", SCPI_UNIT_OHM, 1e3, -1, 0 }, { "HZ", SCPI_UNIT_HERTZ, 1, -1, 0 },
    { "mhz", SCPI_UNIT_HERTZ, 1e6, -1, 0 }, { "S", SCPI_UNIT_SECOND, 1, SCPI_UNIT_SECOND, 1 }, { "uA", SCPI_UNIT_AMPER, 1e-6, -1, 0 }, { "DBM", SCPI_UNIT_DBM, 1, -1, 0 },
    { "Ohm", SCPI_UNIT_OHM, 1, SCPI_UNIT_OHM, 1 }, { "W", SCPI_UNIT_WATT, 1, -1, 0 }, { "M", SCPI_UNIT_METER, 1, SCPI_UNIT_SECOND, 60 }, { "FOO", -1, 0, SCPI_UNIT_UNITLESS, 2 },
    { "XYZ", -1, 0, -1, 0 }, { "Q/Q", -1, 0, -1, 0 }, { "VV", -1, 0, -1, 0 }, { "OHMS", -1, 0, -1, 0 } };
#define NPOOL (sizeof pool / sizeof pool[0])
static const scpi_unit_def_t units_b[] = { { "V", SCPI_UNIT_VOLT, 1 }, { "MV", SCPI_UNIT_VOLT, 1e-3 }, { "S", SCPI_UNIT_SECOND, 1 }, { "OHM", SCPI_UNIT_OHM, 1 },
    { "M", SCPI_UNIT_SECOND, 60 }, { "FOO", SCPI_UNIT_UNITLESS, 2 }, SCPI_UNITS_LIST_END };
static int active_tab; /* 0 = table A, 1 = table B; chosen per case */
static const struct { const char * s; int tag; } ch_ok[] = { { "LOW", 1 }, { "low", 1 }, { "HI", 2 }, { "HIGH", 2 }, { "med", 3 }, { "MEDIUM", 3 }, { "SOUR", 10 }, { "source", 10 },
    { "CH1", 21 }, { "ch1", 21 }, { "TTL0", 22 }, { "EXT", 23 }, { "external2", 23 }, { "P25V", 24 } };
static const struct { const char * s; int tag; } sp_ok[] = { { "MIN", SCPI_NUM_MIN }, { "minimum", SCPI_NUM_MIN }, { "MAX", SCPI_NUM_MAX }, { "DEF", SCPI_NUM_DEF }, { "DEFAULT", SCPI_NUM_DEF },
    { "UP", SCPI_NUM_UP }, { "down", SCPI_NUM_DOWN }, { "NAN", SCPI_NUM_NAN }, { "INF", SCPI_NUM_INF }, { "INFINITY", SCPI_NUM_INF }, { "NINF", SCPI_NUM_NINF }, { "AUTO", SCPI_NUM_AUTO } };
static const char * const mn_unknown[] = { "FOO", "MINI", "HIGHER", "ONN", "X_1", "LO", "CH2", "CH", "TTL", "CH11", "EXTERNAL" };
static const char * const decs[] = { "0", "1", "12", "-3", "+7", "1.5", "-0.25", ".5", "2e3", "1E-2", "100", "3.", "65535", "-2147483648", "4294967295", "007" };

/* zero padding of the digits: the token length of a number is not bounded (only its value is); lengths are swept around the sizes
 * of conversion buffers a decoder may use */
static const int pad_targets[] = { 15, 16, 17, 31, 32, 33, 63, 64, 65, 66, 67, 127, 128, 129, 254, 255, 256, 257, 300, 511, 512, 513, 640 };
static void pad_digits(vh_rng_t * rng, char * out, size_t cap, const char * num, size_t prefix) {
    /* num = prefix characters (sign or #H) followed by digits...: insert zeros behind the prefix up to a target length */
    size_t L = (size_t) pad_targets[vh_below(rng, sizeof pad_targets / sizeof pad_targets[0])], n = strlen(num), z;
    if (L <= n || L + 1 > cap) { snprintf(out, cap, "%s", num); return; }
    z = L - n;
    memcpy(out, num, prefix); memset(out + prefix, '0', z); memcpy(out + prefix + z, num + prefix, n - prefix + 1);
    vh_count(L >= 256 ? "items.number_token_of_256_or_more_characters" : L >= 64 ? "items.number_token_of_64_to_255_characters" : "items.number_token_padded_below_64_characters", 1);
}
static void gen_item(vh_rng_t * rng, item_t * it) {
    static const int weights[IT__N] = { 30, 8, 4, 6, 3, 4, 6, 6, 4, 4, 12, 7, 6 };
    int tot = 0, r, t;
    memset(it, 0, sizeof *it);
    for (t = 0; t < IT__N; t++) tot += weights[t];
    r = (int) vh_below(rng, (uint32_t) tot);
    for (t = 0; t < IT__N; t++) { if (r < weights[t]) break; r -= weights[t]; }
    it->type = t;
    switch (t) {
        case IT_DEC: case IT_DECSUF: case IT_DECBADSUF: {
            const char * d = decs[vh_below(rng, sizeof decs / sizeof decs[0])]; char num[40]; static char padded[700];
            if (vh_chance(rng, 1, 3)) { snprintf(num, sizeof num, "%s%u", vh_chance(rng, 1, 4) ? "-" : "", (unsigned) vh_below(rng, 100000)); d = num; }
            if (vh_chance(rng, 1, 10)) { pad_digits(rng, padded, sizeof padded, d, (d[0] == '-' || d[0] == '+') ? 1 : 0); d = padded; }
            if (vh_chance(rng, 1, 12) && !strpbrk(d, "eE") && strlen(d) < 24) {
                /* white space around the exponent mark is part of the number (488.2 7.7.2.2) and as unbounded as any white space: runs of 0..130 blanks */
                static const int runs[] = { 0, 1, 2, 5, 30, 60, 61, 62, 63, 64, 65, 130 }; static char spaced[400], stripped[64];
                int w1 = runs[vh_below(rng, 12)], w2 = runs[vh_below(rng, 12)], e = (int) vh_below(rng, 25) - 12; size_t k = 0; int i2;
                k += (size_t) snprintf(spaced + k, sizeof spaced - k, "%s", d);
                for (i2 = 0; i2 < w1; i2++) spaced[k++] = (i2 % 7 == 3) ? '\t' : ' ';
                spaced[k++] = vh_chance(rng, 1, 2) ? 'E' : 'e';
                for (i2 = 0; i2 < w2; i2++) spaced[k++] = ' ';
                snprintf(spaced + k, sizeof spaced - k, "%d", e);
                snprintf(stripped, sizeof stripped, "%sE%d", d, e);
                vh_count(w1 + w2 >= 60 ? "items.number_with_60_or_more_blanks_around_the_exponent_mark" : "items.number_with_blanks_around_the_exponent_mark", 1);
                it->dval = strtod(stripped, NULL); it->is_plain = 0; it->is_integer = 0; d = spaced;
            } else {
            it->dval = strtod(d, NULL); it->is_plain = !strpbrk(d, "eE");
            it->is_integer = !strpbrk(d, ".eE"); if (it->is_integer) it->ival = strtoll(d, NULL, 10);
            }
            if (t == IT_DEC) snprintf(it->text, sizeof it->text, "%s", d);
            else {
                /* pick a suffix that is known (DECSUF) / unknown (DECBADSUF) in the table of this case's context */
                int k, tries = 0;
                do { k = (int) vh_below(rng, NPOOL); } while (((active_tab ? pool[k].ub : pool[k].ua) >= 0) != (t == IT_DECSUF) && ++tries < 200);
                snprintf(it->text, sizeof it->text, "%s%s%s", d, vh_chance(rng, 1, 2) ? " " : "", pool[k].s);
                if (t == IT_DECSUF) { it->unit = active_tab ? pool[k].ub : pool[k].ua; it->mult = active_tab ? pool[k].mb : pool[k].ma; }
            }
            /* a number directly followed by a letter that starts an exponent must not be generated: "2e3" + "E.." etc. are fine, but "1" + "E.." is not a suffix */
            snprintf(it->payload, sizeof it->payload, "%s", it->text); it->plen = strlen(it->text);
            break;
        }
        case IT_HEX: { unsigned v = (unsigned) vh_rand(rng) >> vh_below(rng, 32); snprintf(it->text, sizeof it->text, "#%c%X", vh_chance(rng, 1, 2) ? 'H' : 'h', v); it->ival = v; it->dval = v; it->is_integer = 1; snprintf(it->payload, sizeof it->payload, "%s", it->text + 2); it->plen = strlen(it->payload); break; }
        case IT_OCT: { unsigned v = (unsigned) vh_rand(rng) >> vh_below(rng, 32); snprintf(it->text, sizeof it->text, "#%c%o", vh_chance(rng, 1, 2) ? 'Q' : 'q', v); it->ival = v; it->dval = v; it->is_integer = 1; snprintf(it->payload, sizeof it->payload, "%s", it->text + 2); it->plen = strlen(it->payload); break; }
        case IT_BIN: { unsigned v = (unsigned) vh_below(rng, 65536), b; int n = 0; char tmp[40]; for (b = v; b || !n; b >>= 1) tmp[n++] = (char) ('0' + (b & 1)); it->text[0] = '#'; it->text[1] = vh_chance(rng, 1, 2) ? 'B' : 'b'; { int k = 2; while (n) it->text[k++] = tmp[--n]; it->text[k] = 0; }
                       it->ival = v; it->dval = v; it->is_integer = 1; snprintf(it->payload, sizeof it->payload, "%s", it->text + 2); it->plen = strlen(it->payload); break; }
        case IT_MN_CHOICE: { int k = (int) vh_below(rng, sizeof ch_ok / sizeof ch_ok[0]); snprintf(it->text, sizeof it->text, "%s", ch_ok[k].s); it->tag = ch_ok[k].tag; break; }
        case IT_MN_SPECIAL: { int k = (int) vh_below(rng, sizeof sp_ok / sizeof sp_ok[0]); snprintf(it->text, sizeof it->text, "%s", sp_ok[k].s); it->tag = sp_ok[k].tag; break; }
        case IT_MN_BOOL: { int on = (int) vh_below(rng, 2); snprintf(it->text, sizeof it->text, "%s", on ? (vh_chance(rng, 1, 2) ? "ON" : "on") : (vh_chance(rng, 1, 2) ? "OFF" : "Off")); it->tag = on; break; }
        case IT_MN_UNKNOWN: snprintf(it->text, sizeof it->text, "%s", mn_unknown[vh_below(rng, sizeof mn_unknown / sizeof mn_unknown[0])]); break;
        case IT_STR: {
            static const char * const contents[] = { "", "abc", "a,b", "x;y", "it's", "say \"hi\"", " lead", "trail ", "1", "MIN", "#12", "(1)", "a\tb" };
            const char * c = contents[vh_below(rng, sizeof contents / sizeof contents[0])]; char q = vh_chance(rng, 1, 2) ? '"' : '\''; size_t k = 0; const char * p;
            it->text[k++] = q; for (p = c; *p; p++) { it->text[k++] = *p; if (*p == q) it->text[k++] = q; } it->text[k++] = q; it->text[k] = 0;
            snprintf(it->payload, sizeof it->payload, "%s", c); it->plen = strlen(c);
            break;
        }
        case IT_BLOCK: {
            static const char data[] = "ab,c;d\"e'f\n#(1)\x80\xff xyz0123456789"; size_t n = vh_below(rng, 31); char ns[8]; int nd = snprintf(ns, sizeof ns, "%zu", n);
            if (vh_chance(rng, 1, 4)) { nd = snprintf(ns, sizeof ns, "%03zu", n); } /* leading zeros in the length are legal */
            it->len = (size_t) snprintf(it->text, sizeof it->text, "#%d%s", nd, ns); memcpy(it->text + it->len, data, n); it->len += n; it->text[it->len] = 0;
            memcpy(it->payload, data, n); it->plen = n;
            break;
        }
        default: { static const char * const ex[] = { "(1,2)", "(@1!2:3!4)", "(1:5)", "()", "(a+b*c)", "(@1,2,3)" }; snprintf(it->text, sizeof it->text, "%s", ex[vh_below(rng, 6)]); break; }
    }
    if ((t == IT_HEX || t == IT_OCT || t == IT_BIN) && vh_chance(rng, 1, 10)) {
        static char padded[700];
        pad_digits(rng, padded, sizeof padded, it->text, 2);
        snprintf(it->text, sizeof it->text, "%s", padded); snprintf(it->payload, sizeof it->payload, "%s", it->text + 2); it->plen = strlen(it->payload);
    }
    if (t != IT_BLOCK) it->len = strlen(it->text);
    if (t == IT_MN_CHOICE || t == IT_MN_SPECIAL || t == IT_MN_BOOL || t == IT_MN_UNKNOWN || t == IT_EXPR) { memcpy(it->payload, it->text, it->len); it->plen = it->len; }
    if (t == IT_STR) { /* payload already unescaped */ }
}

/* outcome of reader r applied to item it: returns 1 = must succeed, 0 = must fail with one of codes[], -1 = not asserted */
static int expect_step(int r, const item_t * it, int * codes, int * ncodes) {
    int t = it->type;
    int isnum = (t == IT_DEC || t == IT_HEX || t == IT_OCT || t == IT_BIN), suff = (t == IT_DECSUF || t == IT_DECBADSUF);
    int mnem = (t >= IT_MN_CHOICE && t <= IT_MN_UNKNOWN);
    *ncodes = 0;
    switch (r) {
        case VR_INT32: case VR_UINT32: case VR_INT64: case VR_UINT64:
            if (t == IT_DEC) {
                /* fraction/exponent given to an integer reader: only clause (i) applies. So it does for an integer the reader's type cannot hold
                 * (-3 read as unsigned, 4294967295 read as int32): the statement names no error for it and does not promise delivery either -
                 * wrapped, saturated or refused with an error of its own are all "not a silent failure" */
                if (!it->is_integer) return -1;
                if (r == VR_INT32 && (it->ival < INT32_MIN || it->ival > INT32_MAX)) return -1;
                if (r == VR_UINT32 && (it->ival < 0 || it->ival > (int64_t) UINT32_MAX)) return -1;
                if (r == VR_UINT64 && it->ival < 0) return -1;
                return 1;
            }
            if (isnum) return 1;
            if (suff) { codes[(*ncodes)++] = -138; return 0; }
            codes[(*ncodes)++] = -104; return 0;
        case VR_FLOAT: case VR_DOUBLE:
            if (isnum) return 1;
            if (suff) { codes[(*ncodes)++] = -138; return 0; }
            codes[(*ncodes)++] = -104; return 0;
        case VR_BOOL:
            if (t == IT_DEC) return it->is_integer ? 1 : -1;
            if (t == IT_MN_BOOL) return 1;
            if (mnem) { codes[(*ncodes)++] = -224; return 0; }
            if (t == IT_HEX || t == IT_OCT || t == IT_BIN) return -1;
            codes[(*ncodes)++] = -104; if (suff) codes[(*ncodes)++] = -138; return 0;
        case VR_CHOICE:
            if (t == IT_MN_CHOICE) return 1;
            if (mnem) { codes[(*ncodes)++] = -224; return 0; }
            codes[(*ncodes)++] = -104; if (suff) codes[(*ncodes)++] = -138; return 0;
        case VR_NUMBER:
            if (isnum || t == IT_DECSUF || t == IT_MN_SPECIAL) return 1;
            if (t == IT_DECBADSUF) { codes[(*ncodes)++] = -131; return 0; }
            if (mnem) { codes[(*ncodes)++] = -224; return 0; }
            codes[(*ncodes)++] = -104; return 0;
        case VR_CHARS: case VR_RAW: return 1;
        case VR_COPYTEXT: if (t == IT_STR) return 1; codes[(*ncodes)++] = -104; if (suff) codes[(*ncodes)++] = -138; return 0;
        case VR_BLOCK: if (t == IT_BLOCK) return 1; codes[(*ncodes)++] = -104; if (suff) codes[(*ncodes)++] = -138; return 0;
        default: return -1;
    }
}

static int in_codes(int c, const int * codes, int n) { int i; for (i = 0; i < n; i++) if (codes[i] == c) return 1; return 0; }

/* value delivered by a successful step must be the item's */
static const char * check_value(int r, const item_t * it, const vh_stepres_t * s) {
    int t = it->type;
    switch (r) {
        case VR_INT32: if (it->is_integer && it->ival >= INT32_MIN && it->ival <= INT32_MAX && (int32_t) s->i != (int32_t) it->ival) return "integer value"; break;
        case VR_UINT32: if (it->is_integer && it->ival >= 0 && it->ival <= UINT32_MAX && (uint32_t) s->u != (uint32_t) it->ival) return "integer value"; break;
        case VR_INT64: if (it->is_integer && s->i != it->ival) return "integer value"; break;
        case VR_UINT64: if (it->is_integer && it->ival >= 0 && s->u != (uint64_t) it->ival) return "integer value"; break;
        case VR_DOUBLE: if (s->d != it->dval) return "double value"; break;
        case VR_FLOAT: if (s->f != (float) it->dval && !(t == IT_DEC && fabs((double) s->f - it->dval) <= fabs(it->dval) * 1e-6)) return "float value"; break;
        case VR_BOOL: if (t == IT_MN_BOOL ? s->i != it->tag : (it->is_integer && s->i != (it->ival != 0))) return "boolean value"; break;
        case VR_CHOICE: if (s->tag != it->tag) return "choice tag"; break;
        case VR_NUMBER:
            if (t == IT_MN_SPECIAL) { if (!s->special || s->tag != it->tag) return "special-number tag"; }
            else if (s->special) return "special flag on a number";
            else if (t == IT_DECSUF) { double want = it->dval * it->mult; if (s->unit != it->unit) return "unit"; if (fabs(s->d - want) > fabs(want) * 1e-12) return "value times multiplier"; }
            else { if (s->d != it->dval) return "number value"; if (s->unit != SCPI_UNIT_NONE) return "unit on a unit-less number"; }
            break;
        case VR_CHARS: {
            /* strings lose their outer quotes, non-decimal numbers their 2-character prefix, blocks their header; everything else is the item text */
            const char * want = it->text; size_t wl = it->len;
            if (t == IT_STR) { want = it->text + 1; wl = it->len - 2; } else if (t == IT_HEX || t == IT_OCT || t == IT_BIN || t == IT_BLOCK) { want = it->payload; wl = it->plen; }
            if ((size_t) s->fullrawlen != wl || memcmp(s->raw, want, wl < sizeof s->raw ? wl : sizeof s->raw) != 0) return "raw text extent";
            break;
        }
        case VR_RAW: {
            const char * want = it->text; size_t wl = it->len;
            if (t == IT_HEX || t == IT_OCT || t == IT_BIN || t == IT_BLOCK) { want = it->payload; wl = it->plen; }
            if ((size_t) s->fullrawlen != wl || memcmp(s->raw, want, wl < sizeof s->raw ? wl : sizeof s->raw) != 0) return "raw token extent";
            /* a string, a block or an expression is not a number: none of the six numeric conversions may claim to have delivered one */
            if (t == IT_STR || t == IT_BLOCK || t == IT_EXPR) { vh_count("raw.numeric_conversions_of_text_block_or_expression_checked", 1); if (s->to_mask) return "numeric conversion of a non-number reported success"; }
            break;
        }
        case VR_COPYTEXT: if (s->count != it->plen || memcmp(s->raw, it->payload, it->plen < sizeof s->raw ? it->plen : sizeof s->raw) != 0) return "unescaped text"; break;
        case VR_BLOCK: if ((size_t) s->fullrawlen != it->plen || memcmp(s->raw, it->payload, it->plen < sizeof s->raw ? it->plen : sizeof s->raw) != 0) return "block data"; break;
        default: break;
    }
    return NULL;
}

static const uint8_t readers[] = { VR_INT32, VR_UINT32, VR_INT64, VR_UINT64, VR_FLOAT, VR_DOUBLE, VR_BOOL, VR_CHOICE, VR_NUMBER, VR_CHARS, VR_COPYTEXT, VR_BLOCK, VR_RAW };
#define NREADERS (sizeof readers / sizeof readers[0])

static void ws(vh_rng_t * rng, vh_buf_t * b, int p_num, int p_den, int * flag) {
    if (vh_chance(rng, (uint32_t) p_num, (uint32_t) p_den)) { int n = 1 + (int) vh_below(rng, 2); while (n--) vh_buf_addc(b, vh_chance(rng, 1, 3) ? '\t' : ' '); if (flag) *flag = 1; }
}

static void build_unit(vh_rng_t * rng, vh_buf_t * b, const char * hdr) {
    int i;
    vh_buf_adds(b, hdr);
    if (NI == 0) { ws(rng, b, 1, 6, NULL); return; }
    vh_buf_addc(b, ' '); ws(rng, b, 1, 5, NULL);
    for (i = 0; i < NI; i++) {
        if (i) { vh_buf_addc(b, ','); ws(rng, b, 1, 3, NULL); }
        vh_buf_add(b, I[i].text, I[i].len);
        I[i].ws_after = 0; ws(rng, b, 1, 3, &I[i].ws_after);
    }
}

static uint64_t p0_count(int thorough) {
#if VH_ASAN
    return vh_scaled(thorough ? 1000000 : 100000);
#else
    return vh_scaled(thorough ? 8000000 : 400000);
#endif
}

/* phase 0: well-formed lists against random signatures */
static void p0_run(uint64_t idx, vh_rng_t * rng) {
    static vh_buf_t msg;
    vh_ctx_t * v; int i, j, consumed = 0, fail = 0, exp_codes[3], nexp = 0, exp_any_of = 0, want_err = 0;
    int step_expect[VH_MAX_STEPS]; /* 1 ok, 0 fail, 2 absent, -1 unknown */ int step_item[VH_MAX_STEPS];
    int unknown = 0; char key[160]; const char * q = ""; size_t termlen = 1; int prefilled = 0;
    scpi_bool_t ret; const vh_inv_t * inv;
    (void) idx;
    active_tab = (int) vh_below(rng, 2);
    memset(&sig, 0, sizeof sig);
    sig.nsteps = (int) vh_below(rng, 5);
    for (j = 0; j < sig.nsteps; j++) { sig.steps[j].kind = readers[vh_below(rng, NREADERS)]; sig.steps[j].mandatory = (uint8_t) vh_chance(rng, 3, 4); sig.steps[j].cap = (uint16_t) (60 + vh_below(rng, 10)); }
    sig.verdict = vh_chance(rng, 1, 8) ? VV_ERR : VV_OK;
    NI = (int) vh_below(rng, MAXI + 1);
    if (vh_chance(rng, 1, 2) && sig.nsteps) NI = sig.nsteps - (int) vh_below(rng, 2) + (int) vh_below(rng, 2); /* near the signature length */
    if (NI < 0) NI = 0;
    if (NI > MAXI) NI = MAXI;
    for (i = 0; i < NI; i++) {
        gen_item(rng, &I[i]);
        /* bias: make the item fit the reader at that position half of the time */
        if (i < sig.nsteps && vh_chance(rng, 1, 2)) { int tries = 0, c[3], n; while (expect_step(sig.steps[i].kind, &I[i], c, &n) != 1 && tries++ < 30) gen_item(rng, &I[i]); }
    }
    vh_buf_reset(&msg);
    build_unit(rng, &msg, vh_chance(rng, 1, 6) ? "cmd" : "CMD");
    { int crlf = vh_chance(rng, 1, 5); vh_buf_adds(&msg, crlf ? "\r\n" : "\n"); termlen = crlf ? 2 : 1; }
    vh_case_desc("unit %s", vh_esc(msg.p, msg.len));
    for (i = 0; i + 1 < NI; i++) if (I[i].ws_after && I[i].type == IT_DEC) q = ":ws-between-decimal-and-comma";

    /* model */
    for (j = 0; j < VH_MAX_STEPS; j++) { step_expect[j] = -2; step_item[j] = -1; }
    for (j = 0; j < sig.nsteps; j++) {
        int c[3], n, e;
        step_item[j] = -1;
        if (fail) { step_expect[j] = -2; continue; } /* not reached */
        if (consumed >= NI) {
            if (sig.steps[j].mandatory) { step_expect[j] = 0; exp_codes[0] = -109; nexp = 1; fail = 1; want_err = 1; }
            else step_expect[j] = 2;
            continue;
        }
        step_item[j] = consumed;
        e = expect_step(sig.steps[j].kind, &I[consumed], c, &n);
        consumed++;
        if (e == 1) step_expect[j] = 1;
        else if (e == 0) { step_expect[j] = 0; memcpy(exp_codes, c, sizeof(int) * (size_t) n); nexp = n; fail = 1; want_err = 1; }
        else { step_expect[j] = -1; unknown = 1; } /* outcome not stated: if later steps run at all, this one succeeded and consumed its item */
    }
    if (!fail && !unknown) {
        if (sig.verdict == VV_ERR) { exp_codes[0] = -200; nexp = 1; want_err = 1; }
        else if (consumed < NI) { exp_codes[0] = -108; nexp = 1; want_err = 1; }
    }
    (void) exp_any_of;

    /* the state of the error queue when the unit arrives is history the statement quantifies away: one case in five meets a queue of 1..3
     * entries that is full or has one slot left (errors nobody has read yet). What a unit RAISES is then observed through the error callback;
     * the -350 that replaces an entry in the full queue is the queue's business (C10), not this unit's */
    { int qcap = (idx % 5 == 4) ? 1 + (int) vh_below(rng, 3) : 8;
      v = vh_ctx_new(cmds, 4200, qcap, 128); v->log_enabled = 0; v->sigs = &sig; v->nsigs = 1;
      if (idx % 5 == 4) { int k = qcap - (int) vh_below(rng, 2); prefilled = 1; while (k-- > 0) SCPI_ErrorPush(v->ctx, -310); vh_ctx_clear_capture(v); vh_count("history.error_queue_full_or_nearly_full_before_the_unit", 1); } }
    if (active_tab) { v->ctx->units = units_b; vh_count("units.application_table", 1); }
    /* a client that disconnected in mid-message left complete units and a partial one pending; the application discards them (device clear) */
    if (idx % 7 == 3) { static const char pend[] = "NOOP;CMD 1,2;NO"; vh_input(v, pend, 1 + vh_below(rng, sizeof pend - 1)); vh_device_clear(v); vh_ctx_clear_capture(v); vh_count("history.pending_input_discarded_by_the_application", 1); }
    /* the unit ends with its terminator, with a zero-length (flush) call, or with a flush call after travelling behind an empty line in the
     * same input call; the return value judged below is that of the call which executed the message */
    { int how = (int) (vh_hash(msg.p, msg.len, 11) % 6u); how = how == 4 ? 1 : how == 5 ? 2 : 0; if (how) vh_count(how == 1 ? "delivery.unit_ended_by_flush" : "delivery.unit_behind_an_empty_line_then_flush", 1);
      ret = vh_deliver(v, msg.p, msg.len, termlen, how); }
    vh_eval(1);
    inv = v->ninv ? &v->inv[0] : NULL;
    if (prefilled) { int r2, w2 = 0; for (r2 = 0; r2 < v->nerrs; r2++) if (v->errs[r2] != -350) v->errs[w2++] = v->errs[r2]; v->nerrs = w2; }

    if (v->ninv != 1) {
        snprintf(key, sizeof key, "C05:well-formed-unit-not-executed%s", q);
        vh_violation(key, "unit %s: handler ran %d times, errors:%s%d", vh_esc(msg.p, msg.len), v->ninv, v->nerrs ? " first " : " ", v->nerrs ? v->errs[0] : 0);
    } else {
        /* clause (i): a failing reader queued an error unless it is the optional-absent case */
        for (j = 0; j < inv->nsteps_done; j++) {
            const vh_stepres_t * s = &inv->res[j]; int absent = (step_expect[j] == 2);
            if (!s->ok && s->errs_after == s->errs_before && !absent) {
                snprintf(key, sizeof key, "C05:reader-failed-silently:%s:%s%s", vh_reader_names[s->kind], step_item[j] >= 0 ? itnames[I[step_item[j]].type] : "no-item", q);
                vh_violation(key, "unit %s: step %d (%s%s) returned FALSE without queuing an error", vh_esc(msg.p, msg.len), j, vh_reader_names[s->kind], sig.steps[j].mandatory ? "" : ", optional");
            }
            if (absent) { if (s->ok || s->errs_after != s->errs_before) { snprintf(key, sizeof key, "C05:optional-absent-not-silent:%s", vh_reader_names[s->kind]); vh_violation(key, "unit %s: absent optional step %d ok=%d errors %d", vh_esc(msg.p, msg.len), j, s->ok, s->errs_after - s->errs_before); } else vh_count("clause.optional_absent_silent", 1); }
        }
        if (!unknown) {
            /* per-step verdicts and delivered values */
            for (j = 0; j < sig.nsteps && step_expect[j] != -2 && step_expect[j] != -1; j++) {
                const vh_stepres_t * s = j < inv->nsteps_done ? &inv->res[j] : NULL;
                const item_t * it = step_item[j] >= 0 ? &I[step_item[j]] : NULL;
                if (!s) { snprintf(key, sizeof key, "C05:step-not-reached:%s%s", vh_reader_names[sig.steps[j].kind], q); vh_violation(key, "unit %s: step %d never ran", vh_esc(msg.p, msg.len), j); break; }
                if (step_expect[j] == 1) {
                    const char * bad;
                    if (!s->ok) { snprintf(key, sizeof key, "C05:well-typed-item-rejected:%s:%s%s", vh_reader_names[s->kind], itnames[it->type], q); vh_violation(key, "unit %s: step %d (%s) failed on item \"%s\" (error %d)", vh_esc(msg.p, msg.len), j, vh_reader_names[s->kind], vh_esc(it->text, it->len), v->nerrs ? v->errs[0] : 0); break; }
                    bad = check_value(s->kind, it, s);
                    if (bad) { snprintf(key, sizeof key, "C05:item-not-delivered-whole:%s:%s%s", vh_reader_names[s->kind], itnames[it->type], q); vh_violation(key, "unit %s: step %d (%s) on item \"%s\": wrong %s (raw \"%s\" len %d)", vh_esc(msg.p, msg.len), j, vh_reader_names[s->kind], vh_esc(it->text, it->len), bad, vh_esc(s->raw, (size_t) s->rawlen), s->fullrawlen); break; }
                    vh_count("clause.item_delivered_whole", 1);
                } else if (step_expect[j] == 0) {
                    if (s->ok) { snprintf(key, sizeof key, "C05:ill-typed-item-accepted:%s:%s%s", vh_reader_names[s->kind], it ? itnames[it->type] : "missing", q); vh_violation(key, "unit %s: step %d (%s) succeeded, expected error %d", vh_esc(msg.p, msg.len), j, vh_reader_names[s->kind], exp_codes[0]); }
                    break;
                }
            }
            /* error sequence of the unit: exactly the expected one */
            if (want_err) {
                if (v->nerrs != 1 || !in_codes(v->errs[0], exp_codes, nexp)) {
                    int fs = -1; for (j = 0; j < sig.nsteps; j++) if (step_expect[j] == 0) fs = j;
                    snprintf(key, sizeof key, "C05:error-expected%d-got%d:%s:%s%s", exp_codes[0], v->nerrs ? v->errs[0] : 0, fs >= 0 ? vh_reader_names[sig.steps[fs].kind] : "unit", (fs >= 0 && step_item[fs] >= 0) ? itnames[I[step_item[fs]].type] : "na", q);
                    vh_violation(key, "unit %s (signature of %d steps, verdict %s): expected exactly one error %d, callback saw %d error(s): %d %d %d", vh_esc(msg.p, msg.len), sig.nsteps, sig.verdict == VV_OK ? "OK" : "ERR",
                                 exp_codes[0], v->nerrs, v->nerrs > 0 ? v->errs[0] : 0, v->nerrs > 1 ? v->errs[1] : 0, v->nerrs > 2 ? v->errs[2] : 0);
                } else { char cn[32]; snprintf(cn, sizeof cn, "clause.error%d", v->errs[0]); vh_count(cn, 1); }
            } else if (v->nerrs != 0) {
                snprintf(key, sizeof key, "C05:unexpected-error%d%s", v->errs[0], q);
                vh_violation(key, "unit %s: no error expected, callback saw %d (first %d)", vh_esc(msg.p, msg.len), v->nerrs, v->errs[0]);
            } else vh_count("clause.no_error", 1);
        } else vh_count("not_asserted.integer_reader_on_fraction_or_exponent_etc", 1);
        /* return value of the input call */
        if ((ret ? 1 : 0) != (v->nerrs == 0)) { snprintf(key, sizeof key, "C05:input-return-value:%s", ret ? "true-with-error" : "false-without-error"); vh_violation(key, "unit %s: SCPI_Input returned %d, errors raised %d", vh_esc(msg.p, msg.len), (int) ret, v->nerrs); }
        else vh_count(ret ? "clause.return_true" : "clause.return_false", 1);
    }
    for (i = 0; i < NI; i++) if (I[i].ws_after) { vh_count("ws.after_item", 1); break; }
    vh_count("units", 1);
    { uint64_t h = vh_hash(msg.p, msg.len, 5); for (j = 0; j < sig.nsteps; j++) h = vh_hash_u64((uint64_t) sig.steps[j].kind * 2 + sig.steps[j].mandatory, h); vh_distinct(vh_hash_u64(sig.verdict, h)); }
    if (NI >= 2 && vh_want_sample()) { vh_buf_t sb = { 0, 0, 0 }; for (j = 0; j < sig.nsteps; j++) vh_buf_printf(&sb, "%s%s%s", j ? "," : "", vh_reader_names[sig.steps[j].kind], sig.steps[j].mandatory ? "" : "?"); vh_sample("signature (%s)->%s, unit %s -> errors [%d]", vh_buf_cstr(&sb), sig.verdict == VV_OK ? "OK" : "ERR", vh_esc(msg.p, msg.len), v->nerrs ? v->errs[0] : 0); vh_buf_free(&sb); }
    vh_ctx_free(v);
}

/* phase 1: malformed program data */
static const char * const malformed[] = { "\"abc", "'abc", "1,,2", "1,", ",1", "1 2", "(1", "#H", "#HZZ", "#", "#0", "#21a", "\"a\"b\"", "1,\"x", "#Q9", "#B2", "@", "1 , , 2", "abc def", "'a''", "12abc,,", "\x80", "\"\x80\"" };
static uint64_t p1_count(int thorough) { return vh_scaled(thorough ? 400000 : 40000); }
static void p1_run(uint64_t idx, vh_rng_t * rng) {
    static vh_buf_t msg; vh_ctx_t * v; int i, j, np, cmd_errs = 0; char key[160]; int flush_mode;
    const char * frag = malformed[vh_below(rng, sizeof malformed / sizeof malformed[0])];
    const vh_inv_t * inv;
    (void) idx;
    active_tab = 0;
    memset(&sig, 0, sizeof sig);
    sig.nsteps = (int) vh_below(rng, 4);
    for (j = 0; j < sig.nsteps; j++) { sig.steps[j].kind = vh_chance(rng, 1, 2) ? VR_RAW : readers[vh_below(rng, NREADERS)]; sig.steps[j].mandatory = (uint8_t) vh_chance(rng, 1, 2); sig.steps[j].cap = 64; }
    np = (int) vh_below(rng, 3); NI = np;
    for (i = 0; i < np; i++) { gen_item(rng, &I[i]); while (I[i].type == IT_DECBADSUF) gen_item(rng, &I[i]); }
    vh_buf_reset(&msg);
    vh_buf_adds(&msg, "CMD ");
    for (i = 0; i < np; i++) { vh_buf_add(&msg, I[i].text, I[i].len); vh_buf_addc(&msg, ','); }
    vh_buf_adds(&msg, frag);
    flush_mode = vh_chance(rng, 1, 4);
    if (!flush_mode) vh_buf_addc(&msg, '\n');
    vh_case_desc("malformed unit %s%s", vh_esc(msg.p, msg.len), flush_mode ? " + flush" : "");
    v = vh_ctx_new(cmds, 4200, 8, 128); v->log_enabled = 0; v->sigs = &sig; v->nsigs = 1;
    vh_input(v, msg.p, msg.len);
    if (flush_mode) vh_input(v, NULL, 0);
    else if (v->nerrs == 0 && v->ninv == 0 && v->ctx->buffer.position > 0) {
        /* an unterminated quote or block makes the terminator part of the data: the message is still pending, not executed.
         * It is completed by a flush like any other unterminated input and judged then. */
        vh_count("malformed.pending_until_flush", 1);
        vh_input(v, NULL, 0); flush_mode = 2;
    }
    vh_eval(1);
    for (i = 0; i < v->nerrs; i++) if (v->errs[i] <= -100 && v->errs[i] >= -199) cmd_errs++;
    if (!cmd_errs) {
        const char * cls = strchr(frag, '#') ? "block-or-nondecimal-fragment" : (frag[strlen(frag) - 1] == ',' ? "trailing-comma" : (strchr(frag, '"') || strchr(frag, '\'') ? "quote-fragment" : "other-fragment"));
        snprintf(key, sizeof key, "C05:malformed-data-no-command-error:%s:%s", cls, flush_mode ? "at-end-of-input" : "before-terminator");
        vh_violation(key, "unit %s%s: no -1xx error queued (callback saw %d errors, first %d); handler ran %d time(s)", vh_esc(msg.p, msg.len), flush_mode ? " + flush" : "", v->nerrs, v->nerrs ? v->errs[0] : 0, v->ninv);
    } else vh_count("clause.malformed_gets_command_error", 1);
    /* nothing but items of the well-formed prefix may be delivered */
    inv = v->ninv ? &v->inv[0] : NULL;
    if (inv) {
        vh_count("malformed.handler_ran_anyway", 1);
        for (j = 0; j < inv->nsteps_done; j++) {
            const vh_stepres_t * s = &inv->res[j];
            int lim = np + ((frag[0] >= '0' && frag[0] <= '9') || (frag[0] >= 'a' && frag[0] <= 'z') ? 1 : 0); /* the fragment itself may start with one well-formed item */
            if (s->ok && (j >= lim || (j < np && s->kind == VR_RAW && check_value(VR_RAW, &I[j], s)))) {
                snprintf(key, sizeof key, "C05:malformed-text-delivered:%s", vh_reader_names[s->kind]);
                vh_violation(key, "unit %s: step %d (%s) succeeded with \"%s\" which is not an item of the well-formed prefix (%d items)", vh_esc(msg.p, msg.len), j, vh_reader_names[s->kind], vh_esc(s->raw, (size_t) s->rawlen), np);
            }
        }
    } else vh_count("malformed.handler_not_run", 1);
    vh_count("malformed.units", 1);
    vh_distinct(vh_hash(msg.p, msg.len, 77 + (uint64_t) flush_mode));
    if (vh_want_sample()) vh_sample("malformed unit %s%s -> errors %d (first %d), handler ran %d", vh_esc(msg.p, msg.len), flush_mode ? " + flush" : "", v->nerrs, v->nerrs ? v->errs[0] : 0, v->ninv);
    vh_ctx_free(v);
}

/* phase 2: return value of the input call over several messages / overrun / partial input */
static uint64_t p2_count(int thorough) { return vh_scaled(thorough ? 300000 : 30000); }
static void p2_run(uint64_t idx, vh_rng_t * rng) {
    static vh_buf_t msg; vh_ctx_t * v; int nm = 1 + (int) vh_below(rng, 3), m, last_err = 0, partial = vh_chance(rng, 1, 5); scpi_bool_t ret; char key[96];
    static const struct { const char * t; int err; } ms[] = { { "NOOP", 0 }, { "NOOP 1", 1 }, { "CMD", 0 }, { "FOO", 1 }, { "NOOP;FOO", 1 }, { "FOO;NOOP", 1 }, { "$", 1 }, { "", 0 }, { "  NOOP ; NOOP", 0 }, { "CMD 1,,2", 1 } };
    static int nerr_alone[10] = { -1, -1, -1, -1, -1, -1, -1, -1, -1, -1 };
    size_t bufsz = vh_chance(rng, 1, 4) ? 8 + vh_below(rng, 16) : 64; int executed = 0, overlong = 0, errs_before_overlong = 0, errs_all = 0;
    (void) idx;
    memset(&sig, 0, sizeof sig);
    vh_buf_reset(&msg);
    for (m = 0; m < nm; m++) {
        int k = (int) vh_below(rng, sizeof ms / sizeof ms[0]);
        if (nerr_alone[k] < 0) { /* how many errors this message raises alone in a buffer that holds it (once per process) */
            vh_ctx_t * a = vh_ctx_new(cmds, 64, 8, 64); char one[32]; size_t l = strlen(ms[k].t);
            a->log_enabled = 0; a->sigs = &sig; a->nsigs = 1; memcpy(one, ms[k].t, l); one[l] = '\n';
            vh_scribble_chunk_in_callbacks(0); vh_input(a, one, l + 1); vh_scribble_chunk_in_callbacks(1);
            nerr_alone[k] = a->nerrs; vh_ctx_free(a);
            if ((nerr_alone[k] != 0) != (ms[k].err != 0)) vh_violation("C05:input-return-value:message-table", "message %s alone raised %d errors, the table says %s", ms[k].t, nerr_alone[k], ms[k].err ? "some" : "none");
        }
        if (!overlong) { if (strlen(ms[k].t) + 1 >= bufsz) overlong = 1; else errs_before_overlong += nerr_alone[k]; }
        vh_buf_adds(&msg, ms[k].t); vh_buf_addc(&msg, '\n'); last_err = ms[k].err; errs_all += nerr_alone[k]; executed++;
    }
    if (partial) vh_buf_adds(&msg, "NOOP 1"); /* unterminated tail: not executed by this call */
    vh_case_desc("input call %s", vh_esc(msg.p, msg.len));
    v = vh_ctx_new(cmds, bufsz, 8, 64); v->log_enabled = 0; v->sigs = &sig; v->nsigs = 1;
    if (msg.len >= bufsz) {
        /* The chunk is longer than the buffer. The statement does not say what "overran" means for a chunk whose MESSAGES would each fit: the
         * library may refuse the whole call (one -363, nothing executed, false) or take the chunk over piecewise and execute it like a finer
         * partition (then no -363, and the last-message rule decides). A chunk with a message that cannot fit (overlong) must end in -363 and false,
         * after at most the errors of the messages in front of it. (round 7, benign change C01-H) */
        int refused, piecewise;
        /* a library that takes the chunk over piecewise reads the caller's array again after callbacks have run: the array stays untouched here
         * (the kit otherwise scribbles it inside the first callback, which is fair only for calls that fit - see C08) */
        vh_scribble_chunk_in_callbacks(0);
        ret = vh_input(v, msg.p, msg.len);
        vh_scribble_chunk_in_callbacks(1);
        refused = !ret && v->nerrs == 1 && v->errs[0] == -363;
        if (overlong) piecewise = !ret && v->nerrs == 1 + errs_before_overlong && v->errs[v->nerrs - 1] == -363;
        else { int i; piecewise = (ret ? 1 : 0) == !last_err && v->nerrs == errs_all; for (i = 0; i < v->nerrs; i++) if (v->errs[i] == -363) piecewise = 0; }
        if (refused) vh_count("clause.return_false_on_overrun", 1);
        else if (piecewise) vh_count(overlong ? "clause.return_false_on_overrun" : "return.oversize_chunk_taken_piecewise", 1);
        else if (ret && (overlong || (v->nerrs && v->errs[v->nerrs - 1] == -363))) vh_violation("C05:input-return-value:true-on-overrun", "chunk of %zu bytes into a %zu-byte buffer returned true (%d errors, last %d)", msg.len, bufsz, v->nerrs, v->nerrs ? v->errs[v->nerrs - 1] : 0);
        else vh_violation("C05:overrun-error", "chunk %s of %zu bytes into a %zu-byte buffer returned %d and raised %d errors (first %d, last %d): neither refused as a whole (one -363, false) nor executed like a finer partition (%d errors, %s)", vh_esc(msg.p, msg.len), msg.len, bufsz, (int) ret, v->nerrs, v->nerrs ? v->errs[0] : 0, v->nerrs ? v->errs[v->nerrs - 1] : 0, overlong ? errs_before_overlong + 1 : errs_all, overlong || last_err ? "false" : "true");
    } else {
        ret = vh_input(v, msg.p, msg.len);
        if ((ret ? 1 : 0) != !last_err) { snprintf(key, sizeof key, "C05:input-return-value:multi-message:%s", ret ? "true-although-last-message-failed" : "false-although-last-message-succeeded"); vh_violation(key, "call %s returned %d; last executed message %s", vh_esc(msg.p, msg.len), (int) ret, last_err ? "raised an error" : "raised none"); }
        else vh_count(last_err ? "clause.return_false_last_message_failed" : "clause.return_true_last_message_ok", 1);
        if (partial) vh_count("return.partial_tail_pending", 1);
    }
    vh_eval(1);
    vh_distinct(vh_hash(msg.p, msg.len, 99));
    vh_ctx_free(v);
}

/* phase 3: several units in one message - the error accounting of a unit must not depend on what earlier units raised */
static uint64_t p3_count(int thorough) { return vh_scaled(thorough ? 400000 : 40000); }
static void p3_run(uint64_t idx, vh_rng_t * rng) {
    static const struct { const char * t; int err; } us[] = { { "NOOP", 0 }, { "NOOP 5", -108 }, { "CMD", -109 }, { "CMD 5", 0 }, { "CMD 5,6", -108 }, { "CMD \"x\"", -104 }, { "CMD 5 V", -138 },
        { "FAIL", -200 }, { "FAIL 1", -200 }, { "FOO", -113 }, { "", 0 }, { "cmd 7 ", 0 }, { ":NOOP 1,2", -108 } };
    static vh_sig_t s3[3]; static vh_buf_t msg;
    int nu = 2 + (int) vh_below(rng, 3), u, exp[6], ne = 0, i, bad = 0; vh_ctx_t * v; scpi_bool_t ret; char key[96];
    (void) idx;
    memset(s3, 0, sizeof s3);
    s3[0].nsteps = 1; s3[0].steps[0].kind = VR_INT32; s3[0].steps[0].mandatory = 1;
    s3[2].verdict = VV_ERR;
    vh_buf_reset(&msg);
    for (u = 0; u < nu; u++) { int k = (int) vh_below(rng, sizeof us / sizeof us[0]); if (u) vh_buf_adds(&msg, vh_chance(rng, 1, 4) ? " ; " : ";"); vh_buf_adds(&msg, us[k].t); if (us[k].err) exp[ne++] = us[k].err; }
    vh_buf_addc(&msg, '\n');
    vh_case_desc("multi-unit message %s", vh_esc(msg.p, msg.len));
    v = vh_ctx_new(cmds, 256, 16, 256); v->log_enabled = 0; v->sigs = s3; v->nsigs = 3;
    ret = vh_input(v, msg.p, msg.len);
    vh_eval(1);
    if (v->nerrs != ne) bad = 1; else for (i = 0; i < ne; i++) if (v->errs[i] != exp[i]) bad = 1;
    if (bad) {
        vh_buf_t a = { 0, 0, 0 }, b = { 0, 0, 0 };
        for (i = 0; i < v->nerrs; i++) vh_buf_printf(&a, "%d ", v->errs[i]);
        for (i = 0; i < ne; i++) vh_buf_printf(&b, "%d ", exp[i]);
        snprintf(key, sizeof key, "C05:multi-unit-error-sequence:%s", v->nerrs < ne ? "error-missing-after-earlier-unit" : (v->nerrs > ne ? "extra-error" : "different-code"));
        vh_violation(key, "message %s: errors raised [%s], each unit on its own raises [%s]", vh_esc(msg.p, msg.len), vh_buf_cstr(&a), vh_buf_cstr(&b));
        vh_buf_free(&a); vh_buf_free(&b);
    } else vh_count(ne >= 2 ? "clause.multi_unit_two_or_more_errors" : "clause.multi_unit_ok", 1);
    if ((ret ? 1 : 0) != (ne == 0)) vh_violation("C05:input-return-value:multi-unit", "message %s returned %d with %d errors", vh_esc(msg.p, msg.len), (int) ret, ne);
    vh_distinct(vh_hash(msg.p, msg.len, 123));
    vh_ctx_free(v);
}

static int first_differs(const vh_stepres_t * r, int want) {
    /* the kit stores the first element as its raw bit pattern */
    if (r->kind == VR_ARR_FLOAT) { uint32_t b = (uint32_t) r->u; float f; memcpy(&f, &b, 4); return f != (float) want; }
    if (r->kind == VR_ARR_DOUBLE) { double d; memcpy(&d, &r->u, 8); return d != (double) want; }
    if (r->kind == VR_ARR_INT32 || r->kind == VR_ARR_UINT32) return (uint32_t) r->u != (uint32_t) want;
    return r->u != (uint64_t) want;
}
/* phase 4: array readers, only where the statement is unambiguous: all elements well typed -> TRUE with all of them (up to the
 * capacity), nothing queued except -108 for surplus items; no item at all for a mandatory array -> FALSE and -109 */
static uint64_t p4_count(int thorough) { return vh_scaled(thorough ? 200000 : 20000); }
static void p4_run(uint64_t idx, vh_rng_t * rng) {
    static const uint8_t kinds[] = { VR_ARR_INT32, VR_ARR_UINT32, VR_ARR_INT64, VR_ARR_UINT64, VR_ARR_FLOAT, VR_ARR_DOUBLE };
    static vh_sig_t s4; static vh_buf_t msg; vh_ctx_t * v; int n = (int) vh_below(rng, 7), cap = 1 + (int) vh_below(rng, 6), i, mand = (int) vh_below(rng, 2); int vals[8]; char key[96];
    const vh_inv_t * inv; int want_err;
    (void) idx;
    memset(&s4, 0, sizeof s4);
    s4.nsteps = 1; s4.steps[0].kind = kinds[vh_below(rng, 6)]; s4.steps[0].mandatory = (uint8_t) mand; s4.steps[0].cap = (uint16_t) cap;
    vh_buf_reset(&msg); vh_buf_adds(&msg, "CMD");
    for (i = 0; i < n; i++) { vals[i] = (int) vh_below(rng, 100000); vh_buf_printf(&msg, "%s%s%d%s", i ? "," : " ", vh_chance(rng, 1, 4) ? " " : "", vals[i], vh_chance(rng, 1, 4) ? " " : ""); }
    vh_buf_addc(&msg, '\n');
    vh_case_desc("array reader %s cap %d on %s", vh_reader_names[s4.steps[0].kind], cap, vh_esc(msg.p, msg.len));
    v = vh_ctx_new(cmds, 256, 8, 64); v->log_enabled = 0; v->sigs = &s4; v->nsigs = 1;
    vh_input(v, msg.p, msg.len);
    vh_eval(1);
    inv = v->ninv == 1 ? &v->inv[0] : NULL;
    want_err = n == 0 ? (mand ? -109 : 0) : (n > cap ? -108 : 0);
    if (!inv || inv->nsteps_done != 1) vh_violation("C05:array-unit-not-executed", "unit %s: handler ran %d times", vh_esc(msg.p, msg.len), v->ninv);
    else {
        const vh_stepres_t * r = &inv->res[0]; int expect_ok = n > 0 || !mand; size_t expect_cnt = (size_t) (n < cap ? n : cap);
        if (n == 0 && mand) { if (r->ok) vh_violation("C05:array-missing-mandatory-accepted", "unit %s: mandatory array reader returned TRUE", vh_esc(msg.p, msg.len)); }
        else if (n > 0 && (!r->ok || r->count != expect_cnt || first_differs(r, vals[0]))) { snprintf(key, sizeof key, "C05:array-elements-not-delivered:%s", vh_reader_names[r->kind]); vh_violation(key, "unit %s cap %d: ok=%d count=%zu first=%llu, expected %zu elements starting with %d", vh_esc(msg.p, msg.len), cap, r->ok, r->count, (unsigned long long) r->u, expect_cnt, vals[0]); }
        (void) expect_ok;
        if ((want_err == 0 && v->nerrs != 0) || (want_err != 0 && (v->nerrs != 1 || v->errs[0] != want_err))) { snprintf(key, sizeof key, "C05:array-error-expected%d-got%d", want_err, v->nerrs ? v->errs[0] : 0); vh_violation(key, "unit %s (array cap %d, %s): errors %d first %d", vh_esc(msg.p, msg.len), cap, mand ? "mandatory" : "optional", v->nerrs, v->nerrs ? v->errs[0] : 0); }
        else vh_count(want_err == -109 ? "clause.array_missing_mandatory" : (want_err == -108 ? "clause.array_surplus_items" : "clause.array_all_delivered"), 1);
    }
    if (s4.steps[0].kind == VR_ARR_FLOAT || s4.steps[0].kind == VR_ARR_DOUBLE) { /* first element is stored as its bit pattern */ }
    vh_distinct(vh_hash(msg.p, msg.len, 321 + (uint64_t) cap * 8 + s4.steps[0].kind));
    vh_ctx_free(v);
}

int main(int argc, char ** argv) {
    static const vh_phase_t phases[] = { { "well-formed lists x signatures", p0_count, p0_run }, { "malformed data", p1_count, p1_run }, { "input return value", p2_count, p2_run }, { "several units per message", p3_count, p3_run }, { "array readers", p4_count, p4_run } };
    vh_scribble_chunk_in_callbacks(1); vh_decoy_enable(5); vh_require("decoy.messages_run_on_a_second_context");
    vh_require("items.number_token_of_256_or_more_characters"); vh_require("items.number_token_of_64_to_255_characters"); vh_require("clause.error-109"); vh_require("history.pending_input_discarded_by_the_application"); vh_require("clause.error-108"); vh_require("clause.error-104"); vh_require("clause.error-138"); vh_require("clause.error-131");
    vh_require("clause.error-224"); vh_require("clause.error-200"); vh_require("clause.optional_absent_silent"); vh_require("clause.item_delivered_whole");
    vh_require("clause.no_error"); vh_require("clause.malformed_gets_command_error"); vh_require("clause.return_true"); vh_require("clause.return_false");
    vh_require("clause.return_false_on_overrun"); vh_require("ws.after_item"); vh_require("history.error_queue_full_or_nearly_full_before_the_unit"); vh_require("clause.multi_unit_two_or_more_errors");
    vh_require("units.application_table"); vh_require("clause.array_all_delivered"); vh_require("clause.array_missing_mandatory");
    return vh_main(argc, argv, "C05", phases, 5);
}
