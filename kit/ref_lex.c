/* ref_lex: table-driven longest-match reference recognisers (see ref_lex.h). */
#include "ref_lex.h"
#include <string.h>

/* ---- character sets, written as explicit ranges (no <ctype.h>) ---------------------------- */
enum { CS_WS = 256, CS_ALPHA, CS_DIGIT, CS_WORD, CS_SIGN, CS_EXP, CS_SLASHDOT, CS_HEX, CS_OCT, CS_BIN,
       CS_HH, CS_QQ, CS_BB, CS_EXPRCHAR, CS_STR_DQ, CS_STR_SQ };

static int rng_(int c, int lo, int hi) { return c >= lo && c <= hi; }
static int in_set(int set, int c) {
    if (set < 256) return c == set;
    switch (set) {
        case CS_WS: return c == 0x20 || c == 0x09;
        case CS_ALPHA: return rng_(c, 0x41, 0x5a) || rng_(c, 0x61, 0x7a);
        case CS_DIGIT: return rng_(c, 0x30, 0x39);
        case CS_WORD: return rng_(c, 0x41, 0x5a) || rng_(c, 0x61, 0x7a) || rng_(c, 0x30, 0x39) || c == 0x5f;
        case CS_SIGN: return c == 0x2b || c == 0x2d;
        case CS_EXP: return c == 0x45 || c == 0x65;
        case CS_SLASHDOT: return c == 0x2f || c == 0x2e;
        case CS_HEX: return rng_(c, 0x30, 0x39) || rng_(c, 0x41, 0x46) || rng_(c, 0x61, 0x66);
        case CS_OCT: return rng_(c, 0x30, 0x37);
        case CS_BIN: return c == 0x30 || c == 0x31;
        case CS_HH: return c == 0x48 || c == 0x68;
        case CS_QQ: return c == 0x51 || c == 0x71;
        case CS_BB: return c == 0x42 || c == 0x62;
        case CS_EXPRCHAR: return rng_(c, 0x20, 0x7e) && c != 0x22 && c != 0x23 && c != 0x27 && c != 0x28 && c != 0x29 && c != 0x3b;
        case CS_STR_DQ: return rng_(c, 0x00, 0x7f) && c != 0x22;
        case CS_STR_SQ: return rng_(c, 0x00, 0x7f) && c != 0x27;
    }
    return 0;
}

/* ---- automata ------------------------------------------------------------------------------- */
#define MAXST 12
typedef struct { signed char from; short set; signed char to; } edge_t;
typedef struct {
    const edge_t * edges; int nedges;
    const int * accept;          /* per state: 0 = not accepting, else a tag (token type + 1) */
    int nstates;
    signed char next[MAXST][256];
    int built;
} dfa_t;

static void dfa_build(dfa_t * d) {
    int i, c;
    memset(d->next, -1, sizeof d->next);
    for (i = 0; i < d->nedges; i++)
        for (c = 0; c < 256; c++)
            if (in_set(d->edges[i].set, c)) d->next[(int) d->edges[i].from][c] = d->edges[i].to;
    d->built = 1;
}

/* longest match: *tag = accept tag of the last accepting position (0 = none), returns that position;
 * *stop_state / *stop_pos: where the automaton stopped (dead edge or end of input) */
static long dfa_longest(dfa_t * d, const unsigned char * s, size_t n, int * tag, int * stop_state, long * stop_pos) {
    int st = 0; long best = 0; size_t i = 0;
    if (!d->built) dfa_build(d);
    *tag = d->accept[0];
    for (;;) {
        int nx;
        if (i >= n) break;
        nx = d->next[st][s[i]];
        if (nx < 0) break;
        st = nx; i++;
        if (d->accept[st]) { *tag = d->accept[st]; best = (long) i; }
    }
    if (stop_state) *stop_state = st;
    if (stop_pos) *stop_pos = (long) i;
    return best;
}

#define T(x) ((int) (x) + 1)

/* ws        [ \t]+ */
static const edge_t ws_e[] = { { 0, CS_WS, 1 }, { 1, CS_WS, 1 } };
static const int ws_a[] = { 0, T(SCPI_TOKEN_WS) };
static dfa_t ws_d = { ws_e, 2, ws_a, 2 };

/* common    '*' mnemonic '?'?  | '*' alone -> INCOMPLETE_COMMON
 * compound  ':'? mnemonic (':' mnemonic)* '?'?  | ... ':' without mnemonic -> INCOMPLETE_COMPOUND */
static const edge_t hd_e[] = {
    { 0, '*', 1 }, { 1, CS_ALPHA, 2 }, { 2, CS_WORD, 2 }, { 2, '?', 3 },
    { 0, ':', 4 }, { 0, CS_ALPHA, 5 }, { 4, CS_ALPHA, 5 }, { 5, CS_WORD, 5 }, { 5, ':', 4 }, { 5, '?', 6 },
};
static const int hd_a[] = { 0, T(SCPI_TOKEN_INCOMPLETE_COMMON_PROGRAM_HEADER), T(SCPI_TOKEN_COMMON_PROGRAM_HEADER), T(SCPI_TOKEN_COMMON_QUERY_PROGRAM_HEADER),
    T(SCPI_TOKEN_INCOMPLETE_COMPOUND_PROGRAM_HEADER), T(SCPI_TOKEN_COMPOUND_PROGRAM_HEADER), T(SCPI_TOKEN_COMPOUND_QUERY_PROGRAM_HEADER) };
static dfa_t hd_d = { hd_e, 10, hd_a, 7 };

/* mnemonic  [A-Za-z][A-Za-z0-9_]* */
static const edge_t cd_e[] = { { 0, CS_ALPHA, 1 }, { 1, CS_WORD, 1 } };
static const int cd_a[] = { 0, T(SCPI_TOKEN_PROGRAM_MNEMONIC) };
static dfa_t cd_d = { cd_e, 2, cd_a, 2 };

/* decimal   [+-]? (d+ ('.' d*)? | '.' d+) ( ws* [Ee] ws* [+-]? d+ )? */
static const edge_t de_e[] = {
    { 0, CS_SIGN, 1 }, { 0, CS_DIGIT, 2 }, { 0, '.', 3 },
    { 1, CS_DIGIT, 2 }, { 1, '.', 3 },
    { 2, CS_DIGIT, 2 }, { 2, '.', 4 }, { 2, CS_WS, 5 }, { 2, CS_EXP, 6 },
    { 3, CS_DIGIT, 4 },
    { 4, CS_DIGIT, 4 }, { 4, CS_WS, 5 }, { 4, CS_EXP, 6 },
    { 5, CS_WS, 5 }, { 5, CS_EXP, 6 },
    { 6, CS_WS, 6 }, { 6, CS_SIGN, 7 }, { 6, CS_DIGIT, 8 },
    { 7, CS_DIGIT, 8 },
    { 8, CS_DIGIT, 8 },
};
#define TD T(SCPI_TOKEN_DECIMAL_NUMERIC_PROGRAM_DATA)
static const int de_a[] = { 0, 0, TD, 0, TD, 0, 0, 0, TD };
static dfa_t de_d = { de_e, 20, de_a, 9 };

/* suffix    '/'? ( A+ '-'? d? ( [/.] A* '-'? d? )* )?   non-empty */
static const edge_t su_e[] = {
    { 0, '/', 1 }, { 0, CS_ALPHA, 2 },
    { 1, CS_ALPHA, 2 },
    { 2, CS_ALPHA, 2 }, { 2, '-', 3 }, { 2, CS_DIGIT, 4 }, { 2, CS_SLASHDOT, 5 },
    { 3, CS_DIGIT, 4 }, { 3, CS_SLASHDOT, 5 },
    { 4, CS_SLASHDOT, 5 },
    { 5, CS_ALPHA, 2 }, { 5, '-', 3 }, { 5, CS_DIGIT, 4 }, { 5, CS_SLASHDOT, 5 },
};
#define TS T(SCPI_TOKEN_SUFFIX_PROGRAM_DATA)
static const int su_a[] = { 0, TS, TS, TS, TS, TS };
static dfa_t su_d = { su_e, 14, su_a, 6 };

/* nondec    '#' [Hh] x+ | '#' [Qq] o+ | '#' [Bb] b+ */
static const edge_t nd_e[] = {
    { 0, '#', 1 }, { 1, CS_HH, 2 }, { 1, CS_QQ, 3 }, { 1, CS_BB, 4 },
    { 2, CS_HEX, 5 }, { 5, CS_HEX, 5 }, { 3, CS_OCT, 6 }, { 6, CS_OCT, 6 }, { 4, CS_BIN, 7 }, { 7, CS_BIN, 7 },
};
static const int nd_a[] = { 0, 0, 0, 0, 0, T(SCPI_TOKEN_HEXNUM), T(SCPI_TOKEN_OCTNUM), T(SCPI_TOKEN_BINNUM) };
static dfa_t nd_d = { nd_e, 10, nd_a, 8 };

/* string    q ( [\x00-\x7f]-q | q q )* q */
static const edge_t sd_e[] = { { 0, '"', 1 }, { 1, CS_STR_DQ, 1 }, { 1, '"', 2 }, { 2, '"', 1 } };
static const int sd_a[] = { 0, 0, T(SCPI_TOKEN_DOUBLE_QUOTE_PROGRAM_DATA) };
static dfa_t sd_d = { sd_e, 4, sd_a, 3 };
static const edge_t ss_e[] = { { 0, '\'', 1 }, { 1, CS_STR_SQ, 1 }, { 1, '\'', 2 }, { 2, '\'', 1 } };
static const int ss_a[] = { 0, 0, T(SCPI_TOKEN_SINGLE_QUOTE_PROGRAM_DATA) };
static dfa_t ss_d = { ss_e, 4, ss_a, 3 };

/* expr      '(' [\x20-\x7e]-["#'();]* ')' */
static const edge_t ex_e[] = { { 0, '(', 1 }, { 1, CS_EXPRCHAR, 1 }, { 1, ')', 2 } };
static const int ex_a[] = { 0, 0, T(SCPI_TOKEN_PROGRAM_EXPRESSION) };
static dfa_t ex_d = { ex_e, 3, ex_a, 3 };

/* newline   CR | LF | CR LF */
static const edge_t nl_e[] = { { 0, '\r', 1 }, { 0, '\n', 2 }, { 1, '\n', 2 } };
static const int nl_a[] = { 0, T(SCPI_TOKEN_NL), T(SCPI_TOKEN_NL) };
static dfa_t nl_d = { nl_e, 3, nl_a, 3 };

/* ---- results ------------------------------------------------------------------------------------- */
static void set_reject(ref_tok_t * r) {
    memset(r, 0, sizeof *r);
    r->verdict = REF_REJECT; r->type = SCPI_TOKEN_UNKNOWN; r->alt_adv = -1; r->nitems = -1;
}
static void set_accept(ref_tok_t * r, int type, long off, long len, long total) {
    memset(r, 0, sizeof *r);
    r->verdict = REF_ACCEPT; r->type = type; r->off = off; r->len = len; r->ret = total; r->adv = total; r->alt_adv = -1; r->nitems = -1;
}
static void simple(dfa_t * d, const unsigned char * s, size_t n, ref_tok_t * r) {
    int tag; long m = dfa_longest(d, s, n, &tag, NULL, NULL);
    if (tag && m > 0) set_accept(r, tag - 1, 0, m, m); else set_reject(r);
}

void ref_lex_ws(const unsigned char * s, size_t n, ref_tok_t * r) { simple(&ws_d, s, n, r); }
void ref_lex_header(const unsigned char * s, size_t n, ref_tok_t * r) { simple(&hd_d, s, n, r); }
void ref_lex_chardata(const unsigned char * s, size_t n, ref_tok_t * r) { simple(&cd_d, s, n, r); }
void ref_lex_decimal(const unsigned char * s, size_t n, ref_tok_t * r) { simple(&de_d, s, n, r); }
void ref_lex_suffix(const unsigned char * s, size_t n, ref_tok_t * r) { simple(&su_d, s, n, r); }
void ref_lex_expr(const unsigned char * s, size_t n, ref_tok_t * r) { simple(&ex_d, s, n, r); }
void ref_lex_newline(const unsigned char * s, size_t n, ref_tok_t * r) { simple(&nl_d, s, n, r); }

void ref_lex_nondec(const unsigned char * s, size_t n, ref_tok_t * r) {
    int tag; long m = dfa_longest(&nd_d, s, n, &tag, NULL, NULL);
    /* the token is the digit string, the prefix "#H" is reported through the return value only */
    if (tag && m > 2) set_accept(r, tag - 1, 2, m - 2, m); else set_reject(r);
}

void ref_lex_string(const unsigned char * s, size_t n, ref_tok_t * r) {
    dfa_t * d = (n > 0 && s[0] == '\'') ? &ss_d : &sd_d;
    int tag, st; long stop; long m = dfa_longest(d, s, n, &tag, &st, &stop);
    /* a quote directly followed by the same quote is an inserted quote (7.7.5.2): the string ends at the first
     * quote that is not doubled, i.e. the automaton must be in its accepting state when it stops */
    if (tag && m > 0 && m == stop) { set_accept(r, tag - 1, 0, m, m); return; }
    set_reject(r);
    /* an opening quote whose closing quote has not arrived when the input ends (this includes "..."" whose last quote may
     * still be the first half of an inserted quote) is "incomplete", exactly like a definite-length block cut by the end of
     * input: type UNKNOWN, length 0, cursor moved to the end, so that a message terminator inside the string is not acted upon */
    if (n > 0 && (s[0] == '"' || s[0] == '\'') && stop == (long) n) { r->verdict = REF_INCOMPLETE; r->adv = (long) n; r->ret = 0; }
}

/* block     '#' [1-9] d{n} byte{len}; a proper prefix of a block that ends with the input is "incomplete" */
void ref_lex_block(const unsigned char * s, size_t n, ref_tok_t * r) {
    size_t nd, i; unsigned long long len = 0;
    set_reject(r);
    if (n == 0 || s[0] != '#') return;
    if (n == 1) goto incomplete;
    if (!(s[1] >= '1' && s[1] <= '9')) return;
    nd = (size_t) (s[1] - '0');
    for (i = 0; i < nd; i++) {
        if (2 + i >= n) goto incomplete;
        if (!(s[2 + i] >= '0' && s[2 + i] <= '9')) return;
        len = len * 10 + (unsigned long long) (s[2 + i] - '0');
    }
    if (len > (unsigned long long) (n - 2 - nd)) goto incomplete;
    set_accept(r, SCPI_TOKEN_ARBITRARY_BLOCK_PROGRAM_DATA, (long) (2 + nd), (long) len, (long) (2 + nd + len));
    return;
incomplete:
    r->verdict = REF_INCOMPLETE; r->adv = (long) n; r->ret = 0;
}

void ref_lex_char(const unsigned char * s, size_t n, unsigned char c, int type, ref_tok_t * r) {
    if (n > 0 && s[0] == c) set_accept(r, type, 0, 1, 1); else set_reject(r);
}

static long ws_run(const unsigned char * s, size_t n) { ref_tok_t w; ref_lex_ws(s, n, &w); return w.verdict == REF_ACCEPT ? w.len : 0; }

void ref_lex_data(const unsigned char * s, size_t n, ref_tok_t * r) {
    long lead = ws_run(s, n), trail;
    const unsigned char * p = s + lead; size_t m = n - (size_t) lead;
    ref_tok_t t[6]; int k, hit = -1, nhit = 0;
    long item, wsnum = 0;
    ref_lex_nondec(p, m, &t[0]); ref_lex_chardata(p, m, &t[1]); ref_lex_decimal(p, m, &t[2]);
    ref_lex_string(p, m, &t[3]); ref_lex_block(p, m, &t[4]); ref_lex_expr(p, m, &t[5]);
    for (k = 0; k < 6; k++) if (t[k].verdict != REF_REJECT) { hit = k; nhit++; }
    set_reject(r);
    r->lead_ws = lead;
    if (nhit != 1) { /* the alternatives start with different characters: 0 or 1 can match */
        r->adv = lead; r->ret = lead;
        if (t[3].alt_adv >= 0) r->ambiguous = 1;
        return;
    }
    if (t[hit].verdict == REF_INCOMPLETE) { r->verdict = REF_INCOMPLETE; r->adv = (long) n; r->ret = lead; return; }
    item = t[hit].adv;
    set_accept(r, t[hit].type, lead + t[hit].off, t[hit].len, 0);
    r->lead_ws = lead;
    if (hit == 2) {
        long w = ws_run(p + item, m - (size_t) item);
        ref_tok_t sx; ref_lex_suffix(p + item + w, m - (size_t) (item + w), &sx);
        if (sx.verdict == REF_ACCEPT) { item += w + sx.len; r->len = item; r->type = SCPI_TOKEN_DECIMAL_NUMERIC_PROGRAM_DATA_WITH_SUFFIX; }
        else wsnum = w;
    }
    trail = ws_run(p + item, m - (size_t) item);
    r->adv = r->ret = lead + item + trail;
    r->ws_after_plain_num = wsnum;
}

void ref_lex_alldata(const unsigned char * s, size_t n, ref_tok_t * r) {
    long pos = 0, lost = 0; int items = 0;
    for (;;) {
        ref_tok_t d; ref_lex_data(s + pos, n - (size_t) pos, &d);
        if (d.verdict != REF_ACCEPT) {
            int amb = d.ambiguous; long plen = pos - 1; /* list before the comma */
            set_reject(r);
            r->nitems = -1; r->ambiguous = amb;
            if (d.verdict == REF_INCOMPLETE) { r->verdict = REF_INCOMPLETE; r->adv = (long) n; }
            else if (items > 0) { r->dangling_comma = 1; r->prefix_len = plen; r->prefix_items = items; r->ws_after_plain_num = lost; }
            return;
        }
        pos += d.adv; lost += d.ws_after_plain_num; items++;
        if ((size_t) pos < n && s[pos] == ',') { pos++; continue; }
        break;
    }
    set_accept(r, SCPI_TOKEN_ALL_PROGRAM_DATA, 0, pos, pos);
    r->nitems = items; r->ws_after_plain_num = lost;
}

void ref_lex_unit(const unsigned char * s, size_t n, ref_unit_t * u) {
    long pos, w; ref_tok_t nl, list;
    memset(u, 0, sizeof *u);
    u->lead_ws = ws_run(s, n);
    pos = u->lead_ws;
    ref_lex_header(s + pos, n - (size_t) pos, &u->header);
    u->shape = REF_UNIT_MALFORMED;
    if (u->header.verdict != REF_ACCEPT) { u->header_kind = REF_HDR_ABSENT; return; }
    u->header.off += pos;
    if (u->header.type == SCPI_TOKEN_INCOMPLETE_COMMON_PROGRAM_HEADER || u->header.type == SCPI_TOKEN_INCOMPLETE_COMPOUND_PROGRAM_HEADER) {
        u->header_kind = REF_HDR_INCOMPLETE; return;
    }
    u->header_kind = REF_HDR_COMPLETE;
    pos += u->header.len;
    w = ws_run(s + pos, n - (size_t) pos);
    if (w > 0) {
        long q = pos + w; int at_end = (size_t) q == n;
        ref_lex_newline(s + q, n - (size_t) q, &nl);
        if (at_end || nl.verdict == REF_ACCEPT || s[q] == ';') { u->shape = REF_UNIT_WS_ONLY; pos = q; }
        else {
            ref_lex_alldata(s + q, n - (size_t) q, &list);
            if (list.ambiguous) { u->ambiguous = 1; return; }
            if (list.verdict != REF_ACCEPT) return; /* malformed */
            u->shape = REF_UNIT_DATA; u->data_off = q; u->data_len = list.len; u->nitems = list.nitems; u->ws_after_plain_num = list.ws_after_plain_num;
            pos = q + list.len;
        }
    } else u->shape = REF_UNIT_BARE;
    /* terminator */
    ref_lex_newline(s + pos, n - (size_t) pos, &nl);
    if ((size_t) pos == n) { u->termination = SCPI_MESSAGE_TERMINATION_NONE; u->total = pos; }
    else if (nl.verdict == REF_ACCEPT) { u->termination = SCPI_MESSAGE_TERMINATION_NL; u->total = pos + nl.len; }
    else if (s[pos] == ';') { u->termination = SCPI_MESSAGE_TERMINATION_SEMICOLON; u->total = pos + 1; }
    else u->shape = REF_UNIT_MALFORMED;
}
