/* user configuration for the `custreg` build flavour: one user register group cascaded below a standard CONDITION register
 * (QUEStionable:VOLTage -> bit 0 of the QUEStionable condition register), as SCPI-99 20.x describes for extended status models */
#ifndef SCPI_USER_CONFIG_H
#define SCPI_USER_CONFIG_H
#define USE_CUSTOM_REGISTERS 1
#define USER_REGISTERS \
    USER_REG_QUES_VOLT,   /* event */ \
    USER_REG_QUES_VOLTE,  /* enable */ \
    USER_REG_QUES_VOLTC,  /* condition */ \
    USER_REG_OPER_SUB,    /* event-only group below the OPERation condition register */ \
    USER_REG_OPER_SUBE,
#define USER_REGISTER_DETAILS \
    { SCPI_REG_CLASS_EVEN, USER_REG_GROUP_QUES_VOLT }, \
    { SCPI_REG_CLASS_ENAB, USER_REG_GROUP_QUES_VOLT }, \
    { SCPI_REG_CLASS_COND, USER_REG_GROUP_QUES_VOLT }, \
    { SCPI_REG_CLASS_EVEN, USER_REG_GROUP_OPER_SUB }, \
    { SCPI_REG_CLASS_ENAB, USER_REG_GROUP_OPER_SUB },
#define USER_REGISTER_GROUPS \
    USER_REG_GROUP_QUES_VOLT, \
    USER_REG_GROUP_OPER_SUB,
#define USER_REGISTER_GROUP_DETAILS \
    { USER_REG_QUES_VOLT, USER_REG_QUES_VOLTE, USER_REG_QUES_VOLTC, SCPI_REG_NONE, SCPI_REG_NONE, SCPI_REG_QUESC, 0x0001 }, \
    { USER_REG_OPER_SUB, USER_REG_OPER_SUBE, SCPI_REG_NONE, SCPI_REG_NONE, SCPI_REG_NONE, SCPI_REG_OPERC, 0x0200 },
#endif
