/* counts distinct 64-bit hashes over several shard hash files */
#include <stdio.h>
#include <stdlib.h>
#include <stdint.h>
static int cmp(const void * a, const void * b) { uint64_t x = *(const uint64_t *) a, y = *(const uint64_t *) b; return x < y ? -1 : x > y; }
int main(int argc, char ** argv) {
    size_t n = 0, cap = 1 << 20, i, d = 0; int k;
    uint64_t * v = malloc(cap * 8);
    for (k = 1; k < argc; k++) {
        FILE * f = fopen(argv[k], "rb"); uint64_t x;
        if (!f) continue;
        while (fread(&x, 8, 1, f) == 1) { if (n == cap) { cap *= 2; v = realloc(v, cap * 8); if (!v) return 2; } v[n++] = x; }
        fclose(f);
    }
    qsort(v, n, 8, cmp);
    for (i = 0; i < n; i++) if (i == 0 || v[i] != v[i - 1]) d++;
    printf("%zu\n", d);
    return 0;
}
