/* ref_lex: reference recognisers for the IEEE 488.2 section 7 token syntax as stated in
 * DESIGN.md (C13), with the leniencies the library source documents built in (relaxed
 * suffix syntax, definite-length blocks only, flat expressions).
 *
 * Every regular token is a small deterministic automaton (transition table built at first
 * use from a list of {state, character set, next state} edges) that is run with the
 * longest-match rule: the answer is the last position at which the automaton was in an
 * accepting state.  Blocks (counting) and the composite recognisers are hand written on top.
 * Nothing here is derived from the library's skip* functions.
 *
 * All functions take the text from the cursor to the end of input: s[0..n). */
#ifndef REF_LEX_H
#define REF_LEX_H
#include <stddef.h>
#include "scpi/types.h" /* token type / termination constants only */

#ifdef __cplusplus
extern "C" {
#endif

enum { REF_REJECT = 0, REF_ACCEPT = 1, REF_INCOMPLETE = 2 };

typedef struct {
    int verdict;     /* REF_ACCEPT: token recognised; REF_REJECT: nothing; REF_INCOMPLETE: definite-length
                      * block cut by the end of input (type UNKNOWN, length 0, cursor at end of input) */
    int type;        /* expected scpi_token_type_t value (SCPI_TOKEN_UNKNOWN unless accepted) */
    long ret;        /* expected return value */
    long off, len;   /* expected token extent, offset relative to s (meaningful when accepted) */
    long adv;        /* expected cursor displacement */
    long alt_adv;    /* -1, or the token length under the second admissible reading of a quoted string
                      * (closing quote directly followed by the same quote, no terminator afterwards:
                      * "inserted quote of an unterminated string" (primary: reject) versus
                      * "complete string followed by a stray quote" (alt: accept alt_adv bytes)) */
    /* composite recognisers only */
    int nitems;              /* data list: number of items (-1 when rejected) */
    long lead_ws;            /* data: length of the leading white space */
    long ws_after_plain_num; /* data / list: white-space bytes directly following a decimal number that has
                              * no suffix (used only to name the witness class of a disagreement) */
    int ambiguous;           /* composite was rejected at a string that has alt_adv >= 0 */
    int dangling_comma;      /* list: a comma not followed by data; prefix_* describe the list before it */
    long prefix_len; int prefix_items;
} ref_tok_t;

void ref_lex_ws(const unsigned char * s, size_t n, ref_tok_t * r);
void ref_lex_header(const unsigned char * s, size_t n, ref_tok_t * r);
void ref_lex_chardata(const unsigned char * s, size_t n, ref_tok_t * r);
void ref_lex_decimal(const unsigned char * s, size_t n, ref_tok_t * r);
void ref_lex_suffix(const unsigned char * s, size_t n, ref_tok_t * r);
void ref_lex_nondec(const unsigned char * s, size_t n, ref_tok_t * r);
void ref_lex_string(const unsigned char * s, size_t n, ref_tok_t * r);
void ref_lex_block(const unsigned char * s, size_t n, ref_tok_t * r);
void ref_lex_expr(const unsigned char * s, size_t n, ref_tok_t * r);
void ref_lex_newline(const unsigned char * s, size_t n, ref_tok_t * r);
/* single character tokens: comma, semicolon, colon, specific character */
void ref_lex_char(const unsigned char * s, size_t n, unsigned char c, int type, ref_tok_t * r);
/* data   ws* (nondec | chardata | decimal (ws* suffix)? | string | block | expr) ws* */
void ref_lex_data(const unsigned char * s, size_t n, ref_tok_t * r);
/* list   data (',' data)* */
void ref_lex_alldata(const unsigned char * s, size_t n, ref_tok_t * r);

enum { REF_HDR_ABSENT = 0, REF_HDR_COMPLETE = 1, REF_HDR_INCOMPLETE = 2 };
enum { REF_UNIT_BARE = 0,    /* header, terminator               -> no data, 0 parameters            */
       REF_UNIT_WS_ONLY = 1, /* header, white space, terminator  -> 0 or -1 parameters               */
       REF_UNIT_DATA = 2,    /* header, white space, list, terminator                                */
       REF_UNIT_MALFORMED = 3 };
typedef struct {
    long lead_ws;
    int header_kind;
    ref_tok_t header;  /* offsets relative to s */
    int shape;         /* meaningful when header_kind == REF_HDR_COMPLETE */
    long data_off, data_len; int nitems; long ws_after_plain_num; /* REF_UNIT_DATA */
    int termination;   /* scpi_message_termination_t, for the well-formed shapes */
    long total;        /* bytes of the unit including its terminator, for the well-formed shapes */
    int ambiguous;     /* the data contain an ambiguous string (see alt_adv): nothing asserted */
} ref_unit_t;
/* unit   ws* header ( ws+ list? )? ( NL | ';' | end ) */
void ref_lex_unit(const unsigned char * s, size_t n, ref_unit_t * u);

#ifdef __cplusplus
}
#endif
#endif
