/* vh: harness core shared by all checks (PRNG, case loop, counters, distinct set,
 * samples, violation records, crash attribution).  No dependency on libscpi. */
#ifndef VH_H
#define VH_H
#include <stddef.h>
#include <stdint.h>
#include <stdarg.h>

#ifdef __cplusplus
extern "C" {
#endif

#if defined(__has_feature)
#if __has_feature(address_sanitizer)
#define VH_ASAN 1
#endif
#endif
#if defined(__SANITIZE_ADDRESS__) && !defined(VH_ASAN)
#define VH_ASAN 1
#endif
#ifndef VH_ASAN
#define VH_ASAN 0
#endif

/* ---- PRNG: xoshiro256** seeded by splitmix64 over (seed, phase, idx) ---- */
typedef struct { uint64_t s[4]; } vh_rng_t;
void vh_rng_seed(vh_rng_t * r, uint64_t seed, uint64_t stream, uint64_t idx);
uint64_t vh_rand(vh_rng_t * r);
uint32_t vh_below(vh_rng_t * r, uint32_t n); /* uniform in [0,n), n>=1 */
int vh_chance(vh_rng_t * r, uint32_t num, uint32_t den);
double vh_unit(vh_rng_t * r); /* [0,1) */

/* ---- hashing (FNV-1a 64 with avalanche) ---- */
uint64_t vh_hash(const void * data, size_t len, uint64_t h);
uint64_t vh_hash_u64(uint64_t v, uint64_t h);
#define VH_HASH_INIT 0xcbf29ce484222325ULL

/* ---- growable byte buffer ---- */
typedef struct { char * p; size_t len, cap; } vh_buf_t;
void vh_buf_reset(vh_buf_t * b);
void vh_buf_free(vh_buf_t * b);
void vh_buf_add(vh_buf_t * b, const void * data, size_t len);
void vh_buf_addc(vh_buf_t * b, int c);
void vh_buf_adds(vh_buf_t * b, const char * s);
void vh_buf_printf(vh_buf_t * b, const char * fmt, ...) __attribute__((format(printf, 2, 3)));
const char * vh_buf_cstr(vh_buf_t * b); /* NUL-terminates (not counted) */
/* append bytes printable: \xNN escapes for non-printables, backslash and quote escaped */
void vh_buf_add_escaped(vh_buf_t * b, const void * data, size_t len);
const char * vh_esc(const void * data, size_t len); /* rotating static buffers */

/* ---- run arguments ---- */
typedef struct {
    const char * property;
    int thorough;
    uint64_t seed;
    int shard, nshards;
    const char * out_path;
    int resume_phase; uint64_t resume_idx; /* skip cases before this point */
    int replay; int replay_phase; uint64_t replay_idx;
    const char * config; /* build configuration name given by the driver */
    double scale; /* VERIF_SCALE workload multiplier (self-tests use <1) */
} vh_args_t;
extern vh_args_t vh_args;

typedef struct {
    const char * name;
    uint64_t (*count)(int thorough);           /* number of cases in this phase */
    void (*run)(uint64_t idx, vh_rng_t * rng); /* executes one case */
} vh_phase_t;

/* parses argv, runs all phases (cases idx with idx % nshards == shard), writes the
 * shard result file; returns process exit code (0 ok, 1 violations recorded, 2 harness) */
int vh_main(int argc, char ** argv, const char * property, const vh_phase_t * phases, int nphases);

/* ---- observations ---- */
void vh_eval(uint64_t n);                       /* executions/evaluations performed */
void vh_count(const char * name, uint64_t add); /* named observation counter */
uint64_t vh_counter_get(const char * name);
int vh_distinct(uint64_t hash);                 /* record non-trivial case hash; 1 if new in this shard */
void vh_sample(const char * fmt, ...) __attribute__((format(printf, 1, 2)));
int vh_want_sample(void);
/* a clause of the oracle that must be observed at least once (else the run is inconclusive) */
void vh_require(const char * counter_name);

/* case description shown on crash / in violations (cheap: store pointer-free text) */
void vh_case_desc(const char * fmt, ...) __attribute__((format(printf, 1, 2)));
extern volatile uint64_t vh_sub; /* inner-loop position for block cases */

/* record a violation for the current case; key names the witness class */
void vh_violation(const char * key, const char * fmt, ...) __attribute__((format(printf, 2, 3)));
uint64_t vh_violations(void);
uint64_t vh_scaled(uint64_t n); /* n * VERIF_SCALE, at least 1 */
/* per-case watchdog */
void vh_watchdog(unsigned seconds);

#ifdef __cplusplus
}
#endif
#endif
