/* ref_queue: reference model of the SCPI error/event queue, written from SCPI-99 vol.2 ch.21.8 and the
 * statements of properties C10/C20 (not from libscpi): a FIFO of capacity N of (code, text|none) in which a push
 * onto a full queue replaces the NEWEST stored entry by (-350 "Queue overflow", none) and drops the pushed one;
 * a pop from the empty queue yields (0 "No error", none).
 *
 * Deliberately not a ring: entries live in an array with the oldest at index 0, a pop shifts the array down.
 * The model does not own texts: an entry carries the caller's pointer, length and a caller-chosen tag; the
 * entries that leave the queue are handed back so that the caller can do its ownership accounting.
 * The whole object is a plain value (no pointers into itself): struct assignment snapshots it. */
#ifndef REF_QUEUE_H
#define REF_QUEUE_H
#include <stddef.h>
#include <stdint.h>

#define RQ_MAX_CAP 64
#define RQ_CODE_OVERFLOW (-350) /* SCPI-99 21.8.11: Queue overflow */
#define RQ_CODE_NONE 0          /* SCPI-99 21.8.8: No error */

typedef struct {
    int16_t code;
    uint8_t has_text;  /* 0: no device-dependent text */
    uint8_t flags;     /* caller-defined (e.g. "text may legitimately be missing") */
    const char * text; /* caller-owned bytes, not NUL-terminated necessarily */
    size_t len;
    uint64_t tag;      /* caller-defined identity of the push */
} rq_entry_t;

typedef struct {
    int cap, count;
    rq_entry_t e[RQ_MAX_CAP]; /* e[0] oldest ... e[count-1] newest */
    uint64_t n_push, n_pop, n_overflow, n_pop_empty, n_clear;
} ref_queue_t;

/* cap in 1..RQ_MAX_CAP */
void rq_init(ref_queue_t * q, int cap);
int rq_count(const ref_queue_t * q);
int rq_is_full(const ref_queue_t * q);
/* i-th oldest entry (0 = next to be popped) or NULL */
const rq_entry_t * rq_peek(const ref_queue_t * q, int i);
/* newest entry or NULL */
const rq_entry_t * rq_newest(const ref_queue_t * q);
/* push: returns 1 if stored; 0 on overflow, then dropped[0] = the pushed entry, dropped[1] = the entry that was
 * replaced by (-350, none) and *ndropped = 2.  dropped may be NULL. */
int rq_push(ref_queue_t * q, const rq_entry_t * in, rq_entry_t dropped[2], int * ndropped);
/* pop: the oldest entry, or (0, none) when empty; returns 1 if an entry was removed */
int rq_pop(ref_queue_t * q, rq_entry_t * out);
/* clear: copies the removed entries (oldest first) to dropped[0..] if not NULL, returns their number */
int rq_clear(ref_queue_t * q, rq_entry_t * dropped);
/* number of stored entries that carry a text (has_text) and satisfy (flags & mask) == want */
int rq_texts(const ref_queue_t * q, unsigned mask, unsigned want);

/* Independent reader of a SYSTem:ERRor[:NEXT]? response (SCPI-99 21.8: <NR1>,<string>; IEEE 488.2 8.7.8 string
 * response data: double-quoted, an embedded double quote is doubled), followed by one line ending (CR LF, LF or CR)
 * and nothing else.  Writes the decoded string (doubled quotes undone, not NUL-terminated) to dst (at most cap bytes).
 * *dlen = decoded length, *rawlen = number of characters between the outer quotes as transmitted.
 * Returns 1 if well-formed and cap sufficed, 0 otherwise. */
int rq_read_error_response(const char * resp, size_t n, long * code, char * dst, size_t cap, size_t * dlen, size_t * rawlen);
/* reader of an <NR1> response followed by one line ending and nothing else */
int rq_read_nr1_response(const char * resp, size_t n, long * value);

#endif
