/* ref_match: reference matcher for the SCPI command-pattern language (property C03), see ref_match.h.
 * Written from the property statement; deliberately NOT the library's algorithm (single greedy walk with
 * bracket counting): here the pattern is parsed into slots first and the header's mnemonics are assigned
 * to slots by exhaustive backtracking. */
#include "ref_match.h"
#include <string.h>

static int rm_islower(int c) { return c >= 'a' && c <= 'z'; }
static int rm_isdigit(int c) { return c >= '0' && c <= '9'; }
static int rm_upper(int c) { return rm_islower(c) ? c - 'a' + 'A' : c; }
static int rm_special(int c) { return c == '?' || c == ':' || c == '[' || c == ']' || c == '#'; }

static int rm_add_slot(ref_pattern_t * p, const char * key, size_t klen, int optional, int suffix) {
    ref_slot_t * s;
    size_t i;
    if (p->n >= REF_MAX_SLOTS || klen == 0 || klen >= REF_MAX_KEY) return 0;
    s = &p->s[p->n];
    memset(s, 0, sizeof *s);
    for (i = 0; i < klen; i++) { s->raw[i] = key[i]; s->lng[i] = (char) rm_upper((unsigned char) key[i]); }
    s->llen = (int) klen;
    /* short form: the leading characters that are not lower case */
    for (i = 0; i < klen && !rm_islower((unsigned char) key[i]); i++) s->sht[i] = (char) rm_upper((unsigned char) key[i]);
    s->slen = (int) i;
    if (s->slen == 0) return 0; /* keyword starting in lower case has no short form: unsupported */
    s->optional = optional;
    s->suffix = suffix;
    p->n++;
    return 1;
}

int ref_parse_pattern(const char * pattern, ref_pattern_t * p) {
    size_t L, i = 0;
    int first = 1;
    memset(p, 0, sizeof *p);
    if (!pattern) return 0;
    L = strlen(pattern);
    if (L == 0) return 0;
    if (pattern[0] == '*') {
        p->common = 1;
        if (pattern[L - 1] == '?') { p->query = 1; L--; }
        if (L < 2) return 0;
        for (i = 1; i < L; i++) if (rm_special((unsigned char) pattern[i])) return 0;
        if (L >= REF_MAX_KEY) return 0;
        /* the whole "*XYZ" is the one and only mnemonic; it has a single spelling */
        for (i = 0; i < L; i++) { p->s[0].raw[i] = pattern[i]; p->s[0].lng[i] = p->s[0].sht[i] = (char) rm_upper((unsigned char) pattern[i]); }
        p->s[0].llen = p->s[0].slen = (int) L;
        p->n = 1;
        p->ok = 1;
        return 1;
    }
    if (pattern[L - 1] == '?') { p->query = 1; L--; }
    while (i < L) {
        int optional = 0, suffix = 0;
        size_t start, keyend;
        if (pattern[i] == '[') {
            optional = 1; i++;
            if (i < L && pattern[i] == ':') i++;
            else if (!first) return 0;
        } else if (pattern[i] == ':') {
            i++;
        } else if (!first) return 0;
        start = i;
        while (i < L && !rm_special((unsigned char) pattern[i])) i++;
        if (i == start) return 0;
        if (pattern[start] == '*') return 0;
        keyend = i;
        if (i < L && pattern[i] == '#') { suffix = 1; i++; }
        if (optional) { if (i < L && pattern[i] == ']') i++; else return 0; }
        if (!rm_add_slot(p, pattern + start, keyend - start, optional, suffix)) return 0;
        first = 0;
    }
    if (p->n == 0) return 0;
    p->ok = 1;
    return 1;
}

static int rm_caseeq(const char * upper_form, const char * text, size_t n) {
    size_t i;
    for (i = 0; i < n; i++) if (rm_upper((unsigned char) text[i]) != upper_form[i]) return 0;
    return 1;
}

/* does mnemonic m[0..ml) spell the keyword of slot s?  0 no, 1 yes without digits, 2 yes with digits (*val) */
static int rm_spells(const ref_slot_t * s, const char * m, size_t ml, int32_t * val) {
    int f;
    for (f = 0; f < 2; f++) {
        const char * form = f ? s->sht : s->lng;
        size_t fl = (size_t) (f ? s->slen : s->llen), i;
        if (ml < fl || !rm_caseeq(form, m, fl)) continue;
        if (ml == fl) return 1;
        if (!s->suffix) continue;
        {
            int64_t v = 0; int alldig = 1;
            for (i = fl; i < ml; i++) {
                if (!rm_isdigit((unsigned char) m[i])) { alldig = 0; break; }
                v = v * 10 + (m[i] - '0');
                if (v > 2147483647) v = 2147483647; /* beyond int32: outside the domain, saturate */
            }
            if (alldig) { if (val) *val = (int32_t) v; return 2; }
        }
    }
    return 0;
}

#define RM_MAX_PIECES 64
typedef struct {
    const ref_pattern_t * p;
    const char * piece[RM_MAX_PIECES]; size_t plen[RM_MAX_PIECES]; int np;
    int cur[REF_MAX_SLOTS];   /* slot -> piece under construction */
    int first[REF_MAX_SLOTS]; /* first accepting assignment */
    int found;
} rm_search_t;

static void rm_search(rm_search_t * S, int pi, int from) {
    int k;
    const ref_pattern_t * p = S->p;
    if (S->found >= 2) return;
    if (pi == S->np) {
        for (k = from; k < p->n; k++) if (!p->s[k].optional) return; /* a mandatory keyword is missing */
        if (S->found == 0) memcpy(S->first, S->cur, sizeof S->first);
        S->found++;
        return;
    }
    for (k = from; k < p->n; k++) {
        if (rm_spells(&p->s[k], S->piece[pi], S->plen[pi], NULL)) {
            S->cur[k] = pi;
            rm_search(S, pi + 1, k + 1);
            S->cur[k] = -1;
        }
        if (!p->s[k].optional) break; /* cannot skip a mandatory keyword */
    }
}

/* returns number of accepting assignments (capped at 2); S->first valid if >= 1 */
static int rm_run(const ref_pattern_t * p, const char * hdr, size_t len, rm_search_t * S) {
    const char * h = hdr; size_t l = len, i, start;
    int k;
    memset(S, 0, sizeof *S);
    S->p = p;
    for (k = 0; k < REF_MAX_SLOTS; k++) S->cur[k] = S->first[k] = -1;
    if (!p->ok) return 0;
    if (p->common) {
        /* exact mnemonic, no leading colon, '?' exactly when the pattern has it */
        size_t want = (size_t) p->s[0].llen + (size_t) (p->query ? 1 : 0);
        if (len != want) return 0;
        if (!rm_caseeq(p->s[0].lng, hdr, (size_t) p->s[0].llen)) return 0;
        if (p->query && hdr[len - 1] != '?') return 0;
        S->first[0] = 0; S->found = 1;
        return 1;
    }
    /* ends in '?' exactly when the pattern does */
    if (p->query) { if (l == 0 || h[l - 1] != '?') return 0; l--; }
    else if (l > 0 && h[l - 1] == '?') return 0;
    /* one optional leading colon is ignored */
    if (l > 0 && h[0] == ':') { h++; l--; }
    /* split at colons */
    start = 0;
    for (i = 0; i <= l; i++) {
        if (i == l || h[i] == ':') {
            if (S->np >= RM_MAX_PIECES || S->np >= p->n) return 0; /* more mnemonics than keywords */
            S->piece[S->np] = h + start; S->plen[S->np] = i - start; S->np++;
            start = i + 1;
        }
    }
    rm_search(S, 0, 0);
    return S->found;
}

int ref_match(const char * pattern, const char * hdr, size_t len, int32_t * numbers, size_t n, int32_t def, int * nsuffix) {
    ref_pattern_t p; rm_search_t S;
    int k, ks = 0, acc;
    ref_parse_pattern(pattern, &p);
    for (k = 0; k < p.n; k++) if (p.s[k].suffix) ks++;
    if (nsuffix) *nsuffix = p.ok ? ks : 0;
    if (!p.ok) return 0;
    acc = rm_run(&p, hdr, len, &S);
    if (acc && numbers) {
        size_t idx = 0;
        for (k = 0; k < p.n; k++) {
            if (!p.s[k].suffix) continue;
            if (idx < n) {
                int32_t v = def;
                if (S.first[k] >= 0 && !p.common) {
                    int32_t d = 0;
                    if (rm_spells(&p.s[k], S.piece[S.first[k]], S.plen[S.first[k]], &d) == 2) v = d;
                }
                numbers[idx] = v;
            }
            idx++;
        }
    }
    return acc ? 1 : 0;
}

int ref_match_explain(const char * pattern, const char * hdr, size_t len, int * state, size_t nstate, int * slot_piece) {
    ref_pattern_t p; rm_search_t S;
    int k, acc, last_present = -1;
    size_t idx = 0;
    ref_parse_pattern(pattern, &p);
    if (!p.ok) return 0;
    acc = rm_run(&p, hdr, len, &S);
    if (!acc) return 0;
    for (k = 0; k < p.n; k++) if (S.first[k] >= 0) last_present = k;
    if (slot_piece) for (k = 0; k < REF_MAX_SLOTS; k++) slot_piece[k] = k < p.n ? S.first[k] : -1;
    for (k = 0; k < p.n; k++) {
        if (!p.s[k].suffix) continue;
        if (state && idx < nstate) {
            if (S.first[k] < 0) state[idx] = k > last_present ? REF_SUF_SKIPPED_TRAILING : REF_SUF_SKIPPED_INNER;
            else if (p.common) state[idx] = REF_SUF_OMITTED;
            else state[idx] = rm_spells(&p.s[k], S.piece[S.first[k]], S.plen[S.first[k]], NULL) == 2 ? REF_SUF_DIGITS : REF_SUF_OMITTED;
        }
        idx++;
    }
    return acc;
}

/* is there a mnemonic text that spells both keywords? */
static int rm_prefix_digits(const char * longer, int ll, const char * shorter, int sl) {
    int i;
    if (ll <= sl || memcmp(longer, shorter, (size_t) sl) != 0) return 0;
    for (i = sl; i < ll; i++) if (!rm_isdigit((unsigned char) longer[i])) return 0;
    return 1;
}
static int rm_confusable(const ref_slot_t * a, const ref_slot_t * b) {
    int fa, fb;
    for (fa = 0; fa < 2; fa++) for (fb = 0; fb < 2; fb++) {
        const char * A = fa ? a->sht : a->lng; int al = fa ? a->slen : a->llen;
        const char * B = fb ? b->sht : b->lng; int bl = fb ? b->slen : b->llen;
        if (al == bl && memcmp(A, B, (size_t) al) == 0) return 1;
        if (b->suffix && rm_prefix_digits(A, al, B, bl)) return 1; /* A = B + digits: spells a plainly and b with suffix */
        if (a->suffix && rm_prefix_digits(B, bl, A, al)) return 1;
    }
    return 0;
}

int ref_pattern_unambiguous(const char * pattern) {
    ref_pattern_t p;
    int i, j;
    if (!ref_parse_pattern(pattern, &p)) return 0;
    if (p.common) return 1;
    for (i = 0; i < p.n; i++) {
        if (!p.s[i].optional) continue;
        /* keywords that may follow the position of i when i is skipped: up to and including the first mandatory one */
        for (j = i + 1; j < p.n; j++) {
            if (rm_confusable(&p.s[i], &p.s[j])) return 0;
            if (!p.s[j].optional) break;
        }
    }
    return 1;
}
