/* user configuration for the `usererr` build flavour: a user error list whose descriptions contain double quotes and reach / exceed the 255 characters a response string may hold */
#ifndef SCPI_USER_CONFIG_H
#define SCPI_USER_CONFIG_H
#define USE_USER_ERROR_LIST 1
#define LIST_OF_USER_ERRORS \
    X(SCPI_ERROR_USER_PROFILE, 101, "Profile \"default\" is missing") \
    X(SCPI_ERROR_USER_QUOTE, 102, "Expected closing \"") \
    X(SCPI_ERROR_USER_PLAIN, 103, "Plain user error") \
    X(SCPI_ERROR_USER_QUOTES, -1001, "\"\"\"") \
    X(SCPI_ERROR_USER_D253, 105, "D253 aaaaaaaaaaaaaaaaaaaaaaaaaaaaaaaaaaaaaaaaaaaaaaaaaaaaaaaaaaaaaaaaaaaaaaaaaaaaaaaaaaaaaaaaaaaaaaaaaaaaaaaaaaaaaaaaaaaaaaaaaaaaaaaaaaaaaaaaaaaaaaaaaaaaaaaaaaaaaaaaaaaaaaaaaaaaaaaaaaaaaaaaaaaaaaaaaaaaaaaaaaaaaaaaaaaaaaaaaaaaaaaaaaaaaaaaaaaaaaaaaaaaaaaa") \
    X(SCPI_ERROR_USER_D254, 106, "D254 bbbbbbbbbbbbbbbbbbbbbbbbbbbbbbbbbbbbbbbbbbbbbbbbbbbbbbbbbbbbbbbbbbbbbbbbbbbbbbbbbbbbbbbbbbbbbbbbbbbbbbbbbbbbbbbbbbbbbbbbbbbbbbbbbbbbbbbbbbbbbbbbbbbbbbbbbbbbbbbbbbbbbbbbbbbbbbbbbbbbbbbbbbbbbbbbbbbbbbbbbbbbbbbbbbbbbbbbbbbbbbbbbbbbbbbbbbbbbbbbbbbbbbbbb") \
    X(SCPI_ERROR_USER_D255, 107, "D255 cccccccccccccccccccccccccccccccccccccccccccccccccccccccccccccccccccccccccccccccccccccccccccccccccccccccccccccccccccccccccccccccccccccccccccccccccccccccccccccccccccccccccccccccccccccccccccccccccccccccccccccccccccccccccccccccccccccccccccccccccccccccccc") \
    X(SCPI_ERROR_USER_D300, 108, "An operator hint that is longer than the whole response may be: \"check the interlock\", then then then then then then then then then then then then then then then then then then then then then then then then then then then then then then then then then then then then then then then then then then then then then call service") \
    X(SCPI_ERROR_USER_LONG, 104, "A long user error description with \"quoted\" words that approaches the limit of the response string when device dependent text is attached to it: \"aaaaaaaaaaaaaaaaaaaaaaaaaaaaaaaaaaaaaaaaaaaaaaaaaaaaaaaaaaaaaaaaaaaaaaaaaaaaaaaaaaaaaaaa\"")
#endif
