/* user configuration for the `usererr` build flavour: a user error list whose descriptions contain double quotes */
#ifndef SCPI_USER_CONFIG_H
#define SCPI_USER_CONFIG_H
#define USE_USER_ERROR_LIST 1
#define LIST_OF_USER_ERRORS \
    X(SCPI_ERROR_USER_PROFILE, 101, "Profile \"default\" is missing") \
    X(SCPI_ERROR_USER_QUOTE, 102, "Expected closing \"") \
    X(SCPI_ERROR_USER_PLAIN, 103, "Plain user error") \
    X(SCPI_ERROR_USER_QUOTES, -1001, "\"\"\"") \
    X(SCPI_ERROR_USER_LONG, 104, "A long user error description with \"quoted\" words that approaches the limit of the response string when device dependent text is attached to it: \"aaaaaaaaaaaaaaaaaaaaaaaaaaaaaaaaaaaaaaaaaaaaaaaaaaaaaaaaaaaaaaaaaaaaaaaaaaaaaaaaaaaaaaaa\"")
#endif
