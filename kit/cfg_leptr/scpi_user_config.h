/* user configuration for the `leptr` build flavour: the response terminator is chosen at run time (CR LF on the serial port, LF on the LAN
 * socket), so SCPI_LINE_ENDING is a pointer expression, not a string literal - the library only ever needed a `const char *` */
#ifndef SCPI_USER_CONFIG_H
#define SCPI_USER_CONFIG_H
extern const char * vh_line_ending;
#define SCPI_LINE_ENDING vh_line_ending
#define VH_LE_POINTER 1
#endif
