/* ref_match: reference matcher for the SCPI command-pattern language, written from the statement of
 * property C03 (not from libscpi's matchCommand).  Algorithm: the pattern is expanded into keyword slots
 * {long form, short form, optional, has '#'} + query flag, the header is split at colons into mnemonics, and
 * a backtracking search enumerates the assignments of mnemonics to a subsequence of slots that contains
 * every mandatory slot.  No dependency on libscpi. */
#ifndef REF_MATCH_H
#define REF_MATCH_H
#include <stddef.h>
#include <stdint.h>

#ifdef __cplusplus
extern "C" {
#endif

/* Reference matcher for the SCPI pattern language, written from the property statement.
 * returns 1 iff header hdr[0..len) is in the language of pattern. If numbers != NULL, fills numbers[0..min(n,k))
 * (k = number of '#' keywords of the pattern, in pattern order) with the digits written after that keyword, or def
 * when the suffix was left out or the keyword was skipped. *nsuffix (if non-NULL) = k. */
int ref_match(const char * pattern, const char * hdr, size_t len, int32_t * numbers, size_t n, int32_t def, int * nsuffix);
/* 1 iff the pattern satisfies the property's precondition: no header has two different accepting assignments of
 * its mnemonics to pattern keywords ("no optional keyword can be mistaken for a keyword that may follow it") */
int ref_pattern_unambiguous(const char * pattern);
/* Implementation note for ref_pattern_unambiguous: the criterion evaluated is the literal one of the statement -
 * for every optional keyword i and every keyword j that may directly follow the position of i in a header when i is
 * skipped (the keywords after i up to and including the first mandatory one) there is no mnemonic text that spells
 * both.  This is sufficient for "no header has two different accepting assignments" (two assignments differ first at
 * a mnemonic that spells an optional keyword and one that may follow it) and slightly stronger: "[:ALPHa]:ALPHa" has
 * unique assignments but is rejected here because its optional keyword can be mistaken for the keyword after it.
 * Patterns outside the supported grammar (see ref_pattern_t) are reported as not unambiguous (0). */

/* ---- extras used by the checks' generators and diagnostics (not needed for the oracle verdict) ---- */
#define REF_MAX_SLOTS 8
#define REF_MAX_KEY 48
typedef struct {
    char lng[REF_MAX_KEY]; /* long form, upper-cased, without '#' */
    char sht[REF_MAX_KEY]; /* short form, upper-cased */
    char raw[REF_MAX_KEY]; /* keyword as written in the pattern, without '#' */
    int llen, slen;
    int optional; /* written [:KEY] */
    int suffix;   /* written KEY# */
} ref_slot_t;
typedef struct {
    int ok;     /* 1: pattern is inside the supported grammar */
    int common; /* pattern starts with '*': one slot, exact mnemonic */
    int query;  /* trailing '?' */
    int n;
    ref_slot_t s[REF_MAX_SLOTS];
} ref_pattern_t;
/* supported grammar:  [ ':' ] KEY | '[' [':'] KEY ']'   then any number of   ':' KEY | '[' ':' KEY ']'   then [ '?' ];
 * KEY = one or more characters outside "?:[]#" whose first character is not lower case, then an optional '#';
 * common patterns: '*' followed by characters outside ":[]#", optional final '?'.  Returns p->ok. */
int ref_parse_pattern(const char * pattern, ref_pattern_t * p);

/* accepting-assignment details: returns the number of distinct accepting assignments (0, 1, or 2 meaning "2 or more").
 * For the first assignment found: state[i] for the i-th '#' keyword (i < nstate): REF_SUF_* ;
 * slot_piece[j] (j < p.n, if non-NULL, room for REF_MAX_SLOTS) = index of the mnemonic assigned to slot j or -1. */
enum { REF_SUF_SKIPPED_TRAILING = 0, /* keyword skipped, no later keyword present in the header */
       REF_SUF_SKIPPED_INNER = 1,    /* keyword skipped, a later keyword is present */
       REF_SUF_OMITTED = 2,          /* keyword present, no digits */
       REF_SUF_DIGITS = 3 };         /* keyword present with digits */
int ref_match_explain(const char * pattern, const char * hdr, size_t len, int * state, size_t nstate, int * slot_piece);

#ifdef __cplusplus
}
#endif
#endif
