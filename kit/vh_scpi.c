#ifndef _GNU_SOURCE
#define _GNU_SOURCE
#endif
#include "vh_scpi.h"
#include <stdio.h>
#include <stdlib.h>
#include <string.h>
#include <errno.h>

#if VH_ASAN
#include <sanitizer/asan_interface.h>
#else
#define ASAN_POISON_MEMORY_REGION(a, s) ((void) (a), (void) (s))
#define ASAN_UNPOISON_MEMORY_REGION(a, s) ((void) (a), (void) (s))
#endif

int vh_poison_enabled = 1;

const char * const vh_reader_names[VR__N] = { "Int32", "UInt32", "Int64", "UInt64", "Float", "Double", "Bool", "Choice",
    "Number", "Characters", "CopyText", "ArbitraryBlock", "Raw", "ArrayInt32", "ArrayUInt32", "ArrayInt64", "ArrayUInt64",
    "ArrayFloat", "ArrayDouble", "Expr", "RawChoice" };

/* choice names are not header keywords: they may end in digits (CH1, TTL0) without being "keyword + numeric suffix" */
#ifdef VH_LE_POINTER
static const char vh_le_text[] = "\r\n";
const char * vh_line_ending = vh_le_text;
#endif
const scpi_choice_def_t vh_choices[] = { {"LOW", 1}, {"HIgh", 2}, {"MEDium", 3}, {"SOURce", 10}, {"CH1", 21}, {"TTL0", 22}, {"EXTernal2", 23}, {"P25V", 24}, SCPI_CHOICE_LIST_END };

/* ---- the SCPI_PARSER_VERIF hook ------------------------------------------------- */
void scpi_verif_input_buffer(scpi_t * context, int phase);
void scpi_verif_input_buffer(scpi_t * context, int phase) {
    char * d = context->buffer.data;
    size_t len = context->buffer.length, pos = context->buffer.position;
    if (!vh_poison_enabled || !d) return;
    if (phase == 0) {
        ASAN_UNPOISON_MEMORY_REGION(d, len);
    } else {
        ASAN_UNPOISON_MEMORY_REGION(d, len);
        if (pos + 1 < len) ASAN_POISON_MEMORY_REGION(d + pos + 1, len - pos - 1);
    }
}
void vh_unpoison_input(vh_ctx_t * v) { ASAN_UNPOISON_MEMORY_REGION(v->inbuf, v->inbuf_len); (void) v; }

/* ---- capture interface ----------------------------------------------------------- */
void (*vh_on_write_cb)(scpi_t * context, const char * data, size_t len);
void (*vh_on_error_cb)(scpi_t * context, int err);
void (*vh_on_flush_cb)(scpi_t * context);
static void decoy_maybe_from_write(vh_ctx_t * v);
/* the array handed to SCPI_Input is the application's: firmware with ONE line buffer re-uses it as soon as the library calls back (to collect the
 * response, to log the error). The library has copied what it needs before it calls anything. When enabled, the first callback inside an input
 * call scribbles the chunk that call was given. */
static char * cur_chunk; static size_t cur_chunk_len; static int scribble_chunks;
void vh_scribble_chunk_in_callbacks(int on) { scribble_chunks = on; }
static void chunk_scribble(void) { if (scribble_chunks && cur_chunk) { memset(cur_chunk, 0xDD, cur_chunk_len); cur_chunk = NULL; vh_count("kit.input_chunk_reused_by_a_callback", 1); } }
static size_t cb_write(scpi_t * context, const char * data, size_t len) {
    vh_ctx_t * v = VH_OF(context);
    /* another port of the instrument (another context, another task) may produce its whole answer while this write is still waiting for its
     * transport: the bytes handed over here must not live in storage that the other context's results share */
    chunk_scribble();
    decoy_maybe_from_write(v);
    vh_buf_add(&v->out, data, len);
    v->nwrite++;
    v->write_after_flush = 1;
    if (v->log_enabled && v->log_writes) { vh_buf_adds(&v->log, "W "); vh_buf_add_escaped(&v->log, data, len); vh_buf_addc(&v->log, '\n'); }
    if (vh_on_write_cb) vh_on_write_cb(context, data, len);
    return len;
}
static scpi_result_t cb_flush(scpi_t * context) {
    vh_ctx_t * v = VH_OF(context);
    v->nflush++;
    v->write_after_flush = 0;
    if (v->log_enabled) vh_buf_printf(&v->log, "F @%zu\n", v->out.len);
    if (vh_on_flush_cb) vh_on_flush_cb(context);
    return SCPI_RES_OK;
}
static int cb_error(scpi_t * context, int_fast16_t err) {
    vh_ctx_t * v = VH_OF(context);
    chunk_scribble();
    if (v->nerrs < VH_MAX_ERRS) v->errs[v->nerrs++] = (int16_t) err;
    v->nerrs_total++;
    if (v->log_enabled) vh_buf_printf(&v->log, "E %d\n", (int) err);
    if (vh_on_error_cb) vh_on_error_cb(context, (int) err);
    return 0;
}
static scpi_result_t cb_control(scpi_t * context, scpi_ctrl_name_t ctrl, scpi_reg_val_t val) {
    vh_ctx_t * v = VH_OF(context);
    if (ctrl == SCPI_CTRL_SRQ) { if (v->nsrq < 16) v->srq_vals[v->nsrq] = val; v->nsrq++; }
    if (v->log_enabled) vh_buf_printf(&v->log, "S %d %u\n", (int) ctrl, (unsigned) val);
    return SCPI_RES_OK;
}
static scpi_result_t cb_reset(scpi_t * context) {
    vh_ctx_t * v = VH_OF(context);
    v->nreset++;
    if (v->log_enabled) vh_buf_adds(&v->log, "R\n");
    return SCPI_RES_OK;
}

vh_ctx_t * vh_ctx_new(const scpi_command_t * cmds, size_t inbuf_len, int queue_len, size_t heap_len) {
    vh_ctx_t * v = (vh_ctx_t *) calloc(1, sizeof *v);
    v->ctx = (scpi_t *) malloc(sizeof(scpi_t));
    memset(v->ctx, 0xA5, sizeof(scpi_t)); /* the application's memory is not zeroed: whatever SCPI_Init does not set is garbage */
    v->inbuf_len = inbuf_len; v->inbuf = (char *) malloc(inbuf_len);
    memset(v->inbuf, 0xEE, inbuf_len);
    v->queue_len = queue_len; v->queue = (scpi_error_t *) malloc(sizeof(scpi_error_t) * (size_t) queue_len);
    memset(v->queue, 0xEE, sizeof(scpi_error_t) * (size_t) queue_len);
    v->iface.error = cb_error; v->iface.write = cb_write; v->iface.control = cb_control; v->iface.flush = cb_flush; v->iface.reset = cb_reset;
    SCPI_Init(v->ctx, cmds, &v->iface, scpi_units_def, "VERIF", "HARNESS", NULL, "01-02", v->inbuf, inbuf_len, v->queue, (int16_t) queue_len);
#if VH_INFO_HEAP
    v->heap_len = heap_len ? heap_len : 64;
    v->heap = (char *) malloc(v->heap_len);
    memset(v->heap, 0xEE, v->heap_len);
    SCPI_InitHeap(v->ctx, v->heap, v->heap_len);
#else
    (void) heap_len;
#endif
    v->ctx->user_context = v; v->cmds = cmds;
    v->log_enabled = 1; v->log_writes = 0;
    return v;
}

void vh_ctx_reinit(vh_ctx_t * v) {
    const scpi_unit_def_t * units = v->ctx->units;
    SCPI_ErrorClear(v->ctx);
    ASAN_UNPOISON_MEMORY_REGION(v->inbuf, v->inbuf_len);
    memset(v->ctx, 0xA5, sizeof(scpi_t)); memset(v->inbuf, 0xEE, v->inbuf_len); memset(v->queue, 0xEE, sizeof(scpi_error_t) * (size_t) v->queue_len);
    SCPI_Init(v->ctx, v->cmds, &v->iface, units, "VERIF", "HARNESS", NULL, "01-02", v->inbuf, v->inbuf_len, v->queue, (int16_t) v->queue_len);
#if VH_INFO_HEAP
    memset(v->heap, 0xEE, v->heap_len);
    SCPI_InitHeap(v->ctx, v->heap, v->heap_len);
#endif
    v->ctx->user_context = v;
}

void vh_device_clear(vh_ctx_t * v) { v->ctx->buffer.position = 0; }
void vh_swap_input_buffer(vh_ctx_t * v, size_t new_len) {
    char * nb = (char *) malloc(new_len);
    memset(nb, 0xEE, new_len);
    ASAN_UNPOISON_MEMORY_REGION(v->inbuf, v->inbuf_len);
    free(v->inbuf);
    v->inbuf = nb; v->inbuf_len = new_len;
    v->ctx->buffer.data = nb; v->ctx->buffer.length = new_len; v->ctx->buffer.position = 0;
}

void vh_ctx_clear_capture(vh_ctx_t * v) {
    vh_buf_reset(&v->out); vh_buf_reset(&v->log);
    v->nflush = v->nreset = v->nwrite = v->nsrq = 0; v->nerrs = 0; v->nerrs_total = 0; v->ninv = 0; v->write_after_flush = 0;
}

void vh_ctx_free(vh_ctx_t * v) {
    if (!v) return;
    SCPI_ErrorClear(v->ctx); /* releases stored texts */
    ASAN_UNPOISON_MEMORY_REGION(v->inbuf, v->inbuf_len);
    free(v->inbuf); free(v->queue); free(v->heap); free(v->ctx);
    vh_buf_free(&v->out); vh_buf_free(&v->log);
    free(v);
}

/* ---- decoy: a second, unrelated context of the same process ----------------------------------------------------------
 * Every piece of library state lives in a scpi_t (or in the caller's buffers); nothing may be shared between two contexts.
 * A check that enables the decoy gets, on every n-th input call and on every n-th handler entry, one fixed message run on a
 * private context with its own command table, unit table, buffers and queue. The decoy's own behaviour is fixed and is
 * checked; any file-scope or function-static state in the library shows either there or in the check's own oracle. */
static vh_ctx_t * decoy; static unsigned decoy_every, decoy_tick, decoy_busy; static uint64_t decoy_runs;
static int decoy_log_n; static char decoy_log[160];
static scpi_result_t decoy_num(scpi_t * c) {
    scpi_number_t n; int32_t nums[2] = { -1, -1 }; char t[40]; size_t k;
    SCPI_CommandNumbers(c, nums, 2, 9);
    if (!SCPI_ParamNumber(c, scpi_special_numbers_def, &n, TRUE)) return SCPI_RES_ERR;
    k = SCPI_NumberToStr(c, scpi_special_numbers_def, &n, t, sizeof t);
    decoy_log_n += snprintf(decoy_log + decoy_log_n, sizeof decoy_log - (size_t) decoy_log_n, "[%ld,%ld|%.*s]", (long) nums[0], (long) nums[1], (int) k, t);
    return SCPI_RES_OK;
}
static scpi_result_t decoy_list(scpi_t * c) {
    scpi_parameter_t p; scpi_bool_t rg; int32_t f, t; int i;
    if (!SCPI_Parameter(c, &p, TRUE)) return SCPI_RES_ERR;
    for (i = 0; i < 4; i++) {
        scpi_expr_result_t r = SCPI_ExprNumericListEntryInt(c, &p, i, &rg, &f, &t);
        if (r != SCPI_EXPR_OK) { decoy_log_n += snprintf(decoy_log + decoy_log_n, sizeof decoy_log - (size_t) decoy_log_n, "<%d>", (int) r); break; }
        if (rg) decoy_log_n += snprintf(decoy_log + decoy_log_n, sizeof decoy_log - (size_t) decoy_log_n, "(%ld:%ld)", (long) f, (long) t);
        else decoy_log_n += snprintf(decoy_log + decoy_log_n, sizeof decoy_log - (size_t) decoy_log_n, "(%ld)", (long) f);
    }
    return SCPI_RES_OK;
}
static scpi_result_t decoy_q(scpi_t * c) { SCPI_ResultInt32(c, 15); SCPI_ResultText(c, "m\"q"); SCPI_ResultArbitraryBlock(c, "ab", 2); return SCPI_RES_OK; }
static const scpi_command_t decoy_cmds[] = { { "DECoy#:NUMber#", decoy_num, 3 }, { "DECoy:LIST", decoy_list, 4 }, { "DECoy:Q?", decoy_q, 5 }, { "SYSTem:ERRor[:NEXT]?", SCPI_SystemErrorNextQ, 0 }, SCPI_CMD_LIST_END };
static const scpi_unit_def_t decoy_units[] = { { "FOO", SCPI_UNIT_VOLT, 3 }, { "V", SCPI_UNIT_SECOND, 10 }, SCPI_UNITS_LIST_END };
uint64_t vh_decoy_runs(void) { return decoy_runs; }
/* What the decoy answers is not this facility's business (other checks decide the text of an error or the spelling of a number): the
 * reference is what the same message produced on the same context when nothing else was going on - taken once, before the first case. */
static char decoy_ref_log[sizeof decoy_log]; static char * decoy_ref_out; static size_t decoy_ref_len; static unsigned decoy_ref_flush; static int decoy_calibrated;
static void decoy_exec(void) {
    static const char msg[] = "DEC7:NUM3 2 V;:DEC:LIST (5,1:2);Q?;:DEC:NOPE;:SYST:ERR?\n";
    if (!decoy) { decoy = vh_ctx_new(decoy_cmds, 96, 3, 80); decoy->ctx->units = decoy_units; decoy->log_enabled = 0; }
    vh_ctx_clear_capture(decoy); decoy_log_n = 0; decoy_log[0] = 0;
    { char * copy = (char *) malloc(sizeof msg - 1); memcpy(copy, msg, sizeof msg - 1); SCPI_Input(decoy->ctx, copy, (int) (sizeof msg - 1)); free(copy); }
}
void vh_decoy_enable(unsigned every) {
    decoy_every = every;
    if (every && !decoy_calibrated) {
        decoy_busy = 1; decoy_exec();
        memcpy(decoy_ref_log, decoy_log, sizeof decoy_log); decoy_ref_len = decoy->out.len; decoy_ref_out = (char *) malloc(decoy_ref_len + 1); memcpy(decoy_ref_out, decoy->out.p ? decoy->out.p : "", decoy_ref_len); decoy_ref_out[decoy_ref_len] = 0;
        decoy_ref_flush = decoy->nflush; SCPI_ErrorClear(decoy->ctx); decoy_calibrated = 1; decoy_busy = 0;
    }
}
static void decoy_run(void) {
    if (decoy_busy) return;
    decoy_busy = 1;
    decoy_exec();
    decoy_runs++; vh_count("decoy.messages_run_on_a_second_context", 1);
    if (strcmp(decoy_log, decoy_ref_log) != 0 || decoy->out.len != decoy_ref_len || memcmp(decoy->out.p ? decoy->out.p : "", decoy_ref_out, decoy_ref_len) != 0 || decoy->nflush != decoy_ref_flush || SCPI_ErrorCount(decoy->ctx) != 0) {
        char key[64]; snprintf(key, sizeof key, "%s:second-context-disturbed", vh_args.property);
        vh_violation(key, "a second context of the same process, running its own fixed message between the calls of this case, decoded [%s] and wrote \"%s\" (%u flushes, %d errors left); alone, before the first case, it decoded [%s] and wrote \"%s\" (%u flushes)",
                     decoy_log, vh_esc(decoy->out.p ? decoy->out.p : "", decoy->out.len), decoy->nflush, (int) SCPI_ErrorCount(decoy->ctx), decoy_ref_log, vh_esc(decoy_ref_out, decoy_ref_len), decoy_ref_flush);
        SCPI_ErrorClear(decoy->ctx);
    }
    decoy_busy = 0;
}
static void decoy_maybe(void);
static void decoy_maybe_from_write(vh_ctx_t * v) { if (v != decoy) decoy_maybe(); }
static void decoy_maybe(void) { if (decoy_every && !decoy_busy && (++decoy_tick % decoy_every) == 0) { int e = errno; decoy_run(); errno = e; } }

scpi_bool_t vh_input(vh_ctx_t * v, const void * data, size_t len) {
    /* hand the library an exact-size copy so that over-reads of the caller's chunk trap */
    scpi_bool_t r;
    /* errno is process state the application may leave in any condition (an earlier overflowing strtol/strtod of its own):
     * the library's behaviour must not depend on it */
    if (!decoy || v != decoy) decoy_maybe();
    { static unsigned turn; static const int vals[4] = { 0, ERANGE, 0, EDOM }; errno = vals[turn++ & 3]; }
    if (len == 0) return SCPI_Input(v->ctx, NULL, 0);
    {
        char * copy = (char *) malloc(len);
        memcpy(copy, data, len);
        if (!decoy || v != decoy) { cur_chunk = copy; cur_chunk_len = len; }
        r = SCPI_Input(v->ctx, copy, (int) len);
        if (cur_chunk == copy) cur_chunk = NULL;
        free(copy);
    }
    return r;
}

/* One complete message (its last `termlen` bytes are the terminator) delivered in a way chosen by `how`: 0 as it is; 1 its terminator removed and a zero-length
 * (flush) call instead; 2 like 1, but the message travels in ONE input call behind an empty line - the library executes the empty line, moves
 * the unterminated rest to the front of its buffer and only the flush call ends it: what lies behind the last byte of the message is then
 * whatever the buffer held, not a terminator. An empty line and a flush produce no event of their own, so all three must behave alike. */
scpi_bool_t vh_deliver(vh_ctx_t * v, const void * data, size_t len, size_t termlen, int how) {
    const char * d = (const char *) data; scpi_bool_t r;
    if (how == 0 || len == 0) return vh_input(v, data, len);
    len -= termlen < len ? termlen : len; /* the caller says how long the terminator is: data may itself end in CR or LF (a block, a string) */
    if (how == 1 || len + 3 > v->ctx->buffer.length) { if (len) vh_input(v, d, len); return vh_input(v, NULL, 0); }
    {
        char * t = (char *) malloc(len + 2); size_t k = 0;
        if (len & 1) t[k++] = '\r';
        t[k++] = '\n'; memcpy(t + k, d, len);
        vh_input(v, t, k + len); free(t);
    }
    r = vh_input(v, NULL, 0);
    return r;
}

void vh_drain_errors(vh_ctx_t * v, vh_buf_t * into) {
    int guard = 0;
    while (SCPI_ErrorCount(v->ctx) > 0 && guard++ < 100000) {
        scpi_error_t e;
        SCPI_ErrorPop(v->ctx, &e);
        vh_buf_printf(into, "%d", (int) e.error_code);
#if VH_HAS_INFO
        if (e.device_dependent_info) {
#if VH_INFO_HEAP
            const char * s2; size_t l1, l2;
            vh_buf_addc(into, ':');
            if (scpiheap_get_parts(&v->ctx->error_info_heap, e.device_dependent_info, &l1, &s2, &l2)) {
                vh_buf_add_escaped(into, e.device_dependent_info, l1);
                if (s2) vh_buf_add_escaped(into, s2, l2);
            }
            scpiheap_free(&v->ctx->error_info_heap, e.device_dependent_info, false);
#else
            vh_buf_addc(into, ':');
            vh_buf_add_escaped(into, e.device_dependent_info, strlen(e.device_dependent_info));
            free(e.device_dependent_info);
#endif
        }
#endif
        vh_buf_addc(into, ';');
    }
}

/* ---- instrumented handler ------------------------------------------------------------ */
#define CELL(T, name) T * name = (T *) malloc(sizeof(T)); memset(name, 0xA5, sizeof(T))

static void log_raw(vh_ctx_t * v, vh_stepres_t * r, scpi_t * context, const char * ptr, size_t len) {
    size_t n = len < sizeof r->raw ? len : sizeof r->raw;
    r->rawlen = (int) n; r->fullrawlen = (int) len;
    if (ptr && n) memcpy(r->raw, ptr, n);
    /* offset of the raw extent inside the unit's program data (the header may live elsewhere: a library is free to compose the effective header
     * outside the message - benign change C02-J); -1 for a pointer that is not inside the program data at all */
    { const char * base = context->param_list.lex_state.buffer; int n = context->param_list.lex_state.len;
      r->rawoff = (ptr && base && ptr >= base && ptr <= base + (n > 0 ? n : 0)) ? (long) (ptr - base) : -1; }
    if (v->log_enabled) { vh_buf_printf(&v->log, " off=%ld len=%zu \"", r->rawoff, len); if (ptr) vh_buf_add_escaped(&v->log, ptr, len); vh_buf_addc(&v->log, '"'); }
}

#if VH_LIB_C89
/* The library was compiled as C90: its scpi_bool_t is an unsigned char, and a C90 application passes any non-zero value as "true"
 * (flags & MASK). The harness itself is C99 (its scpi_bool_t is _Bool, which would normalise to 1), so in this flavour the readers are
 * called through an unprototyped pointer with the truth value as an int: the library sees 1, 2, 0x10, 0x80 or 0xFF in turn. */
typedef unsigned char (*vh_c90_fn)();
#define VH_TRUTHY(m) ((m) ? (int) vh_truthy() : 0)
static int vh_truthy(void) { static unsigned k; static const int t[5] = { 1, 2, 0x10, 0x80, 0xFF }; return t[k++ % 5]; }
#define SCPI_ParamArbitraryBlock(...) (((vh_c90_fn) SCPI_ParamArbitraryBlock)(__VA_ARGS__))
#define SCPI_ParamBool(...) (((vh_c90_fn) SCPI_ParamBool)(__VA_ARGS__))
#define SCPI_ParamCharacters(...) (((vh_c90_fn) SCPI_ParamCharacters)(__VA_ARGS__))
#define SCPI_ParamChoice(...) (((vh_c90_fn) SCPI_ParamChoice)(__VA_ARGS__))
#define SCPI_ParamCopyText(...) (((vh_c90_fn) SCPI_ParamCopyText)(__VA_ARGS__))
#define SCPI_ParamDouble(...) (((vh_c90_fn) SCPI_ParamDouble)(__VA_ARGS__))
#define SCPI_ParamFloat(...) (((vh_c90_fn) SCPI_ParamFloat)(__VA_ARGS__))
#define SCPI_ParamInt32(...) (((vh_c90_fn) SCPI_ParamInt32)(__VA_ARGS__))
#define SCPI_ParamInt64(...) (((vh_c90_fn) SCPI_ParamInt64)(__VA_ARGS__))
#define SCPI_ParamNumber(...) (((vh_c90_fn) SCPI_ParamNumber)(__VA_ARGS__))
#define SCPI_ParamUInt32(...) (((vh_c90_fn) SCPI_ParamUInt32)(__VA_ARGS__))
#define SCPI_ParamUInt64(...) (((vh_c90_fn) SCPI_ParamUInt64)(__VA_ARGS__))
#define SCPI_Parameter(...) (((vh_c90_fn) SCPI_Parameter)(__VA_ARGS__))
#define SCPI_ParamArrayInt32(...) (((vh_c90_fn) SCPI_ParamArrayInt32)(__VA_ARGS__))
#define SCPI_ParamArrayUInt32(...) (((vh_c90_fn) SCPI_ParamArrayUInt32)(__VA_ARGS__))
#define SCPI_ParamArrayInt64(...) (((vh_c90_fn) SCPI_ParamArrayInt64)(__VA_ARGS__))
#define SCPI_ParamArrayUInt64(...) (((vh_c90_fn) SCPI_ParamArrayUInt64)(__VA_ARGS__))
#define SCPI_ParamArrayFloat(...) (((vh_c90_fn) SCPI_ParamArrayFloat)(__VA_ARGS__))
#define SCPI_ParamArrayDouble(...) (((vh_c90_fn) SCPI_ParamArrayDouble)(__VA_ARGS__))
#else
#define VH_TRUTHY(m) ((m) ? TRUE : FALSE)
#endif
static int run_step(scpi_t * context, vh_ctx_t * v, const vh_step_t * st, vh_stepres_t * r, int si) {
    scpi_bool_t ok = FALSE;
    int mand = VH_TRUTHY(st->mandatory);
    memset(r, 0, sizeof *r);
    r->kind = st->kind;
    r->errs_before = (int) v->nerrs_total;
    if (v->log_enabled) vh_buf_printf(&v->log, "P%d %s%s", si, vh_reader_names[st->kind], mand ? "" : "?");
    switch (st->kind) {
        case VR_INT32: { CELL(int32_t, c); ok = SCPI_ParamInt32(context, c, mand); if (ok) { r->i = *c; r->u = (uint32_t) *c; } if (v->log_enabled) vh_buf_printf(&v->log, " ok=%d v=%ld", ok, ok ? (long) *c : 0L); free(c); break; }
        case VR_UINT32: { CELL(uint32_t, c); ok = SCPI_ParamUInt32(context, c, mand); if (ok) { r->u = *c; r->i = (int32_t) *c; } if (v->log_enabled) vh_buf_printf(&v->log, " ok=%d v=%lu", ok, ok ? (unsigned long) *c : 0UL); free(c); break; }
        case VR_INT64: { CELL(int64_t, c); ok = SCPI_ParamInt64(context, c, mand); if (ok) { r->i = *c; r->u = (uint64_t) *c; } if (v->log_enabled) vh_buf_printf(&v->log, " ok=%d v=%lld", ok, ok ? (long long) *c : 0LL); free(c); break; }
        case VR_UINT64: { CELL(uint64_t, c); ok = SCPI_ParamUInt64(context, c, mand); if (ok) { r->u = *c; r->i = (int64_t) *c; } if (v->log_enabled) vh_buf_printf(&v->log, " ok=%d v=%llu", ok, ok ? (unsigned long long) *c : 0ULL); free(c); break; }
        case VR_FLOAT: { CELL(float, c); ok = SCPI_ParamFloat(context, c, mand); if (ok) { r->f = *c; r->d = *c; } if (v->log_enabled) { uint32_t b = 0; if (ok) memcpy(&b, c, 4); vh_buf_printf(&v->log, " ok=%d bits=%08x", ok, b); } free(c); break; }
        case VR_DOUBLE: { CELL(double, c); ok = SCPI_ParamDouble(context, c, mand); if (ok) r->d = *c; if (v->log_enabled) { uint64_t b = 0; if (ok) memcpy(&b, c, 8); vh_buf_printf(&v->log, " ok=%d bits=%016llx", ok, (unsigned long long) b); } free(c); break; }
        case VR_BOOL: { CELL(scpi_bool_t, c); ok = SCPI_ParamBool(context, c, mand); if (ok) r->i = *c ? 1 : 0; if (v->log_enabled) vh_buf_printf(&v->log, " ok=%d v=%d", ok, ok ? (int) r->i : 0); free(c); break; }
        case VR_CHOICE: { CELL(int32_t, c); ok = SCPI_ParamChoice(context, vh_choices, c, mand); if (ok) { r->i = *c; r->tag = *c; } if (v->log_enabled) vh_buf_printf(&v->log, " ok=%d v=%ld", ok, ok ? (long) *c : 0L); free(c); break; }
        case VR_NUMBER: {
            CELL(scpi_number_t, c);
            ok = SCPI_ParamNumber(context, scpi_special_numbers_def, c, mand);
            if (ok) {
                r->special = c->special ? 1 : 0; r->unit = (int) c->unit; r->base = c->base;
                if (c->special) r->tag = c->content.tag; else r->d = c->content.value;
                if (v->log_enabled) {
                    uint64_t b = 0; if (!c->special) memcpy(&b, &c->content.value, 8);
                    vh_buf_printf(&v->log, " ok=1 special=%d tag=%d unit=%d base=%d bits=%016llx", r->special, r->special ? r->tag : 0, r->unit, r->base, (unsigned long long) b);
                }
                /* exercise the formatter with a tight buffer as well */
                { size_t L = 1 + (size_t) (st->cap % 24); char * s = (char *) malloc(L); size_t n = SCPI_NumberToStr(context, scpi_special_numbers_def, c, s, L); if (v->log_enabled) { vh_buf_adds(&v->log, " str="); vh_buf_add_escaped(&v->log, s, n < L ? n : L); } free(s); }
            } else if (v->log_enabled) vh_buf_adds(&v->log, " ok=0");
            free(c); break;
        }
        case VR_CHARS: {
            const char ** p = (const char **) malloc(sizeof(char *)); size_t * l = (size_t *) malloc(sizeof(size_t));
            *p = NULL; *l = 0;
            ok = SCPI_ParamCharacters(context, p, l, mand);
            if (v->log_enabled) vh_buf_printf(&v->log, " ok=%d", ok);
            if (ok) log_raw(v, r, context, *p, *l);
            free(p); free(l); break;
        }
        case VR_BLOCK: {
            const char ** p = (const char **) malloc(sizeof(char *)); size_t * l = (size_t *) malloc(sizeof(size_t));
            *p = NULL; *l = 0;
            ok = SCPI_ParamArbitraryBlock(context, p, l, mand);
            if (v->log_enabled) vh_buf_printf(&v->log, " ok=%d", ok);
            if (ok) log_raw(v, r, context, *p, *l);
            free(p); free(l); break;
        }
        case VR_COPYTEXT: {
            size_t L = st->cap; char * b = (char *) malloc(L ? L : 1); size_t * l = (size_t *) malloc(sizeof(size_t));
            *l = 0; memset(b, 0xA5, L ? L : 1);
            ok = SCPI_ParamCopyText(context, b, L, l, mand);
            if (v->log_enabled) vh_buf_printf(&v->log, " ok=%d", ok);
            if (ok) { r->count = *l; size_t n = *l < L ? *l : L; size_t m = n < sizeof r->raw ? n : sizeof r->raw; memcpy(r->raw, b, m); r->rawlen = (int) m; r->fullrawlen = (int) n; if (v->log_enabled) { vh_buf_printf(&v->log, " n=%zu \"", *l); vh_buf_add_escaped(&v->log, b, n); vh_buf_addc(&v->log, '"'); } }
            free(b); free(l); break;
        }
        case VR_RAW: case VR_RAW_CHOICE: {
            scpi_parameter_t * p = (scpi_parameter_t *) malloc(sizeof *p);
            memset(p, 0xA5, sizeof *p);
            ok = SCPI_Parameter(context, p, mand);
            r->type = (int) p->type;
            if (v->log_enabled) vh_buf_printf(&v->log, " ok=%d type=%d valid=%d", ok, (int) p->type, (int) SCPI_ParamIsValid(p));
            if (ok) {
                int32_t i32 = 0; uint32_t u32 = 0; int64_t i64 = 0; uint64_t u64 = 0; float f = 0; double d = 0; int32_t ch = 0;
                scpi_bool_t b1, b2, b3, b4, b5, b6;
                int eb = (int) v->nerrs_total;
                log_raw(v, r, context, p->ptr, (size_t) (p->len > 0 ? p->len : 0));
                b1 = SCPI_ParamToInt32(context, p, &i32); b2 = SCPI_ParamToUInt32(context, p, &u32);
                b3 = SCPI_ParamToInt64(context, p, &i64); b4 = SCPI_ParamToUInt64(context, p, &u64);
                b5 = SCPI_ParamToFloat(context, p, &f); b6 = SCPI_ParamToDouble(context, p, &d);
                r->i = i64; r->u = u64; r->d = d; r->f = f; r->to_mask = (b1 ? 1 : 0) | (b2 ? 2 : 0) | (b3 ? 4 : 0) | (b4 ? 8 : 0) | (b5 ? 16 : 0) | (b6 ? 32 : 0);
                if (v->log_enabled) {
                    uint64_t db = 0; uint32_t fb = 0; memcpy(&db, &d, 8); memcpy(&fb, &f, 4);
                    vh_buf_printf(&v->log, " to=%d%d%d%d%d%d %ld %lu %lld %llu %08x %016llx isnum=%d%d", b1, b2, b3, b4, b5, b6, b1 ? (long) i32 : 0L, b2 ? (unsigned long) u32 : 0UL,
                                  b3 ? (long long) i64 : 0LL, b4 ? (unsigned long long) u64 : 0ULL, b5 ? fb : 0u, b6 ? (unsigned long long) db : 0ULL,
                                  (int) SCPI_ParamIsNumber(p, FALSE), (int) SCPI_ParamIsNumber(p, TRUE));
                }
                if (st->kind == VR_RAW_CHOICE) { scpi_bool_t bc = SCPI_ParamToChoice(context, p, vh_choices, &ch); if (v->log_enabled) vh_buf_printf(&v->log, " choice=%d:%ld", bc, bc ? (long) ch : 0L); }
                (void) eb;
            }
            free(p); break;
        }
        case VR_EXPR: {
            scpi_parameter_t * p = (scpi_parameter_t *) malloc(sizeof *p);
            memset(p, 0xA5, sizeof *p);
            ok = SCPI_Parameter(context, p, mand);
            if (v->log_enabled) vh_buf_printf(&v->log, " ok=%d type=%d", ok, (int) p->type);
            if (ok) {
                int idx; size_t cap = st->cap % 5;
                log_raw(v, r, context, p->ptr, (size_t) (p->len > 0 ? p->len : 0));
                for (idx = 0; idx < 4; idx++) {
                    scpi_bool_t rng = FALSE; int32_t a = 0, b = 0; double da = 0, db = 0; scpi_expr_result_t e1, e2, e3;
                    int32_t * vf = (int32_t *) malloc(sizeof(int32_t) * (cap ? cap : 1)), * vt = (int32_t *) malloc(sizeof(int32_t) * (cap ? cap : 1));
                    size_t dims = 0, k;
                    memset(vf, 0, sizeof(int32_t) * (cap ? cap : 1)); memset(vt, 0, sizeof(int32_t) * (cap ? cap : 1));
                    e1 = SCPI_ExprNumericListEntryInt(context, p, idx, &rng, &a, &b);
                    if (v->log_enabled) vh_buf_printf(&v->log, " n%d=%d/%d/%ld/%ld", idx, (int) e1, e1 == SCPI_EXPR_OK ? (int) rng : 0, e1 == SCPI_EXPR_OK ? (long) a : 0L, (e1 == SCPI_EXPR_OK && rng) ? (long) b : 0L);
                    rng = FALSE;
                    e2 = SCPI_ExprNumericListEntryDouble(context, p, idx, &rng, &da, &db);
                    if (v->log_enabled) vh_buf_printf(&v->log, " d%d=%d/%a", idx, (int) e2, e2 == SCPI_EXPR_OK ? da : 0.0);
                    rng = FALSE;
                    e3 = SCPI_ExprChannelListEntry(context, p, idx, &rng, vf, vt, cap, &dims);
                    if (v->log_enabled) { vh_buf_printf(&v->log, " c%d=%d/%d/%zu", idx, (int) e3, e3 == SCPI_EXPR_OK ? (int) rng : 0, e3 == SCPI_EXPR_OK ? dims : (size_t) 0);
                        if (e3 == SCPI_EXPR_OK) for (k = 0; k < cap && k < dims; k++) vh_buf_printf(&v->log, ":%ld-%ld", (long) vf[k], rng ? (long) vt[k] : 0L); }
                    free(vf); free(vt);
                }
            }
            free(p); break;
        }
        case VR_ARR_INT32: case VR_ARR_UINT32: case VR_ARR_INT64: case VR_ARR_UINT64: case VR_ARR_FLOAT: case VR_ARR_DOUBLE: {
            size_t cap = st->cap, k; size_t * oc = (size_t *) malloc(sizeof(size_t));
            size_t esz = (st->kind == VR_ARR_INT32 || st->kind == VR_ARR_UINT32 || st->kind == VR_ARR_FLOAT) ? 4 : 8;
            void * arr = malloc(cap ? cap * esz : 1);
            memset(arr, 0xA5, cap ? cap * esz : 1); *oc = 0;
            switch (st->kind) {
                case VR_ARR_INT32: ok = SCPI_ParamArrayInt32(context, (int32_t *) arr, cap, oc, SCPI_FORMAT_ASCII, mand); break;
                case VR_ARR_UINT32: ok = SCPI_ParamArrayUInt32(context, (uint32_t *) arr, cap, oc, SCPI_FORMAT_ASCII, mand); break;
                case VR_ARR_INT64: ok = SCPI_ParamArrayInt64(context, (int64_t *) arr, cap, oc, SCPI_FORMAT_ASCII, mand); break;
                case VR_ARR_UINT64: ok = SCPI_ParamArrayUInt64(context, (uint64_t *) arr, cap, oc, SCPI_FORMAT_ASCII, mand); break;
                case VR_ARR_FLOAT: ok = SCPI_ParamArrayFloat(context, (float *) arr, cap, oc, SCPI_FORMAT_ASCII, mand); break;
                default: ok = SCPI_ParamArrayDouble(context, (double *) arr, cap, oc, SCPI_FORMAT_ASCII, mand); break;
            }
            r->count = *oc;
            if (v->log_enabled) {
                vh_buf_printf(&v->log, " ok=%d n=%zu", ok, *oc);
                for (k = 0; k < *oc && k < cap; k++) { uint64_t b = 0; memcpy(&b, (char *) arr + k * esz, esz); vh_buf_printf(&v->log, " %llx", (unsigned long long) b); }
            }
            if (*oc > 0 && cap > 0) { uint64_t b = 0; memcpy(&b, arr, esz); r->u = b; }
            free(arr); free(oc); break;
        }
        default: break;
    }
    r->ok = ok ? 1 : 0;
    r->errs_after = (int) v->nerrs_total;
    if (v->log_enabled) vh_buf_addc(&v->log, '\n');
    return ok ? 1 : 0;
}

static void run_out(scpi_t * context, const vh_out_t * o) {
    switch (o->kind) {
        case VO_INT32: SCPI_ResultInt32(context, (int32_t) o->u); break;
        case VO_UINT32: SCPI_ResultUInt32Base(context, (uint32_t) o->u, o->base); break;
        case VO_INT64: SCPI_ResultInt64(context, (int64_t) o->u); break;
        case VO_UINT64: SCPI_ResultUInt64Base(context, o->u, o->base); break;
        case VO_INT8: SCPI_ResultInt8(context, (int8_t) o->u); break;
        case VO_UINT8: SCPI_ResultUInt8Base(context, (uint8_t) o->u, o->base); break;
        case VO_INT16: SCPI_ResultInt16(context, (int16_t) o->u); break;
        case VO_UINT16: SCPI_ResultUInt16Base(context, (uint16_t) o->u, o->base); break;
        case VO_FLOAT: SCPI_ResultFloat(context, (float) o->d); break;
        case VO_DOUBLE: SCPI_ResultDouble(context, o->d); break;
        case VO_BOOL: SCPI_ResultBool(context, o->u ? TRUE : FALSE); break;
        case VO_TEXT: SCPI_ResultText(context, o->data); break;
        case VO_MNEM: SCPI_ResultCharacters(context, o->data, o->len); break;
        case VO_BLOCK: { void * c = malloc(o->len ? o->len : 1); if (o->len) memcpy(c, o->data, o->len); SCPI_ResultArbitraryBlock(context, c, o->len); free(c); break; }
        case VO_BLOCK_STREAM: {
            size_t done = 0; int k;
            SCPI_ResultArbitraryBlockHeader(context, (size_t) ((long) o->len + o->announce_delta));
            for (k = 0; k < 3 && done < o->len; k++) {
                size_t n = o->split[k]; if (n > o->len - done) n = o->len - done;
                { void * c = malloc(n ? n : 1); if (n) memcpy(c, o->data + done, n); SCPI_ResultArbitraryBlockData(context, c, n); free(c); }
                done += n;
            }
            if (done < o->len) { size_t n = o->len - done; void * c = malloc(n); memcpy(c, o->data + done, n); SCPI_ResultArbitraryBlockData(context, c, n); free(c); }
            else if (o->len == 0 && o->announce_delta == 0) { void * c = malloc(1); SCPI_ResultArbitraryBlockData(context, c, 0); free(c); } /* an empty block is completed by an empty data call */
            break;
        }
        case VO_BLOCK_DATA_ONLY: { void * c = malloc(o->len ? o->len : 1); if (o->len) memcpy(c, o->data, o->len); SCPI_ResultArbitraryBlockData(context, c, o->len); free(c); break; }
        case VO_ARR_INT32: { size_t n = o->len / 4; void * c = malloc(o->len ? o->len : 1); if (o->len) memcpy(c, o->data, o->len); SCPI_ResultArrayInt32(context, (const int32_t *) c, n, (scpi_array_format_t) o->fmt); free(c); break; }
        case VO_ARR_UINT16: { size_t n = o->len / 2; void * c = malloc(o->len ? o->len : 1); if (o->len) memcpy(c, o->data, o->len); SCPI_ResultArrayUInt16(context, (const uint16_t *) c, n, (scpi_array_format_t) o->fmt); free(c); break; }
        case VO_ARR_DOUBLE: { size_t n = o->len / 8; void * c = malloc(o->len ? o->len : 1); if (o->len) memcpy(c, o->data, o->len); SCPI_ResultArrayDouble(context, (const double *) c, n, (scpi_array_format_t) o->fmt); free(c); break; }
        default: break;
    }
}

void (*vh_nested_hook)(scpi_t * context, int stage);

scpi_result_t vh_handler(scpi_t * context) {
    vh_ctx_t * v = VH_OF(context);
    int tag = (int) SCPI_CmdTag(context);
    const vh_sig_t * sig = (tag >= 1 && tag <= v->nsigs) ? &v->sigs[tag - 1] : NULL;
    vh_inv_t * inv = v->ninv < VH_MAX_INV ? &v->inv[v->ninv] : NULL;
    int i, limit;
    scpi_result_t ret = SCPI_RES_OK;
    v->ninv++;
    if (inv) {
        size_t n = context->param_list.cmd_raw.length;
        memset(inv, 0, sizeof *inv);
        inv->tag = tag;
        if (n > sizeof inv->hdr) n = sizeof inv->hdr;
        memcpy(inv->hdr, context->param_list.cmd_raw.data, n); inv->hdrlen = (int) context->param_list.cmd_raw.length;
    }
    if (v->log_enabled) { vh_buf_printf(&v->log, "H tag=%d hdr=", tag); vh_buf_add_escaped(&v->log, context->param_list.cmd_raw.data, context->param_list.cmd_raw.length); vh_buf_addc(&v->log, '\n'); }
    if (!sig) return SCPI_RES_OK;
    chunk_scribble();
    if (vh_nested_hook) vh_nested_hook(context, 0);
    decoy_maybe();
    if (sig->want_numbers) {
        size_t n = sig->want_numbers, k; int32_t * nums = (int32_t *) malloc(sizeof(int32_t) * n);
        scpi_bool_t ok;
        for (k = 0; k < n; k++) nums[k] = -77;
        ok = SCPI_CommandNumbers(context, nums, n, -7);
        if (inv) { inv->numbers_ok = ok; for (k = 0; k < n && k < 8; k++) inv->numbers[k] = nums[k]; }
        if (v->log_enabled) { vh_buf_printf(&v->log, "N ok=%d", ok); for (k = 0; k < n; k++) vh_buf_printf(&v->log, " %ld", (long) nums[k]); vh_buf_addc(&v->log, '\n'); }
        free(nums);
    }
    for (i = 0; i < sig->nsteps; i++) {
        vh_stepres_t tmp, * r = inv ? &inv->res[i] : &tmp;
        int ok = run_step(context, v, &sig->steps[i], r, i);
        if (inv) inv->nsteps_done = i + 1;
        if (!ok) {
            /* an absent optional parameter is not a failure; anything else ends the handler */
            if (!sig->steps[i].mandatory && r->errs_after == r->errs_before) continue;
            if (inv) inv->returned = SCPI_RES_ERR;
            if (v->log_enabled) vh_buf_adds(&v->log, "X ERR(step)\n");
            return SCPI_RES_ERR;
        }
    }
    if (vh_nested_hook) vh_nested_hook(context, 1);
    decoy_maybe();
    limit = sig->nouts;
    if (sig->verdict != VV_OK && sig->fail_after < limit) limit = sig->fail_after;
    for (i = 0; i < limit; i++) { run_out(context, &sig->outs[i]); if (inv) inv->nouts_done = i + 1; }
    switch (sig->verdict) {
        case VV_ERR: ret = SCPI_RES_ERR; break;
        case VV_OWNERR_ERR: SCPI_ErrorPush(context, sig->own_err); ret = SCPI_RES_ERR; break;
        case VV_OWNERR_OK: SCPI_ErrorPush(context, sig->own_err); ret = SCPI_RES_OK; break;
        default: break;
    }
    if (inv) inv->returned = ret;
    if (v->log_enabled) vh_buf_printf(&v->log, "X %s\n", ret == SCPI_RES_OK ? "OK" : "ERR");
    return ret;
}
