/* ref_queue: see ref_queue.h.  Shifting array, no ring indices. */
#include "ref_queue.h"
#include <string.h>

static const rq_entry_t rq_none = { RQ_CODE_NONE, 0, 0, NULL, 0, 0 };

void rq_init(ref_queue_t * q, int cap) {
    memset(q, 0, sizeof *q);
    if (cap < 1) cap = 1;
    if (cap > RQ_MAX_CAP) cap = RQ_MAX_CAP;
    q->cap = cap;
}

int rq_count(const ref_queue_t * q) { return q->count; }
int rq_is_full(const ref_queue_t * q) { return q->count >= q->cap; }

const rq_entry_t * rq_peek(const ref_queue_t * q, int i) {
    return (i >= 0 && i < q->count) ? &q->e[i] : NULL;
}
const rq_entry_t * rq_newest(const ref_queue_t * q) {
    return q->count ? &q->e[q->count - 1] : NULL;
}

int rq_push(ref_queue_t * q, const rq_entry_t * in, rq_entry_t dropped[2], int * ndropped) {
    q->n_push++;
    if (ndropped) *ndropped = 0;
    if (q->count < q->cap) {
        q->e[q->count++] = *in;
        return 1;
    }
    /* full: the pushed entry is lost, the newest stored one becomes the overflow marker */
    q->n_overflow++;
    if (dropped) { dropped[0] = *in; dropped[1] = q->e[q->count - 1]; }
    if (ndropped) *ndropped = 2;
    q->e[q->count - 1] = rq_none;
    q->e[q->count - 1].code = RQ_CODE_OVERFLOW;
    return 0;
}

int rq_pop(ref_queue_t * q, rq_entry_t * out) {
    int i;
    q->n_pop++;
    if (q->count == 0) {
        q->n_pop_empty++;
        if (out) *out = rq_none;
        return 0;
    }
    if (out) *out = q->e[0];
    for (i = 1; i < q->count; i++) q->e[i - 1] = q->e[i];
    q->count--;
    return 1;
}

int rq_clear(ref_queue_t * q, rq_entry_t * dropped) {
    int i, n = q->count;
    q->n_clear++;
    if (dropped) for (i = 0; i < n; i++) dropped[i] = q->e[i];
    q->count = 0;
    return n;
}

int rq_texts(const ref_queue_t * q, unsigned mask, unsigned want) {
    int i, n = 0;
    for (i = 0; i < q->count; i++) if (q->e[i].has_text && (q->e[i].flags & mask) == want) n++;
    return n;
}
