/* ref_queue: see ref_queue.h.  Shifting array, no ring indices. */
#include "ref_queue.h"
#include <string.h>

static const rq_entry_t rq_none = { RQ_CODE_NONE, 0, 0, NULL, 0, 0 };

void rq_init(ref_queue_t * q, int cap) {
    memset(q, 0, sizeof *q);
    if (cap < 1) cap = 1;
    if (cap > RQ_MAX_CAP) cap = RQ_MAX_CAP;
    q->cap = cap;
}

int rq_count(const ref_queue_t * q) { return q->count; }
int rq_is_full(const ref_queue_t * q) { return q->count >= q->cap; }

const rq_entry_t * rq_peek(const ref_queue_t * q, int i) {
    return (i >= 0 && i < q->count) ? &q->e[i] : NULL;
}
const rq_entry_t * rq_newest(const ref_queue_t * q) {
    return q->count ? &q->e[q->count - 1] : NULL;
}

int rq_push(ref_queue_t * q, const rq_entry_t * in, rq_entry_t dropped[2], int * ndropped) {
    q->n_push++;
    if (ndropped) *ndropped = 0;
    if (q->count < q->cap) {
        q->e[q->count++] = *in;
        return 1;
    }
    /* full: the pushed entry is lost, the newest stored one becomes the overflow marker */
    q->n_overflow++;
    if (dropped) { dropped[0] = *in; dropped[1] = q->e[q->count - 1]; }
    if (ndropped) *ndropped = 2;
    q->e[q->count - 1] = rq_none;
    q->e[q->count - 1].code = RQ_CODE_OVERFLOW;
    return 0;
}

int rq_pop(ref_queue_t * q, rq_entry_t * out) {
    int i;
    q->n_pop++;
    if (q->count == 0) {
        q->n_pop_empty++;
        if (out) *out = rq_none;
        return 0;
    }
    if (out) *out = q->e[0];
    for (i = 1; i < q->count; i++) q->e[i - 1] = q->e[i];
    q->count--;
    return 1;
}

int rq_clear(ref_queue_t * q, rq_entry_t * dropped) {
    int i, n = q->count;
    q->n_clear++;
    if (dropped) for (i = 0; i < n; i++) dropped[i] = q->e[i];
    q->count = 0;
    return n;
}

int rq_texts(const ref_queue_t * q, unsigned mask, unsigned want) {
    int i, n = 0;
    for (i = 0; i < q->count; i++) if (q->e[i].has_text && (q->e[i].flags & mask) == want) n++;
    return n;
}

/* ---- response readers -------------------------------------------------------------------------------- */
static size_t read_nr1(const char * s, size_t n, long * val) {
    size_t i = 0; int neg = 0; long v = 0; size_t digits = 0;
    if (i < n && (s[i] == '-' || s[i] == '+')) { neg = s[i] == '-'; i++; }
    while (i < n && s[i] >= '0' && s[i] <= '9' && digits < 12) { v = v * 10 + (s[i] - '0'); i++; digits++; }
    if (!digits) return 0;
    *val = neg ? -v : v;
    return i;
}
static int is_line_end(const char * s, size_t n) {
    return (n == 2 && s[0] == '\r' && s[1] == '\n') || (n == 1 && (s[0] == '\n' || s[0] == '\r'));
}

int rq_read_nr1_response(const char * resp, size_t n, long * value) {
    size_t i = read_nr1(resp, n, value);
    if (!i) return 0;
    return is_line_end(resp + i, n - i);
}

int rq_read_error_response(const char * resp, size_t n, long * code, char * dst, size_t cap, size_t * dlen, size_t * rawlen) {
    size_t i = read_nr1(resp, n, code), d = 0, raw = 0;
    if (!i) return 0;
    if (i >= n || resp[i] != ',') return 0;
    i++;
    if (i >= n || resp[i] != '"') return 0;
    i++;
    for (;;) {
        if (i >= n) return 0;                 /* unterminated */
        if (resp[i] == '"') {
            if (i + 1 < n && resp[i + 1] == '"') { /* doubled quote = one quote character */
                if (d >= cap) return 0;
                dst[d++] = '"'; i += 2; raw += 2;
                continue;
            }
            i++;                              /* closing quote */
            break;
        }
        if (d >= cap) return 0;
        dst[d++] = resp[i++]; raw++;
    }
    *dlen = d; *rawlen = raw;
    return is_line_end(resp + i, n - i);
}
