/* vh_scpi: libscpi context factory with exact-size heap buffers, capture interface,
 * instrumented table-driven handlers, implementation of the SCPI_PARSER_VERIF hook. */
#ifndef VH_SCPI_H
#define VH_SCPI_H
#include "vh.h"
#include "scpi/scpi.h"
#include "utils_private.h"
#include "lexer_private.h"
#include "parser_private.h"
#include "fifo_private.h"

#ifdef __cplusplus
extern "C" {
#endif

#ifndef USE_DEVICE_DEPENDENT_ERROR_INFORMATION
#error config
#endif
#define VH_HAS_INFO (USE_DEVICE_DEPENDENT_ERROR_INFORMATION)
#define VH_INFO_HEAP (USE_DEVICE_DEPENDENT_ERROR_INFORMATION && !USE_MEMORY_ALLOCATION_FREE)

/* reader kinds */
enum { VR_INT32, VR_UINT32, VR_INT64, VR_UINT64, VR_FLOAT, VR_DOUBLE, VR_BOOL, VR_CHOICE, VR_NUMBER,
       VR_CHARS, VR_COPYTEXT, VR_BLOCK, VR_RAW, VR_ARR_INT32, VR_ARR_UINT32, VR_ARR_INT64, VR_ARR_UINT64,
       VR_ARR_FLOAT, VR_ARR_DOUBLE, VR_EXPR, VR_RAW_CHOICE /* RAW + SCPI_ParamToChoice (may queue -224/-104) */, VR__N };
extern const char * const vh_reader_names[VR__N];
typedef struct { uint8_t kind, mandatory; uint16_t cap; } vh_step_t;

/* result kinds */
enum { VO_INT32, VO_UINT32, VO_INT64, VO_UINT64, VO_FLOAT, VO_DOUBLE, VO_BOOL, VO_TEXT, VO_MNEM, VO_BLOCK,
       VO_BLOCK_STREAM, VO_INT8, VO_UINT8, VO_INT16, VO_UINT16, VO_ARR_INT32, VO_ARR_DOUBLE, VO_ARR_UINT16, VO_BLOCK_DATA_ONLY /* data call without a header: must be refused */, VO__N };
typedef struct {
    uint8_t kind; int8_t base; uint8_t fmt;
    uint64_t u; double d;
    const char * data; size_t len; /* text (NUL-terminated) / block / mnemonic / array bytes */
    uint16_t split[3];             /* BLOCK_STREAM: sizes of the first data calls, rest in the last */
    int16_t announce_delta;        /* BLOCK_STREAM: header length = len + delta (unfinished / over-length) */
} vh_out_t;

enum { VV_OK, VV_ERR, VV_OWNERR_ERR, VV_OWNERR_OK };
#define VH_MAX_STEPS 6
#define VH_MAX_OUTS 6
typedef struct {
    int nsteps; vh_step_t steps[VH_MAX_STEPS];
    int nouts; vh_out_t outs[VH_MAX_OUTS];
    uint8_t verdict;
    uint8_t fail_after;  /* for non-OK verdicts: number of result items emitted before failing */
    int16_t own_err;
    uint8_t want_numbers; /* call SCPI_CommandNumbers with this many cells (0 = not) */
} vh_sig_t;

/* structured record of one reader step */
typedef struct {
    uint8_t kind, ok, present; /* present: SCPI_Parameter-level success where observable */
    int64_t i; uint64_t u; double d; float f;
    int type;                 /* token type for RAW */
    int to_mask;              /* RAW: bit k set = the k-th of SCPI_ParamToInt32/UInt32/Int64/UInt64/Float/Double returned TRUE on the token */
    char raw[64]; int rawlen; /* first bytes of the raw extent (CHARS/BLOCK/RAW/COPYTEXT result) */
    long rawoff;              /* offset of raw extent from the start of the unit's program data */
    int fullrawlen;
    int unit, special, base, tag;
    size_t count;             /* arrays / copy_len */
    int errs_before, errs_after;
} vh_stepres_t;

typedef struct {
    int tag; char hdr[96]; int hdrlen;
    int nsteps_done; vh_stepres_t res[VH_MAX_STEPS];
    int nouts_done; int returned;
    int32_t numbers[8]; int numbers_ok;
} vh_inv_t;

#define VH_MAX_INV 24
#define VH_MAX_ERRS 96
typedef struct vh_ctx {
    scpi_t * ctx;
    scpi_interface_t iface;
    char * inbuf; size_t inbuf_len;
    scpi_error_t * queue; int queue_len;
    char * heap; size_t heap_len;
    vh_buf_t out;  /* bytes written since last vh_ctx_clear_capture */
    vh_buf_t log;  /* text event log */
    int log_enabled, log_writes;
    unsigned nflush, nreset, nwrite, nsrq;
    int write_after_flush; /* a write happened after the last flush */
    int16_t errs[VH_MAX_ERRS]; int nerrs; unsigned nerrs_total;
    uint16_t srq_vals[16];
    const vh_sig_t * sigs; int nsigs; /* indexed by command tag - 1 */
    vh_inv_t inv[VH_MAX_INV]; int ninv;
    void * user;
    const scpi_command_t * cmds; const scpi_unit_def_t * units;
} vh_ctx_t;

vh_ctx_t * vh_ctx_new(const scpi_command_t * cmds, size_t inbuf_len, int queue_len, size_t heap_len);
/* the application initialises the SAME context object and buffers again (instrument reset, interface re-opened): queued texts are released
 * first, the memory is scribbled, then SCPI_Init / SCPI_InitHeap run as in vh_ctx_new. Afterwards the context must behave like a new one. */
void vh_ctx_reinit(vh_ctx_t * v);
/* IEEE 488.2 device clear / client disconnected in mid-message: the application discards the pending input. The library has no call for it
 * (a zero-length input call would EXECUTE the partial message), the public member is assigned: context->buffer.position = 0 */
void vh_device_clear(vh_ctx_t * v);
/* the application gives the context another input buffer at run time (other interface, bigger buffer): data, length, position are assigned */
void vh_swap_input_buffer(vh_ctx_t * v, size_t new_len);
void vh_ctx_free(vh_ctx_t * v);      /* drains the error queue first (releases texts) */
void vh_ctx_clear_capture(vh_ctx_t * v);
#define VH_OF(context) ((vh_ctx_t *) (context)->user_context)

/* which formatter / converter the LIBRARY was compiled with (the harness itself is always C99: in the c89 flavour the library's own
 * feature tests came out differently from the ones the harness sees in the headers) */
#ifndef VH_LIB_C89
#define VH_LIB_C89 0
#endif
#ifndef VH_FLAVOUR_DEFAULT
#define VH_FLAVOUR_DEFAULT 0
#endif
#define VH_LIB_DTOSTRE (USE_CUSTOM_DTOSTRE || VH_LIB_C89)   /* SCPI_dtostre instead of snprintf %g */
#define VH_LIB_NO_STRTOF VH_LIB_C89                          /* decimal -> float goes through strtod (library's documented fallback) */

scpi_result_t vh_handler(scpi_t * context);
/* called by vh_handler on entry (stage 0) and between the last parameter and the first result (stage 1): lets a check do what an
 * application may do inside a callback, e.g. run the parser of ANOTHER context (all library state is per context) */
extern void (*vh_nested_hook)(scpi_t * context, int stage);
/* called from inside the write / error callbacks of the capture interface: what an application does there (e.g. report a transport
 * problem with SCPI_ErrorPushEx while the library is in the middle of a response) */
extern void (*vh_on_write_cb)(scpi_t * context, const char * data, size_t len);
extern void (*vh_on_error_cb)(scpi_t * context, int err);
extern void (*vh_on_flush_cb)(scpi_t * context); /* generic instrumented handler */
/* second, unrelated context run on every n-th input call / handler entry (0 = off); see vh_scpi.c */
void vh_decoy_enable(unsigned every);
/* the first callback inside an input call overwrites the chunk that call was given (an application with one line buffer) */
void vh_scribble_chunk_in_callbacks(int on);
uint64_t vh_decoy_runs(void);
extern const scpi_choice_def_t vh_choices[];

/* feed helpers */
scpi_bool_t vh_input(vh_ctx_t * v, const void * data, size_t len);
scpi_bool_t vh_deliver(vh_ctx_t * v, const void * data, size_t len, size_t termlen, int how); /* how: 0 as is, 1 terminator replaced by a flush call, 2 behind an empty line in one call, then flush */
void vh_unpoison_input(vh_ctx_t * v);
extern int vh_poison_enabled;

/* drain error queue into buffer as "code[:text];" */
void vh_drain_errors(vh_ctx_t * v, vh_buf_t * into);

#ifdef __cplusplus
}
#endif
#endif
