#ifndef _GNU_SOURCE
#define _GNU_SOURCE
#endif
#include "vh.h"
#include <stdio.h>
#include <stdlib.h>
#include <string.h>
#include <signal.h>
#include <sys/time.h>
#include <unistd.h>
#include <fcntl.h>
#include <errno.h>
#include <time.h>

vh_args_t vh_args;
volatile uint64_t vh_sub;

/* ------------------------------------------------------------------ PRNG */
static uint64_t splitmix(uint64_t * x) {
    uint64_t z = (*x += 0x9e3779b97f4a7c15ULL);
    z = (z ^ (z >> 30)) * 0xbf58476d1ce4e5b9ULL;
    z = (z ^ (z >> 27)) * 0x94d049bb133111ebULL;
    return z ^ (z >> 31);
}
void vh_rng_seed(vh_rng_t * r, uint64_t seed, uint64_t stream, uint64_t idx) {
    uint64_t x = seed * 0x9e3779b97f4a7c15ULL ^ (stream + 1) * 0xd1342543de82ef95ULL ^ (idx + 1) * 0xa0761d6478bd642fULL;
    int i;
    for (i = 0; i < 4; i++) r->s[i] = splitmix(&x);
}
static inline uint64_t rotl(uint64_t x, int k) { return (x << k) | (x >> (64 - k)); }
uint64_t vh_rand(vh_rng_t * r) {
    uint64_t * s = r->s;
    uint64_t result = rotl(s[1] * 5, 7) * 9, t = s[1] << 17;
    s[2] ^= s[0]; s[3] ^= s[1]; s[1] ^= s[2]; s[0] ^= s[3]; s[2] ^= t; s[3] = rotl(s[3], 45);
    return result;
}
uint32_t vh_below(vh_rng_t * r, uint32_t n) {
    if (n <= 1) return 0;
    return (uint32_t) (((vh_rand(r) >> 32) * (uint64_t) n) >> 32);
}
int vh_chance(vh_rng_t * r, uint32_t num, uint32_t den) { return vh_below(r, den) < num; }
double vh_unit(vh_rng_t * r) { return (double) (vh_rand(r) >> 11) * (1.0 / 9007199254740992.0); }

/* --------------------------------------------------------------- hashing */
uint64_t vh_hash(const void * data, size_t len, uint64_t h) {
    const unsigned char * p = (const unsigned char *) data;
    size_t i;
    for (i = 0; i < len; i++) { h ^= p[i]; h *= 0x100000001b3ULL; }
    h ^= len; h *= 0x100000001b3ULL;
    return h;
}
uint64_t vh_hash_u64(uint64_t v, uint64_t h) {
    h ^= v; h *= 0x9e3779b97f4a7c15ULL; h ^= h >> 29; h *= 0xbf58476d1ce4e5b9ULL; h ^= h >> 32;
    return h;
}

/* ---------------------------------------------------------------- buffers */
void vh_buf_reset(vh_buf_t * b) { b->len = 0; }
void vh_buf_free(vh_buf_t * b) { free(b->p); b->p = NULL; b->len = b->cap = 0; }
static void buf_need(vh_buf_t * b, size_t add) {
    if (b->len + add + 1 > b->cap) {
        size_t nc = b->cap ? b->cap * 2 : 256;
        while (nc < b->len + add + 1) nc *= 2;
        b->p = (char *) realloc(b->p, nc);
        if (!b->p) { fprintf(stderr, "vh: out of memory\n"); _exit(2); }
        b->cap = nc;
    }
}
void vh_buf_add(vh_buf_t * b, const void * data, size_t len) { buf_need(b, len); if (len) memcpy(b->p + b->len, data, len); b->len += len; }
void vh_buf_addc(vh_buf_t * b, int c) { buf_need(b, 1); b->p[b->len++] = (char) c; }
void vh_buf_adds(vh_buf_t * b, const char * s) { vh_buf_add(b, s, strlen(s)); }
void vh_buf_printf(vh_buf_t * b, const char * fmt, ...) {
    va_list ap; int n;
    va_start(ap, fmt); n = vsnprintf(NULL, 0, fmt, ap); va_end(ap);
    if (n < 0) return;
    buf_need(b, (size_t) n + 1);
    va_start(ap, fmt); vsnprintf(b->p + b->len, (size_t) n + 1, fmt, ap); va_end(ap);
    b->len += (size_t) n;
}
const char * vh_buf_cstr(vh_buf_t * b) { buf_need(b, 1); b->p[b->len] = 0; return b->p; }
void vh_buf_add_escaped(vh_buf_t * b, const void * data, size_t len) {
    const unsigned char * p = (const unsigned char *) data; size_t i;
    for (i = 0; i < len; i++) {
        unsigned c = p[i];
        if (c == '\\') vh_buf_adds(b, "\\\\");
        else if (c == '\n') vh_buf_adds(b, "\\n");
        else if (c == '\r') vh_buf_adds(b, "\\r");
        else if (c == '\t') vh_buf_adds(b, "\\t");
        else if (c >= 0x20 && c < 0x7f) vh_buf_addc(b, (int) c);
        else vh_buf_printf(b, "\\x%02X", c);
    }
}
const char * vh_esc(const void * data, size_t len) {
    static vh_buf_t ring[8]; static int k;
    vh_buf_t * b = &ring[k++ & 7];
    vh_buf_reset(b);
    if (len > 600) { vh_buf_add_escaped(b, data, 300); vh_buf_printf(b, "...(%zu bytes)...", len); vh_buf_add_escaped(b, (const char *) data + len - 100, 100); }
    else vh_buf_add_escaped(b, data, len);
    return vh_buf_cstr(b);
}

/* ------------------------------------------------------------ observations */
#define MAX_COUNTERS 512
static struct { char name[112]; uint64_t v; int required; } counters[MAX_COUNTERS];
static int ncounters;
static uint64_t evals;
static uint64_t nviol;
#define MAX_VIOL_LINES 40
static char * viol_lines[MAX_VIOL_LINES]; static int nviol_lines;
#define MAX_SAMPLES 6
static char * samples[MAX_SAMPLES]; static int nsamples; static uint64_t sample_seen;
static int cur_phase; static uint64_t cur_idx;
static const vh_phase_t * g_phases; static int g_nphases;
static char case_desc[2048];
static int out_fd = -1;

static int counter_slot(const char * name_in) {
    int i; char name[112];
    snprintf(name, sizeof name, "%s", name_in); /* same truncation as the stored copy */
    for (i = 0; i < ncounters; i++) if (strcmp(counters[i].name, name) == 0) return i;
    if (ncounters >= MAX_COUNTERS) { fprintf(stderr, "vh: too many counters\n"); _exit(2); }
    snprintf(counters[ncounters].name, sizeof counters[ncounters].name, "%s", name);
    counters[ncounters].v = 0; counters[ncounters].required = 0;
    return ncounters++;
}
void vh_eval(uint64_t n) { evals += n; }
void vh_count(const char * name, uint64_t add) { counters[counter_slot(name)].v += add; }
uint64_t vh_counter_get(const char * name) { return counters[counter_slot(name)].v; }
void vh_require(const char * name) { counters[counter_slot(name)].required = 1; }

/* distinct set: open addressing, capped */
static uint64_t * dset; static size_t dcap, dcount; static int dcapped; static size_t dmax = (size_t) 1 << 21;
static void dset_grow(void) {
    size_t ncap = dcap ? dcap * 2 : 4096, i;
    uint64_t * n = (uint64_t *) calloc(ncap, sizeof(uint64_t));
    if (!n) { dcapped = 1; return; }
    for (i = 0; i < dcap; i++) if (dset[i]) {
        size_t j = (size_t) (dset[i] * 0x9e3779b97f4a7c15ULL >> 20) & (ncap - 1);
        while (n[j]) j = (j + 1) & (ncap - 1);
        n[j] = dset[i];
    }
    free(dset); dset = n; dcap = ncap;
}
int vh_distinct(uint64_t h) {
    size_t j;
    if (h == 0) h = 1;
    if (dcount * 2 >= dcap) {
        if (dcount >= dmax) { dcapped = 1; }
        else dset_grow();
    }
    if (dcapped && dcount * 2 >= dcap) {
        /* full: only look up */
        j = (size_t) (h * 0x9e3779b97f4a7c15ULL >> 20) & (dcap - 1);
        while (dset[j]) { if (dset[j] == h) return 0; j = (j + 1) & (dcap - 1); }
        return 0;
    }
    j = (size_t) (h * 0x9e3779b97f4a7c15ULL >> 20) & (dcap - 1);
    while (dset[j]) { if (dset[j] == h) return 0; j = (j + 1) & (dcap - 1); }
    dset[j] = h; dcount++;
    return 1;
}

int vh_want_sample(void) {
    /* first few, then sparse reservoir-like replacement */
    sample_seen++;
    if (nsamples < MAX_SAMPLES) return 1;
    return (sample_seen & (sample_seen - 1)) == 0; /* powers of two */
}
void vh_sample(const char * fmt, ...) {
    va_list ap; char * s = NULL; int n;
    va_start(ap, fmt); n = vasprintf(&s, fmt, ap); va_end(ap);
    if (n < 0 || !s) return;
    if (n > 1500) { s[1500] = 0; }
    if (nsamples < MAX_SAMPLES) samples[nsamples++] = s;
    else { int k = (int) (sample_seen % MAX_SAMPLES); free(samples[k]); samples[k] = s; }
}

void vh_case_desc(const char * fmt, ...) {
    va_list ap;
    va_start(ap, fmt); vsnprintf(case_desc, sizeof case_desc, fmt, ap); va_end(ap);
}

static void one_line(char * s) { for (; *s; s++) if (*s == '\n' || *s == '\r') *s = ' '; }

void vh_violation(const char * key, const char * fmt, ...) {
    va_list ap; char * msg = NULL, * line = NULL; int i;
    nviol++;
    /* keep one line per key (first witness) plus a count */
    for (i = 0; i < nviol_lines; i++) {
        const char * k = strstr(viol_lines[i], " key=");
        if (k) { k += 5; size_t kl = strcspn(k, " "); if (kl == strlen(key) && strncmp(k, key, kl) == 0) { char cn[112]; snprintf(cn, sizeof cn, "viol:%s", key); vh_count(cn, 1); return; } }
    }
    if (nviol_lines >= MAX_VIOL_LINES) return;
    va_start(ap, fmt); if (vasprintf(&msg, fmt, ap) < 0) msg = NULL; va_end(ap);
    if (!msg) return;
    one_line(msg);
    if (asprintf(&line, "violation phase=%d idx=%llu sub=%llu key=%s :: %s", cur_phase, (unsigned long long) cur_idx, (unsigned long long) vh_sub, key, msg) >= 0) {
        viol_lines[nviol_lines++] = line;
        fprintf(stderr, "[%s shard %d] %s\n", vh_args.property, vh_args.shard, line);
    }
    { char cn[112]; snprintf(cn, sizeof cn, "viol:%s", key); vh_count(cn, 1); }
    free(msg);
}
uint64_t vh_violations(void) { return nviol; }

/* A case's own budget is CPU time of the process (ITIMER_PROF -> SIGPROF): a library that loops burns CPU, a machine that is busy with other
 * work does not count against the case. A generous wall-clock alarm stays as a backstop (its firing alone is not a verdict, see the driver). */
static int cpu_timer_armed; static long case_budget = 150; /* seconds of CPU time per case; the driver lowers it (VERIF_CASE_BUDGET) once the tree under test has been seen to hang */
void vh_watchdog(unsigned seconds) {
    if (seconds && (long) seconds > case_budget && case_budget < 30) seconds = (unsigned) case_budget; /* lowered by the driver: applies to self-armed budgets too */
    struct itimerval it; memset(&it, 0, sizeof it); it.it_value.tv_sec = (time_t) seconds;
    setitimer(ITIMER_PROF, &it, NULL); cpu_timer_armed = seconds != 0;
    alarm(seconds ? seconds * 20u + 120u : 0);
}

/* ---------------------------------------------------------------- output */
static void dump_results(int fd, int complete) {
    int i;
    dprintf(fd, "meta property=%s tier=%s seed=%llu shard=%d nshards=%d config=%s\n", vh_args.property,
            vh_args.thorough ? "thorough" : "quick", (unsigned long long) vh_args.seed, vh_args.shard, vh_args.nshards,
            vh_args.config ? vh_args.config : "-");
    dprintf(fd, "evals %llu\n", (unsigned long long) evals);
    dprintf(fd, "distinct %llu capped=%d\n", (unsigned long long) dcount, dcapped);
    for (i = 0; i < ncounters; i++) dprintf(fd, "counter %s %llu%s\n", counters[i].name, (unsigned long long) counters[i].v, counters[i].required ? " required" : "");
    for (i = 0; i < nsamples; i++) { one_line(samples[i]); dprintf(fd, "sample %s\n", samples[i]); }
    for (i = 0; i < nviol_lines; i++) dprintf(fd, "%s\n", viol_lines[i]);
    dprintf(fd, "violations %llu\n", (unsigned long long) nviol);
    if (complete) dprintf(fd, "done\n");
}

static void write_hashes(void) {
    char path[1024]; FILE * f; size_t i;
    if (!vh_args.out_path) return;
    snprintf(path, sizeof path, "%s.hashes", vh_args.out_path);
    f = fopen(path, "wb");
    if (!f) return;
    for (i = 0; i < dcap; i++) if (dset[i]) fwrite(&dset[i], 8, 1, f);
    fclose(f);
}

static volatile sig_atomic_t in_crash;
static void crash_handler(int sig) {
    if (in_crash) _exit(72);
    in_crash = 1;
    if (out_fd >= 0) {
        one_line(case_desc);
        dprintf(out_fd, "crash phase=%d idx=%llu sub=%llu signal=%d :: %s\n", cur_phase, (unsigned long long) cur_idx,
                (unsigned long long) vh_sub, sig, case_desc);
        dump_results(out_fd, 0);
    }
    write_hashes();
    _exit(71);
}

/* called by ASan just before it prints its report: make sure the case is on record even if
 * the runtime is configured to _exit instead of abort */
void __asan_on_error(void);
void __asan_on_error(void) {
    if (out_fd >= 0 && !in_crash) {
        one_line(case_desc);
        dprintf(out_fd, "sanitizer phase=%d idx=%llu sub=%llu :: %s\n", cur_phase, (unsigned long long) cur_idx, (unsigned long long) vh_sub, case_desc);
    }
}

static uint64_t parse_u64(const char * s) { return strtoull(s, NULL, 0); }

static double env_scale(void) {
    const char * s = getenv("VERIF_SCALE");
    double v = s ? atof(s) : 1.0;
    return v > 0 ? v : 1.0;
}
uint64_t vh_scaled(uint64_t n);
uint64_t vh_scaled(uint64_t n) {
    double v = (double) n * vh_args.scale;
    if (v < 1) v = 1;
    return (uint64_t) v;
}

int vh_main(int argc, char ** argv, const char * property, const vh_phase_t * phases, int nphases) {
    int i, p;
    struct sigaction sa;
    memset(&vh_args, 0, sizeof vh_args);
    vh_args.property = property; vh_args.seed = 1; vh_args.nshards = 1; vh_args.resume_phase = -1; vh_args.scale = env_scale();
    for (i = 1; i < argc; i++) {
        if (!strcmp(argv[i], "--tier") && i + 1 < argc) vh_args.thorough = !strcmp(argv[++i], "thorough");
        else if (!strcmp(argv[i], "--seed") && i + 1 < argc) vh_args.seed = parse_u64(argv[++i]);
        else if (!strcmp(argv[i], "--shard") && i + 1 < argc) vh_args.shard = atoi(argv[++i]);
        else if (!strcmp(argv[i], "--nshards") && i + 1 < argc) vh_args.nshards = atoi(argv[++i]);
        else if (!strcmp(argv[i], "--out") && i + 1 < argc) vh_args.out_path = argv[++i];
        else if (!strcmp(argv[i], "--config") && i + 1 < argc) vh_args.config = argv[++i];
        else if (!strcmp(argv[i], "--resume") && i + 2 < argc) { vh_args.resume_phase = atoi(argv[++i]); vh_args.resume_idx = parse_u64(argv[++i]); }
        else if (!strcmp(argv[i], "--replay") && i + 2 < argc) { vh_args.replay = 1; vh_args.replay_phase = atoi(argv[++i]); vh_args.replay_idx = parse_u64(argv[++i]); }
        else if (!strcmp(argv[i], "--dmax") && i + 1 < argc) dmax = (size_t) parse_u64(argv[++i]);
        else { fprintf(stderr, "vh: unknown argument %s\n", argv[i]); return 2; }
    }
    if (vh_args.nshards < 1) vh_args.nshards = 1;
    g_phases = phases; g_nphases = nphases;
    if (vh_args.out_path) {
        out_fd = open(vh_args.out_path, O_WRONLY | O_CREAT | O_TRUNC, 0644);
        if (out_fd < 0) { fprintf(stderr, "vh: cannot open %s: %s\n", vh_args.out_path, strerror(errno)); return 2; }
    } else out_fd = dup(1);

    memset(&sa, 0, sizeof sa);
    sa.sa_handler = crash_handler;
    /* default CPU budget of a case: the longest case of any check's quick tier takes under one second of CPU time (measured with
     * VERIF_MEASURE_CASES; the checks with longer cases - C10, C11/C12 breadth-first slices, uptime phases - arm their own budget) */
    case_budget = vh_args.thorough ? 150 : 30;
    { const char * b = getenv("VERIF_CASE_BUDGET"); if (b && atol(b) >= 5 && atol(b) < case_budget) case_budget = atol(b); }
    sigemptyset(&sa.sa_mask);
    sigaction(SIGABRT, &sa, NULL);
    sigaction(SIGALRM, &sa, NULL);
    sigaction(SIGPROF, &sa, NULL);
#if !VH_ASAN
    sigaction(SIGSEGV, &sa, NULL);
    sigaction(SIGBUS, &sa, NULL);
    sigaction(SIGFPE, &sa, NULL);
    sigaction(SIGILL, &sa, NULL);
#endif

    { int measure = getenv("VERIF_MEASURE_CASES") != NULL; double max_ms = 0; int max_p = 0; uint64_t max_idx = 0;
    for (p = 0; p < nphases; p++) {
        uint64_t n = phases[p].count(vh_args.thorough), idx, k = 0; time_t last_arm = 0;
        if (vh_args.replay && p != vh_args.replay_phase) continue;
        if (vh_args.resume_phase >= 0 && p < vh_args.resume_phase) continue;
        cur_phase = p;
        for (idx = (uint64_t) vh_args.shard; idx < n; idx += (uint64_t) vh_args.nshards) {
            vh_rng_t rng;
            if (vh_args.replay) { if (vh_args.replay_idx >= n) break; idx = vh_args.replay_idx; }
            else if (vh_args.resume_phase == p && idx < vh_args.resume_idx) continue;
            cur_idx = idx; vh_sub = 0; case_desc[0] = 0;
            /* watchdog: "no case finishes within 150 s of CPU time" (wall-clock backstop 15 minutes); re-armed at most once per second (coarse vDSO clock, no syscall per case) */
            if (cpu_timer_armed) { cpu_timer_armed = 0; last_arm = 0; }
            { struct timespec now; clock_gettime(CLOCK_MONOTONIC_COARSE, &now); if (k++ == 0 || now.tv_sec != last_arm) { struct itimerval it; memset(&it, 0, sizeof it); it.it_value.tv_sec = case_budget; setitimer(ITIMER_PROF, &it, NULL); alarm(900); last_arm = now.tv_sec; } }
            vh_rng_seed(&rng, vh_args.seed, (uint64_t) p, idx);
            if (measure) {
                struct timespec a, b; double ms;
                clock_gettime(CLOCK_PROCESS_CPUTIME_ID, &a); phases[p].run(idx, &rng); clock_gettime(CLOCK_PROCESS_CPUTIME_ID, &b);
                ms = (double) (b.tv_sec - a.tv_sec) * 1e3 + (double) (b.tv_nsec - a.tv_nsec) / 1e6;
                if (ms > max_ms) { max_ms = ms; max_p = p; max_idx = idx; }
            } else
            phases[p].run(idx, &rng);
            if (vh_args.replay) break;
        }
    }
    if (measure) { FILE * mf = fopen(getenv("VERIF_MEASURE_CASES"), "a"); if (mf) { fprintf(mf, "MAXCASE %s %s %s phase=%s idx=%llu cpu_ms=%.1f\n", property, vh_args.config ? vh_args.config : "-", vh_args.thorough ? "thorough" : "quick", phases[max_p].name, (unsigned long long) max_idx, max_ms); fclose(mf); } } }
    alarm(0); vh_watchdog(0);
    write_hashes();
    dump_results(out_fd, 1);
    if (out_fd >= 0) close(out_fd);
    return nviol ? 1 : 0;
}
